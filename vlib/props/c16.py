"""C16 — Merkle proofs accept exactly the committed leaves."""
import hashlib, json, os, re
from .. import common
from ..common import TieBroken, coq_bytes, coq_list

PROP_FILE = "Properties/C16.v"
TRUSTED = ["SHA-2 is not modelled: the model is evaluated with an injective symbolic node hash (Hsym, tagged left length); "
           "python replaces every symbolic node by the real digest of left||right, so verdicts agree unless SHA-256 collides on a generated case",
           "MerkleMap / VecByteBuf construction in the harness (public fields)"]
ASSUMPTIONS = ["the stored row is a genuine row of the tree (row min(max_proofs, depth)) in the theorems; malformed rows are covered by the correspondence run only",
               "64-bit usize"]

U64 = 1 << 64


def H(a, b):
    return hashlib.sha256(a + b).digest()


# ------------------------------------------------------------------ facts: anchors of the modelled branches

def _norm(t):
    return re.sub(r"\s+", " ", t)


def facts(ctx):
    m = _norm(common.strip_tests(common.src("sdk/src/utils/merkle.rs")))
    lay = _norm(common.fn_body(common.src("sdk/src/utils/merkle.rs"), r"pub fn to_layout\s*\(", "to_layout"))
    gen = _norm(common.fn_body(common.src("sdk/src/utils/merkle.rs"), r"fn generate_tree\s*\(", "generate_tree"))
    prf = _norm(common.fn_body(common.src("sdk/src/utils/merkle.rs"), r"pub fn get_proof_by_index\s*\(", "get_proof_by_index"))
    b = common.strip_tests(common.src("sdk/src/assertions/bmff_hash.rs"))
    chk = _norm(common.fn_body(b, r"pub fn check_merkle_tree\s*\(", "check_merkle_tree"))
    hc = _norm(common.fn_body(b, r"pub fn hash_check\s*\(", "hash_check"))
    cm = _norm(common.fn_body(b, r"fn create_merkle_map_for_mdat_box\s*\(", "create_merkle_map_for_mdat_box"))
    need = [
        (lay, "while current_layer > 1", "to_layout loop condition"),
        (lay, "for i in (0..current_layer).step_by(2)", "to_layout pair loop"),
        (gen, "while current_layer.len() > 1", "generate_tree loop condition"),
        (gen, "if i + 1 == current_layer.len() {", "generate_tree odd-node test"),
        (gen, "parent_layer.push(MerkleNode(current_layer[i].0.clone()));", "generate_tree odd-node promotion"),
        (gen, "concat_and_hash(alg, &left.0, Some(&right.0))", "generate_tree node hash"),
        (prf, "if self.leaves.is_empty() || leaf_indx >= self.leaves.len()", "proof index bound"),
        (prf, "if proofs_left == 0 { break; }", "proof depth limit"),
        (prf, "let is_right = index % 2 == 1;", "proof side test"),
        (prf, "if index - 1 < layer.len() { proof.push(layer[index - 1].0.clone()); }", "proof left sibling"),
        (prf, "else if index + 1 < layer.len() { proof.push(layer[index + 1].0.clone()); }", "proof right sibling"),
        (prf, "index /= 2; proofs_left -= 1;", "proof step"),
        (chk, "if location >= self.count { return false; }", "check index bound"),
        (chk, "let layers = C2PAMerkleTree::to_layout(self.count);", "check layout"),
        (chk, "if layer == self.hashes.len() { break; }", "check row test"),
        (chk, "hash = concat_and_hash(alg, proof_hash, Some(&hash));", "check left-sibling hash"),
        (chk, "hash = concat_and_hash(alg, &hash, Some(proof_hash));", "check right-sibling hash"),
        (chk, "if index - 1 < layer {", "check left sibling test"),
        (chk, "} else if index + 1 < layer {", "check right sibling test"),
        (chk, "if index % 2 == 1 || index + 1 < layer { return false; }", "check absent-proof sibling test"),
        (chk, "self.hash_check(index, &hash)", "check final comparison"),
        (hc, "if let Some(h) = self.hashes.get(indx) { vec_compare(h, merkle_hash) } else { false }", "hash_check"),
        (cm, "let tree_row = std::cmp::min(max_proofs, m_tree.layers.len() - 1);", "stored row selection"),
        (cm, "if !proof.is_empty() {", "empty proof stored as None"),
    ]
    for text, pat, what in need:
        if pat not in text:
            raise TieBroken(f"srcfacts: {what} no longer reads `{pat}`")
    if chk.count("index /= 2;") != 2:
        raise TieBroken("srcfacts: check_merkle_tree no longer has exactly the two playback loops")
    hu = _norm(common.fn_body(common.src("sdk/src/utils/hash_utils.rs"), r"pub fn concat_and_hash\s*\(", "concat_and_hash"))
    if "temp.append(&mut r.to_vec())" not in hu or "hash_by_alg(alg, &temp, None)" not in hu:
        raise TieBroken("srcfacts: concat_and_hash is no longer hash(left || right)")
    ctx.facts = {"anchors": len(need) + 2}


# ------------------------------------------------------------------ independent spec of the tree (property text / C2PA spec)

def spec_layers(leaves):
    layers = [list(leaves)]
    while len(layers[-1]) > 1:
        cur = layers[-1]
        layers.append([H(cur[i], cur[i + 1]) if i + 1 < len(cur) else cur[i] for i in range(0, len(cur), 2)])
    return layers


def spec_proof(layers, i, r):
    """sibling path of leaf i up to (not including) row r"""
    p = []
    for k in range(r):
        sib = i ^ 1
        if sib < len(layers[k]):
            p.append(layers[k][sib])
        i //= 2
    return p


def resolve(layers, ref):
    t = ref[0]
    if t == "L":
        return layers[0][ref[1]]
    if t == "N":
        return layers[ref[1]][ref[2]]
    if t == "B":
        return bytes.fromhex(ref[1])
    return H(resolve(layers, ref[1]), resolve(layers, ref[2]))


def coq_ref(ref):
    t = ref[0]
    if t == "L":
        return f"(RL {ref[1]})"
    if t == "N":
        return f"(RN {ref[1]} {ref[2]})"
    if t == "B":
        return f"(RB {coq_bytes(bytes.fromhex(ref[1]))})"
    return f"(RH {coq_ref(ref[1])} {coq_ref(ref[2])})"


def real(term):
    """model term (list of ints, Hsym-tagged) -> real bytes"""
    if term and term[0] >= 256:
        la = term[0] - 256
        return H(real(term[1:1 + la]), real(term[1 + la:]))
    return bytes(term)


def coq_eval_files(prop, preamble, exprs, nshards=16, timeout=1500):
    """like common.coq_eval, but every shard writes to a file (a PIPE serialises the shards once outputs exceed 64 KB);
    exprs are dealt round-robin so that heavy neighbours land in different shards"""
    import subprocess
    os.makedirs(common.CASES, exist_ok=True)
    nshards = max(1, min(nshards, (len(exprs) + 3) // 4))
    shards = [list(range(k, len(exprs), nshards)) for k in range(nshards)]
    procs = []
    for k, idxs in enumerate(shards):
        path = os.path.join(common.CASES, f"{prop}_cases_{k}.v")
        with open(path, "w") as f:
            f.write(preamble + "\nSet Printing Width 1000000.\nSet Printing Depth 1000000.\n")
            for j in idxs:
                f.write(f'Goal True. idtac "@@CASE {j}". exact I. Qed.\nEval vm_compute in ({exprs[j]}).\n')
        out = open(path + ".out", "w")
        procs.append((k, path, out, subprocess.Popen(f"timeout {timeout} coqc -noglob -Q {common.COQ} C2PA {path}", shell=True,
                                                     cwd=common.CASES, stdout=out, stderr=subprocess.STDOUT)))
    results = [None] * len(exprs)
    for k, path, out, pr in procs:
        rc = pr.wait()
        out.close()
        txt = open(path + ".out").read()
        if rc != 0:
            raise TieBroken(f"model evaluation failed for {prop} shard {k} (rc {rc}): {txt[-600:]}")
        parts = re.split(r"@@CASE (\d+)\n", txt)
        for i in range(1, len(parts), 2):
            body = parts[i + 1].strip()
            m = re.match(r"=\s*(.*)\n\s*:\s[^\n]*\Z", body, re.S) or re.match(r"=\s*(.*?)\s*:\s[^:]*\Z", body, re.S)
            results[int(parts[i])] = common.parse_coq_term(m.group(1) if m else body)
    return results


PREAMBLE = """From C2PA Require Import Base.Bytes Model.Merkle.
From Coq Require Import NArith List Arith.
Import ListNotations.
Open Scope nat_scope.
Definition chk L m i p := check_merkle_tree Hsym (length L) (stored_row Hsym L m) (nth i L []) (N.of_nat i) p.
Definition c16_tree (L : list bytes) (m : nat) (idx : list nat) :=
  (gen_tree Hsym L, layout (length L), row_index Hsym L m,
   map (fun i => match proof_by_index Hsym L i m with
                 | Some p => Some (p, chk L m i (Some p), chk L m i (wrap_proof p))
                 | None => None end) idx).
Definition c16_sweep (L : list bytes) (mmax : nat) :=
  (layout (length L),
   map (fun m => map (fun i => match proof_by_index Hsym L i m with
                               | Some p => (length p, chk L m i (Some p), chk L m i (wrap_proof p))
                               | None => (0, false, false) end) (seq 0 (length L))) (seq 0 (S mmax))).
Inductive ref := RL (j : nat) | RN (k j : nat) | RB (b : bytes) | RH (a b : ref).
Fixpoint res (T : list (list bytes)) (r : ref) : bytes :=
  match r with RL j => nth j (nth 0 T []) [] | RN k j => nth j (nth k T []) [] | RB b => b
             | RH a b => Hsym (res T a) (res T b) end.
Definition c16_checks (L : list bytes) (count : nat) (row : list ref) (cs : list (ref * N * option (list ref))) :=
  let T := gen_tree Hsym L in
  let rw := map (res T) row in
  map (fun c => match c with (h, loc, p) =>
         check_merkle_tree Hsym count rw (res T h) loc (option_map (map (res T)) p) end) cs.
Open Scope N_scope.
"""


def coq_leaves(leaves):
    return coq_list([coq_bytes(l) for l in leaves])


def model_expr(c):
    L = coq_leaves([bytes.fromhex(x) for x in c["leaves"]])
    if c["k"] == "tree":
        return f"c16_tree {L} {c['m']} {coq_list([str(i) for i in c['idx']])}%nat"
    if c["k"] == "sweep":
        return f"c16_sweep {L} {c['mmax']}"
    cs = []
    for ch in c["checks"]:
        p = "None" if ch["proof"] is None else "(Some " + coq_list([coq_ref(r) for r in ch["proof"]]) + ")"
        cs.append(f"({coq_ref(ch['h'])}, {ch['loc']}%N, {p})")
    return f"c16_checks {L} {c['count']} {coq_list([coq_ref(r) for r in c['row']])} {coq_list(cs)}"


# ------------------------------------------------------------------ generation

def gen_leaves(rng, n, distinct=True):
    kind = rng.random() if n <= 64 else 0.0
    if kind < 0.6:
        ll = rng.choice([1, 2, 2, 3, 4]) if n < 200 else rng.choice([2, 3])
        if distinct and n <= 256 ** ll:
            vals = rng.sample(range(256 ** ll), n)
            return [v.to_bytes(ll, "big") for v in vals]
        return [bytes(rng.randrange(256) for _ in range(ll)) for _ in range(n)]
    if kind < 0.85:
        return [hashlib.sha256(b"leaf%d-%d" % (i, rng.randrange(1 << 30))).digest() for i in range(n)]
    # mixed lengths, possibly with duplicates when not distinct
    out = []
    seen = set()
    while len(out) < n:
        b = bytes(rng.randrange(256) for _ in range(rng.choice([1, 2, 5, 32, 33])))
        if distinct and b in seen:
            continue
        seen.add(b)
        out.append(b)
    return out


def sweep_case(n, mmax=11):
    leaves = [(i + 1).to_bytes(2, "big") for i in range(n)]
    return {"k": "sweep", "leaves": [l.hex() for l in leaves], "mmax": mmax}


def tree_case(rng, nmax):
    n = rng.choice([1, 2, 3, 4, 5, 6, 7, 8, 9, 15, 16, 17, 31, 33]) if rng.random() < 0.4 else rng.randrange(1, nmax + 1)
    leaves = gen_leaves(rng, n, distinct=rng.random() < 0.7)
    m = rng.choice([0, 1, 2, 3, 5, 5, 9, 12, rng.randrange(0, 12)])
    idx = list(range(n)) if n <= 12 else sorted(set([0, 1, n - 1, n - 2] + [rng.randrange(n) for _ in range(8)]))
    if rng.random() < 0.3:
        idx.append(n + rng.randrange(0, 3))          # out of range: BadParam
    return {"k": "tree", "leaves": [l.hex() for l in leaves], "m": m, "idx": idx}


def mutation_case(rng, nmax):
    """one tree, genuine row, a list of (hash, location, proof) presentations with the expected verdict class"""
    n = rng.choice([1, 2, 3, 4, 5, 6, 7, 8, 9, 12, 13, 16, 17]) if rng.random() < 0.5 else rng.randrange(1, nmax + 1)
    leaves = gen_leaves(rng, n, distinct=True)
    layers = spec_layers(leaves)
    depth = len(layers) - 1
    m = rng.choice([0, 1, 2, 3, 5, depth, depth + 2, rng.randrange(0, depth + 2)])
    r = min(m, depth)
    row = [["N", r, j] for j in range(len(layers[r]))]
    checks = []

    def path_refs(i):
        p = []
        for k in range(r):
            sib = i ^ 1
            if sib < len(layers[k]):
                p.append(["N", k, sib])
            i //= 2
        return p

    for _ in range(rng.choice([6, 10, 14])):
        i = rng.randrange(n)
        gen = path_refs(i)
        kind = rng.choice(["genuine", "other_leaf", "other_index", "alter_elem", "drop_elem", "swap", "none", "none_interior",
                           "surplus", "raw_hash", "big_index", "interior_as_leaf", "empty_some", "dup_elem"])
        h, loc, proof = ["L", i], i, gen
        if kind == "genuine":
            proof = gen if gen or rng.random() < 0.5 else None
        elif kind == "other_leaf":
            if n < 2:
                continue
            h = ["L", rng.choice([j for j in range(n) if j != i])]
        elif kind == "other_index":
            loc = rng.choice([j for j in range(n + 2) if j != i])
        elif kind == "alter_elem":
            if not gen:
                continue
            k = rng.randrange(len(gen))
            alt = rng.choice([["B", bytes(rng.randrange(256) for _ in range(rng.choice([2, 32]))).hex()],
                              ["L", rng.randrange(n)], ["N", rng.randrange(depth + 1), 0], ["H", gen[k], gen[k]]])
            proof = gen[:k] + [alt] + gen[k + 1:]
        elif kind == "drop_elem":
            if not gen:
                continue
            k = rng.randrange(len(gen))
            proof = gen[:k] + gen[k + 1:]
        elif kind == "swap":
            if len(gen) < 2:
                continue
            proof = list(gen)
            a, b = rng.sample(range(len(gen)), 2)
            proof[a], proof[b] = proof[b], proof[a]
        elif kind == "none":
            proof = None
        elif kind == "none_interior":
            h, proof = ["N", r, i >> r], None
        elif kind == "surplus":
            proof = gen + [rng.choice([["L", rng.randrange(n)], ["B", "00" * 32]]) for _ in range(rng.choice([1, 2]))]
        elif kind == "raw_hash":
            h = ["B", bytes(rng.randrange(256) for _ in range(rng.choice([0, 1, 2, 32]))).hex()]
        elif kind == "big_index":
            loc = rng.choice([n, n + 1, 2 * n, (1 << 32) + i, (1 << 63) + i, U64 - 1, U64 - 2])
        elif kind == "interior_as_leaf":
            k = rng.randrange(0, depth + 1)
            j = rng.randrange(len(layers[k]))
            h, loc = ["N", k, j], rng.choice([j, i, j << k if (j << k) < n else i])
            proof = path_refs(loc) if loc < n else gen
        elif kind == "empty_some":
            proof = []
        elif kind == "dup_elem":
            if not gen:
                continue
            proof = gen[:1] + gen
        checks.append({"kind": kind, "h": h, "loc": loc, "proof": proof})
    return {"k": "check", "leaves": [l.hex() for l in leaves], "count": n, "m": m, "row": row, "checks": checks}


def malformed_case(rng):
    """count / row that do not belong together: correspondence only"""
    n = rng.randrange(1, 20)
    leaves = gen_leaves(rng, n, distinct=True)
    layers = spec_layers(leaves)
    count = rng.choice([0, 1, n - 1, n + 1, 2 * n, n]) if rng.random() < 0.7 else rng.randrange(0, 40)
    count = max(0, count)
    k = rng.randrange(len(layers))
    row = [["N", k, j] for j in range(len(layers[k]))]
    if rng.random() < 0.5 and row:
        row = row[:rng.randrange(0, len(row) + 1)] + ([["L", 0]] if rng.random() < 0.5 else [])
    checks = []
    for _ in range(6):
        i = rng.randrange(0, max(count, n) + 2)
        pl = rng.randrange(0, 6)
        proof = None if rng.random() < 0.3 else [rng.choice([["L", rng.randrange(n)], ["N", k, 0]]) for _ in range(pl)]
        checks.append({"kind": "malformed", "h": rng.choice([["L", min(i, n - 1)], ["N", k, 0], ["N", len(layers) - 1, 0]]), "loc": i, "proof": proof})
    return {"k": "check", "leaves": [l.hex() for l in leaves], "count": count, "m": None, "row": row, "checks": checks}


def corpus():
    p = os.path.join(common.VERIF, "corpus", "C16.jsonl")
    if not os.path.exists(p):
        return []
    return [json.loads(l) for l in open(p) if l.strip()]


# ------------------------------------------------------------------ harness view of a case

def harness_case(c):
    if c["k"] != "check":
        return c
    layers = spec_layers([bytes.fromhex(x) for x in c["leaves"]])
    return {"id": c["id"], "k": "check", "count": c["count"],
            "row": [resolve(layers, r).hex() for r in c["row"]],
            "checks": [{"h": resolve(layers, ch["h"]).hex(), "loc": str(ch["loc"]),
                        "proof": None if ch["proof"] is None else [resolve(layers, r).hex() for r in ch["proof"]]}
                       for ch in c["checks"]]}


def expected(c, ch, layers):
    """property text -> 'accept' | 'reject' | 'unspecified' for one presentation against a genuine row"""
    if c.get("m") is None:
        return "unspecified"
    n = c["count"]
    r = min(c["m"], len(layers) - 1)
    loc = ch["loc"]
    if loc >= n:
        return "reject"
    h = resolve(layers, ch["h"])
    if h != layers[0][loc]:
        return "reject"                                   # not the committed leaf value at that index
    gen = spec_proof(layers, loc, r)
    if ch["proof"] is None:
        return "accept" if not gen else "reject"          # None is how the SDK stores an empty proof
    p = [resolve(layers, x) for x in ch["proof"]]
    if p == gen:
        return "accept"
    if p[:len(gen)] == gen:
        return "unspecified"                              # F-MERKLE-TAIL remark: surplus trailing elements
    return "reject"                                       # altered / truncated proof


def single(c, k):
    d = {x: c[x] for x in c if x not in ("checks", "id")}
    d["checks"] = [c["checks"][k]]
    return d


def evaluate(ctx, cases, model_ids):
    impl = common.run_harness("c16", [harness_case(c) for c in cases])
    mcases = [c for c in cases if c["id"] in model_ids]
    mcases.sort(key=lambda c: -len(c["leaves"]) * (40 if c["k"] == "sweep" else 1))     # heavy first, dealt round-robin
    model = coq_eval_files("C16", PREAMBLE, [model_expr(c) for c in mcases])
    mres = {c["id"]: model[k] for k, c in enumerate(mcases)}
    st = {"sweep_checks": 0, "tree_proofs": 0, "presentations": 0, "expected": {"accept": 0, "reject": 0, "unspecified": 0},
          "mutation_kinds": {}, "leaf_counts": {"1": 0, "2-8": 0, "9-64": 0, "65-300": 0}, "model_cases": len(mcases),
          "surplus_accepted": 0, "surplus_total": 0, "max_n_swept": 0}
    distinct = set()
    for c in cases:
        r = impl[c["id"]]
        leaves = [bytes.fromhex(x) for x in c["leaves"]]
        n = len(leaves)
        st["leaf_counts"]["1" if n == 1 else "2-8" if n <= 8 else "9-64" if n <= 64 else "65-300"] += 1
        if r["r"] in ("panic", "crash"):
            ctx.report_violation(c, f"implementation panicked: {r.get('msg')}")
            continue
        layers = spec_layers(leaves)
        mo = mres.get(c["id"])
        if c["k"] == "sweep":
            st["max_n_swept"] = max(st["max_n_swept"], n)
            distinct.add(("sweep", n))
            for m in range(c["mmax"] + 1):
                rr = min(m, len(layers) - 1)
                for i in range(n):
                    st["sweep_checks"] += 1
                    if r["some"][m][i] != "1" or r["wrap"][m][i] != "1":
                        ctx.report_violation({"k": "tree", "leaves": c["leaves"], "m": m, "idx": [i]},
                                             f"generated proof for leaf {i} of {n} (max proofs {m}, row {rr}) does not verify "
                                             f"(Some:{r['some'][m][i]} stored-form:{r['wrap'][m][i]})")
            if mo is not None:
                mr = {"layout": mo[0], "plen": [[t[0] for t in row] for row in mo[1]],
                      "some": ["".join("1" if t[1] == "true" else "0" for t in row) for row in mo[1]],
                      "wrap": ["".join("1" if t[2] == "true" else "0" for t in row) for row in mo[1]]}
                ir = {k: r[k] for k in ("layout", "plen", "some", "wrap")}
                if mr != ir:
                    ctx.disagreements.append({"case": {"k": "sweep", "n": n, "mmax": c["mmax"]},
                                              "impl": {k: str(v)[:200] for k, v in ir.items() if mr[k] != v},
                                              "model": {k: str(v)[:200] for k, v in mr.items() if ir[k] != v}})
        elif c["k"] == "tree":
            distinct.add(("tree", c["leaves"][0] if c["leaves"] else "", n, c["m"]))
            for pr in r["proofs"]:
                st["tree_proofs"] += 1
                if pr["i"] < n:
                    if "err" in pr:
                        ctx.report_violation(single_tree(c, pr["i"]), f"no proof generated for leaf {pr['i']} of {n}: {pr['err']}")
                    elif not (pr["some"] and pr["wrap"]):
                        ctx.report_violation(single_tree(c, pr["i"]), f"generated proof for leaf {pr['i']} of {n} (max proofs {c['m']}) does not verify")
                elif "err" not in pr:
                    ctx.report_violation(single_tree(c, pr["i"]), f"a proof was generated for index {pr['i']} >= leaf count {n}")
            if mo is not None:
                mt, mlayout, mrow, mproofs = mo
                mr = {"layers": [[real(x).hex() for x in layer] for layer in mt], "layout": mlayout, "row": mrow, "proofs": []}
                for i, mp in zip(c["idx"], mproofs):
                    if mp == "None":
                        mr["proofs"].append({"i": i, "err": "BadParam"})
                    else:
                        p, a, b = mp[1]
                        mr["proofs"].append({"i": i, "p": [real(x).hex() for x in p], "some": a == "true", "wrap": b == "true"})
                ir = {k: r[k] for k in ("layers", "layout", "row", "proofs")}
                if mr != ir:
                    ctx.disagreements.append({"case": c, "impl": {k: str(v)[:300] for k, v in ir.items() if mr[k] != v},
                                              "model": {k: str(v)[:300] for k, v in mr.items() if ir[k] != v}})
        else:
            distinct.add(("check", c["leaves"][0] if c["leaves"] else "", n, c["count"], c.get("m")))
            depth = len(layers) - 1
            for k, (ch, v) in enumerate(zip(c["checks"], r["v"])):
                st["presentations"] += 1
                st["mutation_kinds"][ch["kind"]] = st["mutation_kinds"].get(ch["kind"], 0) + 1
                e = expected(c, ch, layers)
                st["expected"][e] += 1
                if ch["kind"] == "surplus" and e == "unspecified":
                    st["surplus_total"] += 1
                    st["surplus_accepted"] += 1 if v else 0
                if e != "unspecified" and v != (e == "accept"):
                    mi = single(c, k)
                    rr = min(c["m"], depth)
                    hv = resolve(layers, ch["h"])
                    mi["proof_is_none"] = ch["proof"] is None
                    mi["row_above_leaves"] = rr > 0
                    mi["h_is_row_node_above_loc"] = ch["loc"] < n and (ch["loc"] >> rr) < len(layers[rr]) and hv == layers[rr][ch["loc"] >> rr]
                    why = (f"presentation ({ch['kind']}) at location {ch['loc']} of {n} leaves, row {rr}: "
                           f"expected {e} by the property, implementation {'accepted' if v else 'rejected'}")
                    ctx.report_violation(single(c, k), why, mi)
            if mo is not None:
                mv = [x == "true" for x in (mo if isinstance(mo, list) else [mo])]
                if mv != r["v"]:
                    bad = [k for k in range(len(mv)) if k >= len(r["v"]) or mv[k] != r["v"][k]]
                    ctx.disagreements.append({"case": single(c, bad[0]), "impl": r["v"][bad[0]], "model": mv[bad[0]]})
    return st, len(distinct)


def single_tree(c, i):
    return {"k": "tree", "leaves": c["leaves"], "m": c["m"], "idx": [i]}


def build_cases(ctx, model=True):
    q = ctx.quick()
    cases = corpus()
    sweeps = [sweep_case(n) for n in range(1, 301)]                      # exhaustive on the implementation, every tier
    cases += sweeps
    cases += [tree_case(ctx.rng, 80 if q else 300) for _ in range(60 if q else 300)]
    cases += [mutation_case(ctx.rng, 40 if q else 300) for _ in range(150 if q else 1000)]
    cases += [malformed_case(ctx.rng) for _ in range(40 if q else 300)]
    for i, c in enumerate(cases):
        c["id"] = i
    # the model is evaluated on every non-sweep case and on the sweeps of all small leaf counts plus sampled larger ones
    small, nbig = (40, 6) if q else (128, 24)
    big = ctx.rng.sample(range(small + 1, 301), nbig)
    model_ids = {c["id"] for c in cases if c["k"] != "sweep" or len(c["leaves"]) <= small or len(c["leaves"]) in big}
    return cases, model_ids


def run(ctx):
    if not getattr(ctx, "no_build", False):
        common.build_harness()
    if ctx.replay:
        cases = [ctx.replay["case"]] if "case" in ctx.replay else [d["case"] for d in ctx.replay.get("disagreements", [])]
        cases = [c for c in cases if "leaves" in c]
        for i, c in enumerate(cases):
            c["id"] = i
        model_ids = {c["id"] for c in cases}
    else:
        cases, model_ids = build_cases(ctx)
    st, distinct = evaluate(ctx, cases, model_ids)
    ctx.coverage.update({
        "evaluations": st["sweep_checks"] + st["tree_proofs"] + st["presentations"],
        "distinct_nontrivial": distinct,
        "rule": "implementation: every leaf count 1..300 x every index x every max-proof depth 0..11 (generated proof, Some and stored form) "
                "+ seeded trees (layers/proofs compared hash by hash) + seeded presentations (14 mutation kinds) + malformed count/row pairs; "
                "model evaluated on the same cases (sweeps: n <= 40 and 6 sampled larger n in quick, n <= 128 and 24 sampled in thorough); "
                "distinct by (kind, first leaf, leaf count, depth)",
        "distribution": st,
        "cases": len(cases),
        "samples": [{k: (v if len(json.dumps(v)) < 200 else json.dumps(v)[:200] + "...") for k, v in c.items()}
                    for c in cases[:1] + cases[305:307] + cases[-1:]],
    })


def search(ctx):
    common.build_harness()
    cases = [sweep_case(n) for n in range(1, 301)]
    cases += [tree_case(ctx.rng, 300) for _ in range(800)] + [mutation_case(ctx.rng, 300) for _ in range(3000)]
    for i, c in enumerate(cases):
        c["id"] = i
    evaluate(ctx, cases, set())
    ctx.coverage["search_evaluations"] = len(cases)
