"""C21 — Update manifests cannot alter bound content or carry forbidden parts."""
import json, os, re
from .. import common
from ..common import TieBroken, coq_list
from ._e2e_par import run_par, coq_str

PROP_FILE = "Properties/C21.v"
TRUSTED = ["claims are reduced to {update flag, ingredient relationships/targets, number of hash assertions, action names, "
           "number of claim thumbnails}: CBOR/JUMBF decoding, signatures and the other rules of verify_internal are exercised by the run only",
           "hash functions are a parameter of c21_content_bound (collision alternative); range hashing is C13's model",
           "the re-basing code is inline in verify_hash_binding: it is tied by source fragments and by the end-to-end verdicts, "
           "not by a direct call",
           "BMFF original/update split (BmffIO::write_cai) is covered by the MP4 runs only"]
ASSUMPTIONS = ["debug-profile harness; ed25519 test certificates; fixtures no_manifest.jpg, libpng-test.png, video1_no_manifest.mp4",
               "crafted update manifests are produced by Builder::verif_c21_* (sign split in two, commit without update_manifest_test)"]

CODES = {"UpdateInvalid": "manifest.update.invalid", "UpdateWrongParents": "manifest.update.wrongParents",
         "MultipleParents": "manifest.multipleParents", "HardBindingsMissing": "claim.hardBindings.missing",
         "HardBindingsMultiple": "assertion.multipleHardBindings"}
MODELLED = set(CODES.values())
BMFF_UNBOUND = {"ftyp", "free", "skip", "mfra"}     # BmffHash::set_default_exclusions (+ the C2PA uuid box)
# C2PA specification, update manifests: the only actions an update manifest may contain (the oracle's own copy)
SPEC_ALLOWED = ["c2pa.edited.metadata", "c2pa.opened", "c2pa.published", "c2pa.redacted"]
FORBIDDEN_ACTIONS = ["c2pa.edited", "c2pa.color_adjustments", "c2pa.resized", "c2pa.cropped", "c2pa.filtered", "c2pa.unknown"]


def facts(ctx):
    ties = []          # shape fragments that no longer match: reported as a broken tie, the run goes on
    t = common.strip_tests(common.src("sdk/src/claim.rs"))
    m = common.fact(r"const\s+ALLOWED_UPDATE_MANIFEST_ACTIONS\s*:\s*\[&str;\s*(\d+)\]\s*=\s*\[(.*?)\];", t, "ALLOWED_UPDATE_MANIFEST_ACTIONS")
    allowed = re.findall(r'"([^"]+)"', m.group(2))
    if len(allowed) != int(m.group(1)) or not allowed:
        raise TieBroken("srcfacts: ALLOWED_UPDATE_MANIFEST_ACTIONS does not parse")
    vi = common.fn_body(t, r"fn\s+verify_internal\s*\(", "verify_internal")
    i = vi.find("if claim.update_manifest() {")
    if i < 0:
        raise TieBroken("srcfacts: verify_internal has no `if claim.update_manifest() {` branch")
    ub = vi[i:]
    mt = re.search(r"contains\(CLAIM_THUMBNAIL\)\)\s*\.count\(\)\s*(>=|>)\s*(\d+)", ub)
    if not mt:
        raise TieBroken("srcfacts: thumbnail count test of the update branch not found")
    limit = int(mt.group(2)) if mt.group(1) == ">" else int(mt.group(2)) - 1
    # fix 37f0723a3: the hard-binding test is the first rule of the update branch
    if not re.search(r"if\s+claim\.update_manifest\(\)\s*\{(?:\s*//[^\n]*\n)*\s*if\s+!claim\.hash_assertions\(\)\.is_empty\(\)\s*\{[^}]*?MANIFEST_UPDATE_INVALID", vi, re.S):
        ties.append("srcfacts: verify_internal's update branch no longer starts with the hard-binding test (hash_assertions non-empty => manifest.update.invalid)")
    for frag, what in ((r"ALLOWED_UPDATE_MANIFEST_ACTIONS\s*\.iter\(\)\s*\.any\(\|a\|\s*\*a\s*==\s*action\.action\(\)\)", "allowed-action test"),
                       (r"match\s+parent_count\s*\{\s*0\s*=>\s*\{[^}]*?MANIFEST_UPDATE_WRONG_PARENTS", "parent_count 0 arm"),
                       (r"1\s*=>\s*\(\),\s*_\s*=>\s*\{[^}]*?MANIFEST_UPDATE_INVALID", "parent_count 1 / _ arms"),
                       (r"if\s+parent_count\s*>\s*1\s*\{[^}]*?MANIFEST_MULTIPLE_PARENTS", "non-update multiple parents"),
                       (r"ingredient\.relationship\s*==\s*Relationship::ParentOf", "parent filter")):
        if not re.search(frag, vi, re.S):
            ties.append(f"srcfacts: verify_internal: {what} no longer matches")
    hb = common.fn_body(t, r"fn\s+verify_hash_binding\s*\(", "verify_hash_binding")
    for frag in ("if claim.label() == svi.binding_claim {",
                 "hash_assertions.is_empty() && !claim.update_manifest()",
                 "hash_assertions.len() != 1 && !claim.update_manifest()",
                 "!hash_assertions.is_empty() && claim.update_manifest()",
                 "if svi.update_manifest_label.is_some() {",
                 "exclusions.iter().position(|r| r.start() == range.start())",
                 "range.length().saturating_sub(exclusions[pos].length())",
                 "exclusions[pos] = range.clone();",
                 "if start_offset > 0 {",
                 "if exclusion.start() > start_offset {",
                 "exclusion.set_start(exclusion.start() + start_adjust);"):
        if frag not in hb:
            ties.append(f"srcfacts: verify_hash_binding no longer contains `{frag}`")
    s = common.strip_tests(common.src("sdk/src/store.rs"))
    gb = common.fn_body(s, r"fn\s+get_hash_binding_manifest_impl\s*\(", "get_hash_binding_manifest_impl")
    for frag in ("if !visited.insert(claim.label().to_owned()) {",
                 "if !claim.update_manifest() && !claim.hash_assertions().is_empty() {",
                 "if ingredient.relationship == Relationship::ParentOf {",
                 "if parent.update_manifest() {",
                 "return self.get_hash_binding_manifest_impl(parent, visited);",
                 "} else if !parent.hash_assertions().is_empty() {"):
        if frag not in gb:
            ties.append(f"srcfacts: get_hash_binding_manifest_impl no longer contains `{frag}`")
    vs = common.fn_body(s, r"pub\s+fn\s+verify_store\s*\(", "verify_store")
    if "store.get_claim(&svi.binding_claim)" not in vs or "Claim::verify_hash_binding(binding_claim" not in vs:
        ties.append("srcfacts: verify_store no longer runs verify_hash_binding on svi.binding_claim")
    v = ("(* generated from sdk/src/claim.rs on every run — do not edit *)\n"
         "From Coq Require Import String List.\nImport ListNotations.\nLocal Open Scope string_scope.\n"
         "Definition ALLOWED_UPDATE_MANIFEST_ACTIONS : list string := [" + "; ".join('"%s"' % a for a in allowed) + "].\n"
         f"Definition UPDATE_THUMBNAIL_LIMIT : nat := {limit}.\n")
    common.write_if_changed(os.path.join(common.COQ, "Generated", "C21_facts.v"), v)
    ctx.facts = {"allowed": allowed, "thumb_limit": limit}
    if ties:
        if getattr(ctx, "tie_errors", None) is not None:
            ctx.tie_errors.extend(ties)
        else:
            raise TieBroken("; ".join(ties))


# ------------------------------------------------------------------ cases

def step(intent="update", via="builder", **kw):
    d = {"intent": intent, "via": via}
    d.update(kw)
    return d


def mut(zone, num=1, den=2, xor=1):
    return {"zone": zone, "num": num, "den": den, "xor": xor}


def seg(name, num=1, den=2, xor=1, k=0):
    return {"zone": "seg", "name": name, "k": k, "num": num, "den": den, "xor": xor}


def std_muts(rng, n_post=1, n_pre=1, n_in=1, append=True, fmt="jpeg"):
    ms = []
    x = lambda: rng.choice([1, 0x80, 0xff, rng.randrange(1, 256)])
    if fmt == "mp4":
        # BMFF: the update manifest is a second C2PA uuid box at the end; address top-level boxes by name
        for _ in range(n_post):
            ms.append(seg(rng.choice(["moov", "mdat"]), rng.randrange(0, 1001), 1000, x()))
        for _ in range(n_pre):
            ms.append(seg(rng.choice(["ftyp", "free"]), rng.randrange(0, 1001), 1000, x()))
        for _ in range(n_in):
            ms.append(seg("uuid", rng.randrange(0, 1001), 1000, x(), k=rng.choice([0, 2])))
        return ms
    for _ in range(n_post):
        ms.append(mut("post", rng.randrange(0, 1001), 1000, x()))
    for _ in range(n_pre):
        ms.append(mut("pre", rng.randrange(0, 1001), 1000, x()))
    for _ in range(n_in):
        ms.append(mut("in", rng.randrange(0, 1001), 1000, x()))
    if append:
        ms.append({"zone": "append", "hex": "%02x" % rng.randrange(256)})
    return ms


def gen_cases(ctx):
    rng = ctx.rng
    q = ctx.quick()
    cases = []
    k = 1 if q else 3
    # A. update manifests through the Builder, stacked in the possible ways
    for fmt in ("jpeg", "png", "mp4"):
        cases.append({"fmt": fmt, "steps": [step()], "muts": std_muts(rng, 2 * k, k, k, fmt=fmt)})
    stacks = [[step(), step()], [step("edit"), step()], [step(), step("edit")]]
    if not q:
        stacks += [[step(), step(), step()], [step("edit"), step(), step()]]
    for i, st in enumerate(stacks):
        fmt = "jpeg" if (q and i != 1) else rng.choice(["jpeg", "png"]) if q else ["jpeg", "png", "mp4"][i % 3]
        cases.append({"fmt": fmt, "steps": st, "muts": std_muts(rng, k, 1, 1, fmt=fmt)})
    # B. crafted variants violating one rule each (and combinations)
    fa = ["c2pa.edited"] + rng.sample(FORBIDDEN_ACTIONS[1:], 1 if q else 3)
    crafted = [step(via="craft", flag=True, hash="zero"),
               step(via="craft", flag=True, parents=2),
               step(via="craft", flag=True, parents=0),
               step(via="craft", flag=True, thumbs=1),
               step(via="craft", flag=True, comps=1),
               step(via="craft", flag=True, actions=["c2pa.published", "c2pa.edited.metadata"]),
               step(via="craft", flag=True)]
    crafted += [step(via="craft", flag=True, actions=[a]) for a in fa]
    crafted += [step(via="craft", flag=True, actions=[fa[0], "c2pa.published", rng.choice(FORBIDDEN_ACTIONS)], parents=2)]
    if not q:
        crafted += [step(via="craft", flag=True, hash="zero", parents=2),
                    step(via="craft", flag=True, hash="zero", actions=[fa[0]]),
                    step(via="craft", flag=True, parents=2, comps=1),
                    step(via="craft", flag=True, thumbs=2),
                    step(via="craft", flag=True, hash="zero", thumbs=1, comps=2)]
    for i, st in enumerate(crafted):
        fmt = "jpeg" if q else ["jpeg", "png", "jpeg", "mp4"][i % 4]
        if st.get("hash") == "zero" and i == 0:
            fmt = "jpeg"
        ms = std_muts(rng, 1, 0, 0, append=False, fmt=fmt) if (st.get("hash") == "zero" or not q) else []
        cases.append({"fmt": fmt, "steps": [st], "muts": ms})
    # crafted on top of an update manifest (binding manifest two levels down)
    cases.append({"fmt": "jpeg", "steps": [step(), step(via="craft", flag=True, hash="zero")], "muts": std_muts(rng, 1, 0, 0, append=False)})
    # C. the same requests through the public Builder (refused at signing time)
    cases.append({"fmt": "jpeg", "steps": [step(actions=[fa[0]])], "muts": []})
    # D. controls: ordinary manifests through the crafting path
    cases.append({"fmt": "jpeg", "steps": [step("edit", via="craft", flag=False, parents=2)], "muts": []})
    cases.append({"fmt": "jpeg", "steps": [step("edit", via="craft", flag=False, actions=[fa[0]])], "muts": std_muts(rng, 1, 0, 0, append=False)})
    return cases


def corpus():
    p = os.path.join(common.VERIF, "corpus", "C21.jsonl")
    if not os.path.exists(p):
        return []
    return [json.loads(l) for l in open(p) if l.strip()]


# ------------------------------------------------------------------ model

def model_claims(case):
    """the store the harness builds, as Model/UpdateManifest.v claims; label 1 = base, 100 = the independent asset"""
    claims = ['Claim 1 false [] 1 [["c2pa.created"%string]] 1', 'Claim 100 false [] 1 [["c2pa.created"%string]] 1']
    prev = 1
    meta = []
    for k, st in enumerate(case["steps"]):
        label = 2 + k
        craft = st.get("via", "builder") == "craft"
        upd = st.get("flag", True) if craft else (st.get("intent", "update") == "update")
        parents = st.get("parents", 1)
        ings = []
        if parents >= 2:
            ings.append(f"Ing ParentOf (Some {prev})")
            ings += ["Ing ParentOf (Some 100)"] * (parents - 1)
        ings += ["Ing ComponentOf (Some 100)"] * st.get("comps", 0)
        if parents == 1:
            ings.append(f"Ing ParentOf (Some {prev})")      # added by maybe_add_parent, after the explicit ingredients
        hashes = (0 if upd else 1) + (1 if (craft and st.get("hash", "none") == "zero") else 0)
        acts = ["c2pa.opened"] + list(st.get("actions", []))
        thumbs = st.get("thumbs", 0) if craft else 0
        claims.append(f"Claim {label} {'true' if upd else 'false'} {coq_list(ings)} {hashes} [{coq_list([coq_str(a) for a in acts])}] {thumbs}")
        meta.append({"label": label, "update": upd, "parents": parents, "hash": hashes - (0 if upd else 1), "actions": acts[1:], "thumbs": thumbs})
        prev = label
    return claims, meta


def model_expr(case, regions):
    claims, meta = model_claims(case)
    n = len(claims)
    active = n - 1
    bs, bl = regions["binding"]
    rs, rl = regions["final"]
    return (f"let st := {coq_list(claims)} in let c := nth {active} st (Claim 0 false [] 0 [] 0) in "
            f"(verify_active st c, binding_manifest st c, "
            f"effective_exclusions (c_update c) [HR {bs} {bl} None] (Some ({rs}, {rl})))")


IMPORTS = ("From C2PA Require Import Base.Bytes Model.RangeHash Model.UpdateManifest.\n"
           "From Coq Require Import NArith List String.\nImport ListNotations.\nOpen Scope N_scope.")


def violated_rules(meta_last, allowed):
    """which rules of the property text the active update manifest breaks (None: not an update manifest)"""
    if not meta_last["update"]:
        return None
    v = []
    if meta_last["parents"] != 1:
        v.append("parents")
    if meta_last["hash"] > 0:
        v.append("hard_binding")
    if any(a not in allowed for a in meta_last["actions"]):
        v.append("action")
    return v


def is_valid(rep):
    return rep.get("r") == "ok" and rep.get("state") in ("Valid", "Trusted")


def evaluate(ctx, cases, with_model=True):
    allowed = SPEC_ALLOWED
    impl = run_par("c21", cases)
    stats = {"signed": 0, "sign_refused": 0, "by_fmt": {}, "rule_violations": {}, "base_states": {}, "mut": {"bound": 0, "bound_detected": 0,
             "unbound_or_in_store": 0, "in_store_still_valid": 0, "read_errors": 0}, "binding_depth": {}, "known_hits": 0}
    todo = []
    for c in cases:
        r = impl[c["id"]]
        stats["by_fmt"][c["fmt"]] = stats["by_fmt"].get(c["fmt"], 0) + 1
        claims, meta = model_claims(c)
        last = meta[-1] if meta else None
        viol = violated_rules(last, allowed) if last else None
        mi = {"case": c, "violates": viol}
        if r["r"] in ("panic", "crash"):
            ctx.report_violation(c, f"implementation panicked/crashed: {r.get('msg')}", mi)
            continue
        if r["r"] == "sign-refused":
            stats["sign_refused"] += 1
            continue                              # nothing was produced: nothing can be reported Valid
        if r["r"] != "ok":
            ctx.tie_errors.append(f"harness could not prepare case {c['id']}: {json.dumps(r)[:200]}")
            continue
        stats["signed"] += 1
        base = r["base"]
        bstate = base.get("state") if base.get("r") == "ok" else "err:" + str(base.get("kind"))
        stats["base_states"][bstate] = stats["base_states"].get(bstate, 0) + 1
        # ---- oracle 1: rule violations are never Valid
        if viol:
            for x in viol:
                stats["rule_violations"][x] = stats["rule_violations"].get(x, 0) + 1
            if is_valid(base):
                ctx.report_violation(c, f"update manifest violating {'+'.join(viol)} (hard binding / parent count / action rule) reported {base['state']}", mi)
        # ---- oracle 2: content changes are detected
        lay = r["layout"]
        rs, rl = r["region"]
        for m, mr in zip(c.get("muts", []), r["muts"]):
            if mr.get("r") == "empty-zone":
                continue
            zone = m["zone"]
            seg = mr.get("seg", "")
            if c["fmt"] == "mp4":
                bound = zone == "seg" and not mr.get("c2pa") and seg not in BMFF_UNBOUND and seg != ""
            else:
                bound = zone in ("pre", "post", "append")
            if mr.get("r") == "err":
                stats["mut"]["read_errors"] += 1
            if bound:
                stats["mut"]["bound"] += 1
                if is_valid(mr):
                    mm = dict(mi)
                    mm["mutation"] = m
                    ctx.report_violation(dict(c, muts=[m]), f"content byte at {mr.get('pos')} ({seg}) changed after the update manifest was added, still {mr['state']}", mm)
                else:
                    stats["mut"]["bound_detected"] += 1
            else:
                stats["mut"]["unbound_or_in_store"] += 1
                if is_valid(mr):
                    stats["mut"]["in_store_still_valid"] += 1
        todo.append((c, r, meta))
    # ---- correspondence
    if with_model and todo:
        exprs = []
        for c, r, meta in todo:
            n = len(meta) + 2
            # the manifest the model says is the binding one decides which signing-time region is the recorded exclusion;
            # computed in python from the same walk is circular, so take it from the implementation's verdict and let the
            # model's own binding_manifest be compared separately
            regions = r["regions"]
            bidx = None
            for code, idx in r["base"].get("binding", []):
                if idx >= 0:
                    bidx = idx
            if bidx is None:
                bidx = 0
            exprs.append(model_expr(c, {"binding": regions[bidx], "final": r["region"]}))
        out = common.coq_eval("C21", IMPORTS, exprs, shard_size=40)
        for (c, r, meta), mo in zip(todo, out):
            codes_m, bind_m, excl_m = mo
            codes_m = sorted(CODES[x] for x in (codes_m if isinstance(codes_m, list) else [codes_m]) if x != [])
            base = r["base"]
            if base.get("r") == "ok":
                codes_i = sorted(x for x in base["failure"] if x in MODELLED)
            else:
                codes_i = ["claim.hardBindings.missing"] if base.get("kind") == "ClaimMissingHardBinding" else ["err:" + str(base.get("kind"))]
            # model labels: 1 -> manifest index 0, 2+k -> index 1+k
            def idx_of(lbl):
                return 0 if lbl == 1 else (-100 if lbl == 100 else lbl - 1)
            bm = None if bind_m == "None" else idx_of(bind_m[1])
            bi = None
            for code, idx in base.get("binding", []) if base.get("r") == "ok" else []:
                bi = idx
            if bm is not None:
                d = (len(meta)) - bm
                stats["binding_depth"][str(d)] = stats["binding_depth"].get(str(d), 0) + 1
            ok = codes_m == codes_i
            if base.get("r") == "ok" and bm is not None and bi is not None and bm != bi and bm != -100:
                ok = False
            # data-hash verdict on the untouched asset: match iff the effective exclusion is the whole (grown) store
            if ok and base.get("r") == "ok" and c["fmt"] in ("jpeg", "png") and bi is not None and bi >= 0:
                ex = [[e["hstart"], e["hlen"]] for e in excl_m]
                want_match = ex == [list(r["region"])]
                got_match = any(code.endswith("dataHash.match") for code, _ in base.get("binding", []))
                if want_match != got_match:
                    ok = False
            if not ok:
                ctx.disagreements.append({"case": c, "impl": {"codes": codes_i, "binding": bi, "state": base.get("state")},
                                          "model": {"codes": codes_m, "binding": bm, "exclusions": excl_m}})
    return stats


def run(ctx):
    if not getattr(ctx, "no_build", False):
        common.build_harness()
    if ctx.replay:
        cases = [ctx.replay["case"]] if "case" in ctx.replay else [d["case"] for d in ctx.replay.get("disagreements", [])]
    else:
        cases = corpus() + gen_cases(ctx)
    for i, c in enumerate(cases):
        c["id"] = i
    # tie: the allowed-action table compiled into the binary is the one the facts were generated from
    fr = run_par("c21", [{"id": "facts", "op": "facts"}])["facts"]
    if getattr(ctx, "facts", None) and fr.get("allowed") != ctx.facts["allowed"]:
        ctx.tie_errors.append(f"ALLOWED_UPDATE_MANIFEST_ACTIONS in the binary {fr.get('allowed')} != source facts {ctx.facts['allowed']}")
    stats = evaluate(ctx, cases)
    nm = sum(len(c.get("muts", [])) for c in cases)
    distinct = len({json.dumps({k: v for k, v in c.items() if k != "id"}, sort_keys=True) for c in cases})
    ctx.coverage.update({
        "evaluations": len(cases) + nm, "distinct_nontrivial": distinct,
        "rule": "corpus + update manifests through BuilderIntent::Update on JPEG/PNG/MP4 (stacks of 1-3 manifests) + crafted variants "
                "violating each rule (hard binding, 0/2 parents, forbidden actions, thumbnails, combinations) + Builder refusals + "
                "ordinary-manifest controls; every asset read untouched and under seeded byte mutations before / inside / after the "
                "manifest store and appended bytes; evaluations = reads; distinct by case specification",
        "distribution": stats,
        "samples": [{k: v for k, v in c.items()} for c in cases[:2] + cases[len(cases) // 2: len(cases) // 2 + 1]],
    })


def search(ctx):
    """tie broken and nothing found: more mutations on the valid update manifests, oracle only"""
    common.build_harness()
    cases = []
    for fmt in ("jpeg", "png", "mp4"):
        cases.append({"fmt": fmt, "steps": [step()], "muts": std_muts(ctx.rng, 12, 4, 0, fmt=fmt)})
        cases.append({"fmt": fmt, "steps": [step(), step()], "muts": std_muts(ctx.rng, 8, 2, 0, fmt=fmt)})
    for a in FORBIDDEN_ACTIONS:
        cases.append({"fmt": "jpeg", "steps": [step(via="craft", flag=True, actions=[a])], "muts": []})
    for st in (step(via="craft", flag=True, parents=2), step(via="craft", flag=True, parents=0), step(via="craft", flag=True, parents=3)):
        cases.append({"fmt": "jpeg", "steps": [st], "muts": []})
    for i, c in enumerate(cases):
        c["id"] = i
    evaluate(ctx, cases, with_model=False)
    ctx.coverage["search_evaluations"] = sum(1 + len(c["muts"]) for c in cases)
