"""C38 — validation is deterministic and repeatable.

Translator: inventory of every process-global cell of non-test SDK code (`static`, `static mut`, `thread_local!`,
`lazy_static!`, `OnceLock`/`LazyLock`/... statics) with its kind, plus the functions that write / read the mutable ones
and the functions that reach those (qualified-call closure) -> coq/Generated/C38_facts.v.  The theorems of
Properties/C38.v require the inventory to equal the modelled list.  Differential run: seeded histories of
sign/read/ingredient/archive operations in one process (harness/src/c38.rs), every produced asset re-read at the end and
compared with a read in a fresh process."""
import json, os, re, subprocess
from .. import common
from ..common import TieBroken
from . import c40
from .c40 import close_of, rs_files, non_test_tokens, coq_str
from .c35 import fn_ranges, impl_ranges, is_test_path

PROP_FILE = "Properties/C38.v"
TRUSTED = ["name-based call closure (qualified `Type::f(` / `module::f(` / bare `f(` calls; method-call syntax and dynamic dispatch are not followed: "
           "the handlers reached through `dyn AssetIO` are linked by hand in Model/Process.v)",
           "footprints of the context-API operations in Model/Process.v are transcribed by reading, tied by the writer/reader closures only",
           "process state outside the SDK (allocator, OS, files, clocks, random UUIDs) is not modelled: covered by the run, modulo normalisation"]
ASSUMPTIONS = ["single thread per history (thread-local settings are per thread)", "no network"]

MUT_WORDS = {"RefCell", "Cell", "Mutex", "RwLock", "OnceLock", "OnceCell", "LazyLock", "Lazy", "Once", "UnsafeCell"}


def impl_type(hdr):
    h = hdr.split(" for ")[-1] if " for " in " " + hdr + " " else hdr
    toks = h.split()
    if toks and toks[0] == "<":
        d = 0
        for i, t in enumerate(toks):
            if t == "<":
                d += 1
            elif t == ">":
                d -= 1
                if d == 0:
                    break
        toks = toks[i + 1:]
    for t in toks:
        if re.fullmatch(r"[A-Z]\w*", t):
            return t
    return toks[0] if toks else "?"


def kind_of(ty_toks, is_mut, macro):
    words = set(ty_toks)
    if macro == "thread_local":
        return "tls_mut" if words & {"RefCell", "Cell", "Mutex", "RwLock"} else "tls_const"
    if macro == "lazy_static":
        return "lazy_mut" if words & {"RefCell", "Cell", "Mutex", "RwLock"} or any(w.startswith("Atomic") for w in words) else "lazy"
    if is_mut:
        return "mut"
    if words & {"Mutex", "RwLock", "RefCell", "Cell", "UnsafeCell"} or any(w.startswith("Atomic") for w in words):
        return "mut"
    if words & {"LazyLock", "Lazy"}:
        return "lazy"
    if words & {"OnceLock", "OnceCell", "Once"}:
        return "once"
    return "const"


def scan():
    """returns dict(cells, nconst, files, fns)"""
    cells, nconst = [], 0
    files, fns = {}, []
    for rel, p in rs_files():
        if is_test_path(rel):
            continue
        toks = non_test_tokens(open(p, encoding="utf-8", errors="replace").read())
        files[rel] = toks
        fr, ir = fn_ranges(toks), impl_ranges(toks)
        for name, s, e in fr:
            im = [f for f in ir if f[1] < s < f[2]]
            fns.append((rel, impl_type(max(im, key=lambda f: f[1])[0]) if im else "", name, s, e))
        # macro blocks
        macro_spans = []
        for i in range(len(toks) - 2):
            if toks[i][1] in ("thread_local", "lazy_static") and toks[i + 1][1] == "!" and toks[i + 2][1] in ("{", "("):
                macro_spans.append((toks[i][1], i + 2, close_of(toks, i + 2)))
        for i in range(len(toks) - 3):
            if toks[i][1] != "static" or toks[i][0] != "id":
                continue
            if i > 0 and toks[i - 1][1] in ("'", "&") or toks[i + 1][1] in (">", ",", ")", "+", ";", "{", "|") or toks[i - 1][0] == "life":
                continue                                  # 'static lifetime spelled as tokens never reaches here (lexed as life)
            j = i + 1
            is_mut = False
            if toks[j][1] in ("mut", "ref"):
                is_mut = toks[j][1] == "mut"
                j += 1
            if toks[j][0] != "id" or toks[j + 1][1] != ":":
                if toks[j][1] in ("fn", "move", "async") or toks[j][1] == "|":
                    continue                              # `static fn`-like closures do not exist; defensive
                raise TieBroken(f"c38 translator: cannot parse the static item at {rel} offset {toks[i][2]} (`{' '.join(t[1] for t in toks[i:i + 6])}`)")
            name = toks[j][1]
            k = j + 2
            ty = []
            while k < len(toks) and toks[k][1] not in ("=", ";"):
                if toks[k][1] in ("(", "["):
                    e = close_of(toks, k)
                    ty += [t[1] for t in toks[k:e + 1]]
                    k = e + 1
                else:
                    ty.append(toks[k][1])
                    k += 1
            macro = next((m for m, s, e in macro_spans if s < i < e), None)
            kind = kind_of(ty, is_mut, macro)
            enc = [f for f in fr if f[1] < i < f[2]]
            where = max(enc, key=lambda f: f[1])[0] if enc else ""
            if kind == "const":
                nconst += 1
            else:
                # initialiser text: from '=' to the ';' that ends the item
                init = []
                if k < len(toks) and toks[k][1] == "=":
                    m = k + 1
                    while m < len(toks) and toks[m][1] != ";":
                        if toks[m][1] in ("(", "[", "{"):
                            e2 = close_of(toks, m)
                            init += [t[1] for t in toks[m:e2 + 1]]
                            m = e2 + 1
                        else:
                            init.append(toks[m][1])
                            m += 1
                cells.append({"name": name, "file": rel, "fn": where, "kind": kind, "type": " ".join(ty)[:80], "init": init})
    return {"cells": cells, "nconst": nconst, "files": files, "fns": fns}


def calls_in(toks, s, e, ty):
    out = set()
    for i in range(s, e):
        t = toks[i]
        if t[0] != "id":
            continue
        nxt = toks[i + 1][1] if i + 1 < e else ""
        is_call = nxt == "(" or (nxt == "::" and i + 2 < e and toks[i + 2][1] == "<")
        if not is_call:
            out.add(("#", t[1]))                      # plain mention (a cell name)
            continue
        if i >= 2 and toks[i - 1][1] == "::" and toks[i - 2][0] == "id":
            q = toks[i - 2][1]
            q = ty if q == "Self" else q
            out.add((q if re.match(r"[A-Z]", q) else "", t[1]))
        elif i >= 1 and toks[i - 1][1] == ".":
            out.add((".", t[1]))
        else:
            out.add(("", t[1]))
    return out


def closure(sc, cell, write_methods=("set", "replace", "take", "with_borrow_mut", "swap")):
    """(direct writers, direct readers, writer closure, callers of accessors, callers of those) of a cell, as sorted 'Type::fn' strings"""
    files, fns = sc["files"], sc["fns"]
    direct_w, direct_r = set(), set()
    calls = {}
    for rel, ty, name, s, e in fns:
        toks = files[rel]
        cs = calls_in(toks, s, e, ty)
        calls[(rel, ty, name, s)] = cs
        for i in range(s, e):
            if toks[i][1] == cell and toks[i][0] == "id":
                m = toks[i + 2][1] if toks[i + 1][1] == "." else ""
                (direct_w if m in write_methods else direct_r).add((ty, name))
    def callers(targets, only_types=None):
        out = set()
        for (rel, ty, name, s), cs in calls.items():
            for q, f in cs:
                if q in (".", "#"):
                    continue
                if (q, f) in targets and (only_types is None or q in only_types or q == ""):
                    out.add((ty, name))
        return out

    def close(seed):
        t = set(seed)
        while True:
            new = callers(t) - t
            if not new:
                return t
            t |= new
    fmt = lambda st: sorted((a + "::" + b) if a else b for a, b in st)
    readers = direct_r - direct_w
    lvl1 = callers(readers | direct_w) - readers - direct_w
    # second level only through types whose name is unambiguous inside the SDK (tempfile::Builder collides with Builder)
    lvl2 = callers(lvl1, only_types=UNAMBIGUOUS) - lvl1 - readers - direct_w
    return fmt(direct_w), fmt(readers), fmt(close(direct_w)), fmt(lvl1), fmt(lvl2)


UNAMBIGUOUS = {"Store", "Ingredient", "Reader", "Settings", "SignerSettings"}


def facts(ctx):
    sc = scan()
    cells = sc["cells"]
    mut = [c for c in cells if c["kind"] in ("tls_mut", "mut", "lazy_mut")]
    lines = ["(* generated by vlib/props/c38.py from /repo/sdk/src on every run — do not edit *)",
             "From Coq Require Import List String.", "Import ListNotations.", "Open Scope string_scope.", "",
             "(* every process-global cell that is not a plain immutable static: (name, file, enclosing fn, kind) *)",
             "Definition cells : list (string * string * string * string) := ["]
    lines.append(";\n".join(f"  ({coq_str(c['name'])}, {coq_str(c['file'])}, {coq_str(c['fn'])}, {coq_str(c['kind'])})" for c in cells))
    lines.append("].")
    lines.append(f"Definition const_static_count : nat := {sc['nconst']}.")
    cl = {}
    for c in mut:
        dw, dr, wc, l1, l2 = closure(sc, c["name"])
        cl[c["name"]] = {"direct_writers": dw, "direct_readers": dr, "writer_closure": wc, "callers_1": l1, "callers_2": l2}
        n = c["name"]
        for key, val in (("direct_writers", dw), ("direct_readers", dr), ("writer_closure", wc), ("callers_1", l1), ("callers_2", l2)):
            lines.append(f"Definition {n}_{key} : list string := [" + "; ".join(coq_str(x) for x in val) + "].")
    # initialisers of lazy / write-once cells must be closed expressions: no mention of a mutable cell or of its accessors
    taboo = set(c["name"] for c in mut) | {"get_thread_local_settings", "get_thread_local_value", "set_thread_local_value", "env"}
    impure = []
    for c in cells:
        if c["kind"] in ("lazy", "once"):
            text = list(c["init"])
            if c["kind"] == "once":             # initialised at the get_or_init sites
                for rel2, ty2, name2, s2, e2 in sc["fns"]:
                    tk = sc["files"][rel2]
                    if rel2 == c["file"] and any(tk[i][1] == c["name"] for i in range(s2, e2)):
                        text += [x[1] for x in tk[s2:e2]]
            if taboo & set(text):
                impure.append(c["name"])
    lines.append("Definition impure_initialisers : list string := [" + "; ".join(coq_str(x) for x in impure) + "].")
    common.write_if_changed(os.path.join(common.COQ, "Generated", "C38_facts.v"), "\n".join(lines) + "\n")
    ctx.facts = {"cells": cells, "nconst": sc["nconst"], "closures": cl}


# ------------------------------------------------------------------ differential run

LEGACY = [{"core": {"max_decompressed_manifest_size_in_mb": 0}}, {"verify": {"verify_trust": False}},
          {"verify": {"verify_after_reading": False}}, {"builder": {"thumbnail": {"enabled": False}}},
          {"trust": {"trust_anchors": "", "user_anchors": ""}}, {"verify": {"strict_v1_validation": True}},
          {"core": {"prefer_compress_manifests": True}}, {"builder": {"prefer_box_hash": True}}]
CTX_SETTINGS = [None, None, None, {"verify": {"verify_trust": False}}, {"builder": {"thumbnail": {"enabled": False}}},
                {"core": {"prefer_compress_manifests": True}}, {"verify": {"verify_after_sign": False}},
                {"builder": {"prefer_box_hash": True}}]


def gen_history(rng, quick, with_legacy):
    srcs = [s for s in c40.SOURCES if s[2] == 0 and s[0] != "basic.pdf"] + [("video1_no_manifest.mp4", "video/mp4", 1), ("sample1.wav", "audio/wav", 1)]
    ops, nassets = [], 0
    n = rng.randrange(4, 8 if quick else 14)
    for i in range(n):
        r = rng.random()
        st = rng.choice(CTX_SETTINGS)
        if with_legacy and r < 0.22:
            ops.append({"op": "legacy_settings", "json": rng.choice(LEGACY)})
            continue
        if i == 0 or r < 0.45:
            fx, fmt, _ = rng.choice(srcs)
            ops.append({"op": "sign", "fixture": fx, "format": fmt, "alg": rng.choice(["ed25519", "es256", "ps256"]), "def": c40.gen_def(rng), "settings": st})
            nassets += 1
        elif r < 0.62:
            fx, fmt, _ = rng.choice(srcs)
            ing = {"slot": rng.randrange(nassets)} if nassets and rng.random() < 0.6 else dict(zip(("fixture", "format"), rng.choice(c40.SIGNED[:10])))
            ops.append({"op": rng.choice(["ingredient", "ingredient", "archive"]), "fixture": fx, "format": fmt, "alg": "ed25519", "def": c40.gen_def(rng),
                        "settings": st, "ing": ing, "relationship": rng.choice(["parentOf", "componentOf"])})
            nassets += 1
        else:
            src = {"slot": rng.randrange(nassets)} if nassets and rng.random() < 0.6 else dict(zip(("fixture", "format"), rng.choice(c40.SIGNED)))
            op = {"op": "read", "src": src, "settings": st}
            if rng.random() < 0.3:
                op["tamper"] = [[rng.randrange(0, 300000), 1 << rng.randrange(8)]]
            ops.append(op)
    return {"mode": "history", "ops": ops, "final_settings": rng.choice([None, None, {"verify": {"verify_trust": False}}]), "legacy": with_legacy}


def trust_family():
    """Contexts that differ from a base in exactly one trust setting (the base trusts the es256 test chain only, so an asset
    signed with the ed25519 test certificate is acceptable only through the allowed list / user anchors)"""
    certs = os.path.join(common.REPO, "sdk", "tests", "fixtures", "certs")
    es256 = open(os.path.join(certs, "es256.pub")).read()
    ed = open(os.path.join(certs, "ed25519.pub")).read()
    ps = open(os.path.join(certs, "ps256.pub")).read()
    base = {"trust": {"trust_anchors": es256}}
    fam = {"base": base,
           "allowed_list": {"trust": {"trust_anchors": es256, "allowed_list": ed}},
           "allowed_list_other": {"trust": {"trust_anchors": es256, "allowed_list": ps}},
           "user_anchors": {"trust": {"trust_anchors": es256, "user_anchors": ed}},
           "trust_config": {"trust": {"trust_anchors": es256, "trust_config": "1.3.6.1.5.5.7.3.36"}},
           "verify_trust": {"trust": {"trust_anchors": es256}, "verify": {"verify_trust": False}},
           "anchors_all": None}
    return fam


def gen_trust_history(rng, quick):
    """the same asset read under Contexts that differ in one trust setting, in a seeded order with repeats"""
    fam = trust_family()
    names = list(fam)
    good = {"title": "trust", "claim_generator_info": [{"name": "verif-harness", "version": "0.1"}],
            "assertions": [{"label": "c2pa.actions", "data": {"actions": [{"action": "c2pa.created", "digitalSourceType": c40.DST}]}}]}
    ops = [{"op": "sign", "fixture": "earth_apollo17.jpg", "format": "image/jpeg", "alg": "ed25519", "def": good, "settings": None}]
    order = ["base"] + [rng.choice(names) for _ in range(5 if quick else 9)]
    # every single-setting variant is preceded and followed by the base somewhere
    v = rng.choice(names[1:6])
    order += [v, "base", v]
    rng.shuffle(order)
    for n in order:
        src = {"slot": 0} if rng.random() < 0.8 else {"fixture": "CA.jpg", "format": "image/jpeg"}
        ops.append({"op": "read", "src": src, "settings": fam[n], "variant": n})
    return {"mode": "history", "ops": ops, "final_settings": fam[rng.choice(names)], "legacy": False, "trust": True}


def corpus():
    p = os.path.join(common.VERIF, "corpus", "C38.jsonl")
    if not os.path.exists(p):
        return []
    return [json.loads(l) for l in open(p) if l.strip()]


def fresh_read(path, fmt, settings):
    """one harness process per read: the fresh-process reference"""
    os.makedirs(common.CASES, exist_ok=True)
    cf = path + ".case.jsonl"
    with open(cf, "w") as f:
        f.write(json.dumps({"id": 0, "mode": "fresh", "path": path, "format": fmt, "settings": settings}) + "\n")
    return subprocess.Popen([common.HARNESS_BIN, "c38", cf], stdout=subprocess.PIPE, stderr=subprocess.PIPE, text=True)


def evaluate(ctx, cases):
    import shutil
    root = os.path.join(common.CASES, "c38_assets")
    shutil.rmtree(root, ignore_errors=True)
    for c in cases:
        c["dir"] = os.path.join(root, str(c["id"]))
    res = c40.run_sharded("c38", cases, shards=14)
    stats = {"histories": len(cases), "with_legacy_settings": sum(1 for c in cases if c.get("legacy")), "ops": {}, "assets": 0, "fresh_reads": 0,
             "resign_checks": 0, "final_states": {}, "op_outcomes": {}}
    distinct = set()
    pending = []
    for c in cases:
        r = res[c["id"]]
        for o in c["ops"]:
            stats["ops"][o["op"]] = stats["ops"].get(o["op"], 0) + 1
        if r["r"] in ("panic", "crash"):
            ctx.report_violation(c, f"history died: {r.get('msg')}")
            continue
        for t in r.get("trace", []):
            k = f"{t['op']}:{t.get('out', t.get('ok'))}"
            stats["op_outcomes"][k] = stats["op_outcomes"].get(k, 0) + 1
        for a in r["assets"]:
            stats["assets"] += 1
            st = a["final"].get("state") or a["final"].get("err")
            stats["final_states"][st] = stats["final_states"].get(st, 0) + 1
            distinct.add((c["id"], a["slot"]))
            # ---- oracle 1: the same bytes read right after creation and at the end of the history give the same report
            if a["first"] != a["final"]:
                ctx.report_violation(c, f"asset {a['slot']} read twice in one process gives different reports: {c40.first_diff(a['first'], a['final'])}")
            pending.append((c, a, fresh_read(a["path"], a["format"], c.get("final_settings"))))
        for rd in r.get("reads", []):
            # ---- oracle 1b: a read inside the history (any Context) equals the same read in a fresh process
            stats["history_reads"] = stats.get("history_reads", 0) + 1
            distinct.add((c["id"], rd["path"]))
            pending.append((c, {"slot": rd["path"].rsplit("/", 1)[-1], "final": rd["report"]}, fresh_read(rd["path"], rd["format"], rd["settings"])))
        rs = r.get("resign")
        if rs:
            stats["resign_checks"] += 1
            # ---- oracle 3: signing does not depend on what happened before: the first signing operation, repeated at the end
            if rs["first"] != rs["again"]:
                ctx.report_violation(c, f"the first signing operation repeated at the end of the history gives a different result: {c40.first_diff(rs['first'], rs['again'])}")
        if len(pending) >= 28:
            drain(ctx, pending, stats)
    drain(ctx, pending, stats)
    shutil.rmtree(root, ignore_errors=True)
    return stats, len(distinct)


def drain(ctx, pending, stats):
    for c, a, p in pending:
        so, se = p.communicate(timeout=900)
        try:
            fr = json.loads(so.splitlines()[0])
        except Exception:
            raise TieBroken(f"c38: fresh-process read failed: {se[-300:]}")
        stats["fresh_reads"] += 1
        # ---- oracle 2: the read at the end of the history equals the read in a fresh process
        if fr.get("json") != a["final"]:
            ctx.report_violation(c, f"{a['slot']}: report inside / after the history differs from the report of a fresh process with the same settings: "
                                    f"{c40.first_diff(fr.get('json'), a['final'])}")
    pending.clear()


def run(ctx):
    if not getattr(ctx, "no_build", False):
        common.build_harness()
    if ctx.replay:
        cases = [ctx.replay["case"]] if "case" in ctx.replay and "ops" in ctx.replay["case"] else []
    else:
        cases = corpus()
        n = 6 if ctx.quick() else 60
        cases += [gen_history(ctx.rng, ctx.quick(), with_legacy=(i % 3 == 2)) for i in range(n)]
        cases += [gen_trust_history(ctx.rng, ctx.quick()) for _ in range(3 if ctx.quick() else 20)]
    for i, c in enumerate(cases):
        c["id"] = i
    stats, distinct = evaluate(ctx, cases) if cases else ({}, 0)
    f = getattr(ctx, "facts", None) or {}
    ctx.coverage.update({
        "evaluations": stats.get("assets", 0) + stats.get("fresh_reads", 0) + stats.get("history_reads", 0) + stats.get("resign_checks", 0) + sum(stats.get("ops", {}).values()),
        "distinct_nontrivial": distinct,
        "rule": "a case is a seeded history of 4..13 operations (sign / ingredient / archive / read, one third of the histories also call the deprecated "
                "thread-local Settings::from_string) run in one process; evaluations = operations + end-of-history re-reads + fresh-process reads + "
                "repeated first signings; plus histories that read one asset under Contexts differing in exactly one trust setting (allowed_list, user_anchors, "
                "trust_config, verify_trust), every read of every history being repeated in a fresh process; non-trivial = an asset was produced and re-read, or a read was repeated; distinct by (history, asset or read)",
        "distribution": stats,
        "cells": [f"{c['name']} [{c['kind']}] {c['file']}" for c in f.get("cells", [])], "const_statics": f.get("nconst"),
        "tls_closures": f.get("closures"),
        "samples": [{"ops": [o["op"] for o in c["ops"]], "legacy": c.get("legacy")} for c in cases[:3]],
    })


def search(ctx):
    common.build_harness()
    cases = [gen_history(ctx.rng, True, with_legacy=(i % 2 == 0)) for i in range(8)] + [gen_trust_history(ctx.rng, True) for _ in range(6)]
    for i, c in enumerate(cases):
        c["id"] = i
    stats, distinct = evaluate(ctx, cases)
    ctx.coverage["search_evaluations"] = stats.get("assets", 0)
