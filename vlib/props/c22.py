"""C22 — saving and restoring a working store preserves the manifest."""
import copy, json, os, re
from .. import common, e2egen as G
from ..common import TieBroken, coq_list
from . import c03

PROP_FILE = "Properties/C22.v"
TRUSTED = ["record model of Builder state / archive / report; JUMBF + CBOR serialisation of the working store, the ephemeral "
           "archive signature and resource resolution through the archive store are exercised by the differential run only",
           "the assertion order / created attribution of reports is the one proved for the model of Manifest::from_store in C03"]
ASSUMPTIONS = ["archives written and read by the same SDK build (JUMBF working-store format, builder.generate_c2pa_archive unset)",
               "builder options that are not manifest content (remote_url, no_embed, intent, hash_alg) are re-applied by the caller"]


def facts(ctx):
    t = common.strip_tests(common.src("sdk/src/builder.rs"))
    ws = common.fn_body(t, r"fn\s+working_store_sign\s*\(", "Builder::working_store_sign")
    if not re.search(r"ArchiveKind::Builder\s*=>\s*self\.to_claim\(\)\?", ws):
        raise TieBroken("srcfacts: working_store_sign no longer builds the archive claim with to_claim()")
    if "claim.add_created_assertion(&archive_metadata)?" not in ws or "claim.add_assertion(&box_hash)?" not in ws:
        raise TieBroken("srcfacts: working_store_sign no longer adds archive metadata + box hash after to_claim")
    wa = common.fn_body(t, r"pub\s+fn\s+with_archive\s*\(", "Builder::with_archive")
    if "reader.into_builder()" not in wa:
        raise TieBroken("srcfacts: with_archive no longer restores through Reader::into_builder")
    rd = common.strip_tests(common.src("sdk/src/reader.rs"))
    ib = common.fn_body(rd, r"pub\s+fn\s+into_builder\s*\(", "Reader::into_builder")
    need = ["builder.definition.claim_generator_info", "builder.definition.title = manifest.title()", "builder.definition.thumbnail = manifest.thumbnail_ref()",
            "builder.definition.redactions = manifest.redactions.take()", "builder.add_ingredient(ingredient)", "labels::ARCHIVE_METADATA",
            "assertion.created()", "builder.definition.label = Some(label.to_string())",
            "builder.resources.chain_resolver_from(manifest.resources())"]      # fix 39e7c1520
    for n in need:
        if n not in ib:
            raise TieBroken("srcfacts: Reader::into_builder no longer contains `%s`" % n)
    ctx.facts = {"into_builder_fields": len(need)}


# ------------------------------------------------------------------ normalisation (instance ids, label UUIDs, timestamps)

URN = re.compile(r"(?:[A-Za-z0-9_.-]+:)?urn:(?:uuid|c2pa):[0-9a-fA-F-]{36}(?::[A-Za-z0-9_.-]+)*")


def scrub(v, active):
    if isinstance(v, str):
        return v.replace(active, "<ACTIVE>") if active else v
    if isinstance(v, list):
        return [scrub(x, active) for x in v]
    if isinstance(v, dict):
        return {k: scrub(x, active) for k, x in v.items() if k not in ("instance_id", "instanceID", "time", "hash")}
    return v


def codes(vr):
    if not vr:
        return None
    out = {}
    am = vr.get("activeManifest") or {}
    for k in ("success", "informational", "failure"):
        out[k] = sorted(x.get("code") for x in am.get(k) or [])
    out["deltas"] = [sorted(y.get("code") for y in ((d.get("validationDeltas") or {}).get("failure") or [])) for d in vr.get("ingredientDeltas") or []]
    return out


def normal(run):
    """normalised report of one sign+read run"""
    v = run["view"]
    act = v["active_manifest"]
    am = v["manifests"][act]
    res = v["verif_resources"].get(act) or {}
    asserts = []
    for a in am.get("assertions") or []:
        if str(a.get("label", "")).startswith("c2pa.hash."):
            continue
        data = a.get("data")
        if a.get("label") == "c2pa.actions.v2":
            data = {"actions": [{k: x for k, x in act_.items() if k != "parameters"} | {"n_ingredients": len(((act_.get("parameters") or {}).get("ingredients")) or [])}
                                for act_ in (data or {}).get("actions", [])]}
        asserts.append({"label": a.get("label"), "kind": a.get("kind", "Cbor"), "created": bool(a.get("created")), "data": scrub(data, act)})
    ings = []
    for k, g in enumerate(am.get("ingredients") or []):
        r = (res.get("ingredients") or [{}] * 99)[k] if k < len(res.get("ingredients") or []) else {}
        ings.append({"title": g.get("title"), "format": g.get("format"), "relationship": g.get("relationship"),
                     "active_manifest": g.get("active_manifest"), "validation_results": codes(g.get("validation_results")),
                     "validation_status": sorted(x.get("code") for x in g.get("validation_status") or []),
                     "manifest_data": r.get("manifest_data"), "thumbnail": (r.get("thumbnail") or {}).get("data"),
                     "thumbnail_format": (r.get("thumbnail") or {}).get("format"), "label": g.get("label")})
    gi = [{k: x for k, x in g.items()} for g in am.get("claim_generator_info") or []]
    return {"state": run["report"]["state"], "failure": run["report"]["failure"], "title": am.get("title"), "format": am.get("format"),
            "claim_generator_info": gi, "claim_version": am.get("claim_version"),
            "assertions": asserts, "ingredients": ings, "thumbnail": res.get("thumbnail"), "redactions": am.get("redactions"),
            "other_manifests": sorted(k for k in v["manifests"] if k != act)}


def diff(a, b):
    out = []
    for k in a:
        if k == "assertions":
            ka = sorted(json.dumps(x, sort_keys=True) for x in a[k])
            kb = sorted(json.dumps(x, sort_keys=True) for x in b[k])
            if ka != kb:
                onlya = [x for x in ka if x not in kb]
                onlyb = [x for x in kb if x not in ka]
                out.append("assertions differ: only in sign(b): %s; only in sign(restore(save b)): %s" % ("; ".join(s[:140] for s in onlya[:2]), "; ".join(s[:140] for s in onlyb[:2])))
        elif json.dumps(a[k], sort_keys=True) != json.dumps(b[k], sort_keys=True):
            out.append("%s differs: %s vs %s" % (k, json.dumps(a[k], sort_keys=True)[:160], json.dumps(b[k], sort_keys=True)[:160]))
    return out


# ------------------------------------------------------------------ generation

# signed ingredients: current-SDK manifests (C.jpg, CA.jpg) and manifests whose own ingredients are referenced by legacy
# c2pa.ingredient / .v2 assertions (CIE-sig-CA.jpg, legacy_ingredient_hash.jpg, CACAE-uri-CA.jpg): their nested manifests must
# survive the flattening that a restored builder uses to rebuild the ingredient's manifest data
SIGNED_INGREDIENTS = [{"fixture": f, "fmt": "image/jpeg"} for f in ("C.jpg", "CIE-sig-CA.jpg", "CA.jpg", "legacy_ingredient_hash.jpg", "CACAE-uri-CA.jpg", "CACA.jpg")]


def gen_case(rng, srcs, i):
    c = c03.gen_case(rng, srcs, i, SIGNED_INGREDIENTS if len(srcs) > 9 else SIGNED_INGREDIENTS[:4])
    c.pop("want_jumbf", None)
    spec = c["spec"]
    # archives are a v2 workflow here; keep embedded / sidecar modes (remote needs XMP support of the format)
    spec.pop("remote_url", None)
    if rng.random() < 0.85:
        spec.pop("no_embed", None)
    c["meta"]["mode"] = "sidecar" if spec.get("no_embed") else "embedded"
    spec["settings"].pop("core", None)
    c["chain"] = 1 + i % 3
    return c


def corpus():
    p = os.path.join(common.VERIF, "corpus", "C22.jsonl")
    if not os.path.exists(p):
        return []
    return [json.loads(l) for l in open(p) if l.strip()]


def items_of(case):
    out = []
    for idx, a in enumerate(case["spec"]["definition"]["assertions"]):
        out.append("(%s, %s, %s, %d%%nat)" % (G.coq_string(a["label"]), "true" if a.get("kind") == "Json" else "false",
                                              "true" if a.get("created") else "false", idx))
    return coq_list(out)


def model_expr(c):
    spec, meta = c["spec"], c["meta"]
    ings = spec.get("ingredients") or []
    # ingredient thumbnails are generated for image ingredients when builder.thumbnail.enabled (the signed C.jpg brings its own)
    ing_thumbs = bool(meta["thumbs"]) and any(g["src"].get("fmt", "").startswith("image/") for g in ings)
    return "c22_eval %d %d %s %s %d %s" % (c["chain"], meta["version"], items_of(c), "true" if "thumbnail" in spec["definition"] else "false",
                                          len(ings), "true" if ing_thumbs else "false")


def impl_items(run, case):
    if run["r"] != "ok":
        return None
    v = run["view"]
    am = v["manifests"][v["active_manifest"]]
    out = []
    defs = case["spec"]["definition"]["assertions"]
    act_idx = [i for i, a in enumerate(defs) if a["label"].startswith("c2pa.actions")]
    for a in am.get("assertions") or []:
        if str(a.get("label", "")).startswith("c2pa.hash."):
            continue
        if a.get("label") == "c2pa.actions.v2":
            p = act_idx[0] if act_idx else None
        else:
            p = (a.get("data") or {}).get("_i") if isinstance(a.get("data"), dict) else None
        out.append((a.get("label"), a.get("kind") == "Json", bool(a.get("created")), p))
    return out


IMPORTS = ("From Coq Require Import List NArith Bool String.\nFrom C2PA Require Import Model.SignFlow Model.ArchiveRoundTrip.\n"
           "Import ListNotations.\nOpen Scope string_scope.")


def known_class(case):
    """labels outside the theorem's hypothesis: two version components (F-USER-VERSION applied twice)"""
    return any(re.search(r"\.v\d+\.v\d+$", a["label"]) for a in case["spec"]["definition"]["assertions"])


def evaluate(ctx, cases, with_model=True):
    impl = common.run_harness("c22", cases, timeout=3000)
    stats = {"outcome": {}, "chain": {1: 0, 2: 0, 3: 0}, "with_ingredients": 0, "with_signed_ingredient": 0, "with_thumbnail": 0,
             "with_resources": 0, "claim_v1": 0, "archive_sizes": {"min": None, "max": None}, "by_format": {}, "unspecified": {}}
    distinct = set()
    exprs, ecases = [], []
    for c in cases:
        r = impl[c["id"]]
        meta = c["meta"]
        spec = c["spec"]
        stats["chain"][c["chain"]] = stats["chain"].get(c["chain"], 0) + 1
        stats["by_format"][meta["src"]] = stats["by_format"].get(meta["src"], 0) + 1
        ings = spec.get("ingredients") or []
        stats["with_ingredients"] += bool(ings)
        stats["with_signed_ingredient"] += any(g["src"].get("fixture", "").endswith(".jpg") for g in ings)
        stats["with_legacy_ingredient"] = stats.get("with_legacy_ingredient", 0) + any(
            g["src"].get("fixture") in ("CIE-sig-CA.jpg", "legacy_ingredient_hash.jpg", "CACAE-uri-CA.jpg") for g in ings)
        stats["with_thumbnail"] += ("thumbnail" in spec["definition"]) or meta["thumbs"]
        stats["with_resources"] += bool(spec.get("resources"))
        stats["claim_v1"] += meta["version"] == 1
        distinct.add(json.dumps([spec["definition"], c["chain"], meta], sort_keys=True, default=str)[:3000])
        if r["r"] in ("panic", "crash"):
            ctx.report_violation(c, "implementation panicked: %s" % r.get("msg"))
            continue
        b, rr = r["base"], r["restored"]
        key = "%s/%s" % (b["r"], rr["r"])
        stats["outcome"][key] = stats["outcome"].get(key, 0) + 1
        if b["r"] != "ok":
            # signing the original failed: C03's subject; the round trip has nothing to compare with
            if rr["r"] == "ok":
                stats["unspecified"]["original fails, restored signs"] = stats["unspecified"].get("original fails, restored signs", 0) + 1
            continue
        if rr["r"] != "ok":
            mi = dict(c)
            mi["thumbnail_supplied"] = "thumbnail" in spec["definition"]
            mi["n_ingredients"] = len(ings)
            mi["claim_version"] = meta["version"]
            mi["ingredient_thumbnails"] = bool(meta["thumbs"]) and bool(ings)
            ctx.report_violation(c, "sign(b) succeeds but sign(restore^%d(save b)) fails: %s %s %s" % (c["chain"], rr["r"], rr.get("kind"), rr.get("detail", "")[:160]), mi)
            if with_model:
                exprs.append(model_expr(c))
                ecases.append((c, b, rr))
            continue
        for s in rr.get("archives") or []:
            a = stats["archive_sizes"]
            a["min"] = s if a["min"] is None else min(a["min"], s)
            a["max"] = s if a["max"] is None else max(a["max"], s)
        na, nb = normal(b), normal(rr)
        for why in diff(na, nb):
            mi = dict(c)
            mi["double_version_label"] = known_class(c)
            ctx.report_violation(c, "after %d save/restore round(s): %s" % (c["chain"], why), mi)
        if with_model:
            exprs.append(model_expr(c))
            ecases.append((c, b, rr))
    if with_model and exprs:
        res = common.coq_eval("C22", IMPORTS, exprs, shard_size=40)
        for (c, b, rr), mo in zip(ecases, res):
            def conv(o):
                if o == "None":
                    return None
                return [(t[0], t[1] == "true", t[2] == "true", t[3]) for t in o[1]]
            mb, mr = conv(mo[0]), conv(mo[1])
            ib, ir = impl_items(b, c), impl_items(rr, c)
            # the record model assumes C03's known class F-CREATED-SUBSTR away: compare created flags only when the
            # implementation's base report agrees with the supplied flags
            if ib != mb or ir != mr:
                supplied = {i: bool(a.get("created")) for i, a in enumerate(c["spec"]["definition"]["assertions"])}
                misattr = c["meta"]["version"] >= 2 and ib is not None and any(p is not None and supplied.get(p) != cr for _, _, cr, p in ib)
                if misattr:
                    stats["unspecified"]["C03 F-CREATED-SUBSTR in base report"] = stats["unspecified"].get("C03 F-CREATED-SUBSTR in base report", 0) + 1
                    continue
                ctx.disagreements.append({"case": c, "impl": {"base": ib, "restored": ir}, "model": {"base": mb, "restored": mr}})
    return stats, len(distinct)


QUICK_N = 45


def run(ctx):
    if not getattr(ctx, "no_build", False):
        common.build_harness()
    if ctx.replay:
        cases = [ctx.replay["case"]] if "case" in ctx.replay else [d["case"] for d in ctx.replay.get("disagreements", [])]
    else:
        srcs = G.sources(not ctx.quick())
        cases = corpus()
        n = QUICK_N if ctx.quick() else 450
        cases += [gen_case(ctx.rng, srcs, i) for i in range(n)]
    for i, c in enumerate(cases):
        c["id"] = i
    stats, distinct = evaluate(ctx, cases)
    ctx.coverage.update({
        "evaluations": len(cases), "distinct_nontrivial": distinct,
        "rule": "corpus + seeded builders (definitions of C03's generator: labels incl. duplicates/substrings, payload sizes straddling "
                "24/256/65536, supplied thumbnails and resources, auto thumbnails on/off, 0-2 ingredients incl. the signed C.jpg, actions "
                "referring to ingredients) x chains of length 1..3 (round robin) x formats x signing algs; each case signs the original and "
                "the restored builder and compares the normalised reports; distinct by (definition, chain, settings)",
        "distribution": stats,
        "samples": [{"meta": c["meta"], "chain": c["chain"], "labels": [a["label"] for a in c["spec"]["definition"]["assertions"]],
                     "ingredients": [g["json"]["relationship"] for g in c["spec"].get("ingredients") or []]} for c in cases[:4]],
    })


def search(ctx):
    common.build_harness()
    srcs = G.sources(False)
    cases = [gen_case(ctx.rng, srcs, i) for i in range(150)]
    for i, c in enumerate(cases):
        c["id"] = i
    evaluate(ctx, cases, with_model=False)
    ctx.coverage["search_evaluations"] = len(cases)
