"""C39 — ingredients carry their source manifests and validation faithfully."""
import hashlib, json, os, re
from .. import common, e2egen as G
from ..common import TieBroken, coq_list

PROP_FILE = "Properties/C39.v"
TRUSTED = ["manifests are (label, identity of box bytes) in the model; the JUMBF reader and the validator are Section variables "
           "(the ingredient path and a standalone Reader call the same functions); byte identity and equality of recorded results "
           "are established by the differential run",
           "redaction-difference branches of load_ingredient_to_claim and claim v1 are not modelled"]
ASSUMPTIONS = ["test trust anchors; no network (remote manifests not fetched); claim v2 parents; verify.skip_ingredient_conflict_resolution unset"]

CREATED = {"action": "c2pa.created", "digitalSourceType": "http://cv.iptc.org/newscodes/digitalsourcetype/digitalCapture"}
NOTH = {"builder": {"thumbnail": {"enabled": False}}}


def facts(ctx):
    st = common.strip_tests(common.src("sdk/src/store.rs"))
    body = common.fn_body(st, r"pub\s+fn\s+load_ingredient_to_claim\s*\(", "Store::load_ingredient_to_claim")
    need = ["if c.label() == i_claim.label()", "!vec_compare(", "Some(last_conflict_version) => last_conflict_version + 1",
            '"ingredient label malformed"', "new_mp.reason = Some(CONFLICTING_MANIFEST)", "fixup_claim.set_conflict_label(new_label.clone())",
            "let claims_to_add: Vec<Claim> = i_store_mut.claims().into_iter().cloned().collect();"]
    for n in need:
        if n not in body:
            raise TieBroken("srcfacts: load_ingredient_to_claim no longer contains `%s`" % n)
    m = common.fact(r"const\s+CONFLICTING_MANIFEST\s*:\s*usize\s*=\s*(\d+)\s*;", body, "CONFLICTING_MANIFEST")
    if int(m.group(1)) != 1:
        raise TieBroken("srcfacts: CONFLICTING_MANIFEST is no longer 1")
    cl = common.strip_tests(common.src("sdk/src/claim.rs"))
    ri = common.fn_body(cl, r"fn\s+replace_ingredient_or_insert\s*\(", "Claim::replace_ingredient_or_insert")
    if "self.ingredients_store.contains_key(&label)" not in ri or "self.insert_ingredient(label, claim)" not in ri:
        raise TieBroken("srcfacts: replace_ingredient_or_insert changed")
    ing = common.strip_tests(common.src("sdk/src/ingredient.rs"))
    uv = common.fn_body(ing, r"fn\s+update_validation_status\s*\(", "Ingredient::update_validation_status")
    for n in ["ValidationResults::from_store(&store, validation_log)", "self.active_manifest = Some(claim.label().to_string())",
              "self.set_manifest_data(bytes)?", "self.validation_results = Some(validation_results)", "Err(Error::JumbfNotFound)"]:
        if n not in uv:
            raise TieBroken("srcfacts: update_validation_status no longer contains `%s`" % n)
    ctx.facts = {"anchors": len(need) + 7}


# ------------------------------------------------------------------ generation

TAMPER_POS = {"image/jpeg": -40, "image/png": -20, "image/gif": -3, "audio/wav": 50, "image/tiff": 9, "video/mp4": -5,
              "image/svg+xml": 300, "audio/mpeg": -10, "image/webp": 40}
UUIDS = ["11111111-2222-4333-8444-555555555555", "aaaaaaaa-bbbb-4ccc-9ddd-eeeeeeeeeeee"]


def signed_src(rng, srcs, title, depth=0, label=None, force=None):
    key = force or rng.choice(sorted(srcs))
    mime, src = srcs[key]
    d = {"title": title, "claim_generator_info": [{"name": "verif-ing"}], "assertions": [{"label": "c2pa.actions", "data": {"actions": [dict(CREATED)]}}]}
    if label:
        d["label"] = label
    if rng.random() < 0.5:
        d["assertions"].append({"label": "org.verif.note", "data": {"n": rng.randrange(1000), "t": title}})
    spec = {"src": src, "alg": rng.choice(G.ALGS), "settings": NOTH, "definition": d}
    if depth > 0:
        inner = signed_src(rng, srcs, title + "<", depth - 1)
        spec["ingredients"] = [{"json": {"title": "inner of " + title, "relationship": "componentOf"}, "src": inner[0]}]
    return {"sign": spec}, mime


def gen_ingredient(rng, srcs, j, kind, fixtures):
    title = "ing%d %s" % (j, G.gen_string(rng, 3))
    if kind == "unsigned":
        key = rng.choice(sorted(srcs))
        mime, src = srcs[key]
        return src, mime, "unsigned"
    if kind == "fixture":
        f = rng.choice(fixtures)
        return {"fixture": f, "fmt": "image/jpeg"}, "image/jpeg", "signed-fixture"
    if kind == "tampered-fixture":
        return {"tamper": {"fixture": "C.jpg", "fmt": "image/jpeg"}, "pos": rng.choice([-40, -400, -3000])}, "image/jpeg", "tampered"
    if kind == "chain":
        s, mime = signed_src(rng, srcs, title, depth=rng.choice([1, 2]))
        return s, mime, "chain"
    s, mime = signed_src(rng, srcs, title)
    if kind == "tampered":
        return {"tamper": s, "pos": TAMPER_POS.get(mime, -3)}, mime, "tampered"
    return s, mime, "signed"


def gen_case(rng, srcs, i, thorough):
    fixtures = ["C.jpg", "CA.jpg"] + (["CACA.jpg", "XCA.jpg"] if thorough else [])
    pkey = rng.choice(sorted(srcs))
    pmime, psrc = srcs[pkey]
    n = rng.choice([1, 1, 2, 2, 3])
    ings, kinds = [], []
    have_parent = False
    r = rng.random()
    special = None
    if r < 0.08:
        special = "same-twice"
    elif r < 0.14:
        special = "label-conflict"
    for j in range(n):
        kind = rng.choice(["signed", "signed", "tampered", "unsigned", "fixture", "chain", "tampered-fixture"])
        src, mime, k = gen_ingredient(rng, srcs, j, kind, fixtures)
        rel = rng.choice(["componentOf", "inputTo", "parentOf"])
        if rel == "parentOf" and have_parent:
            rel = "inputTo"
        have_parent |= rel == "parentOf"
        ings.append({"json": {"title": "I%d" % j, "relationship": rel, "label": "ing%d" % j}, "src": src})
        kinds.append(k)
    if special == "same-twice":
        ings.append({"json": {"title": "I-again", "relationship": "inputTo", "label": "ing%d" % len(ings)}, "src": ings[0]["src"]})
        kinds.append(kinds[0] + "-again")
    if special == "label-conflict":
        lab = "urn:c2pa:" + rng.choice(UUIDS)
        a, am = signed_src(rng, srcs, "conflict A", label=lab, force="png")
        b, bm = signed_src(rng, srcs, "conflict B", label=lab, force="gif")
        ings = [{"json": {"title": "CA", "relationship": "componentOf", "label": "ing0"}, "src": a},
                {"json": {"title": "CB", "relationship": "componentOf", "label": "ing1"}, "src": b}]
        kinds = ["signed", "signed-conflict"]
    acts = []
    par = [g for g in ings if g["json"]["relationship"] == "parentOf"]
    acts.append({"action": "c2pa.opened", "parameters": {"ingredientIds": [par[0]["json"]["label"]]}} if par else dict(CREATED))
    for g in ings:
        if g["json"]["relationship"] == "componentOf":
            acts.append({"action": "c2pa.placed", "parameters": {"ingredientIds": [g["json"]["label"]]}})
    d = {"title": "parent %d" % i, "claim_generator_info": [{"name": "verif-parent"}], "assertions": [{"label": "c2pa.actions", "data": {"actions": acts}}]}
    spec = {"src": psrc, "alg": G.ALGS[i % 7], "settings": NOTH, "definition": d, "ingredients": ings}
    return {"spec": spec, "meta": {"parent": pkey, "kinds": kinds, "special": special, "relationships": [g["json"]["relationship"] for g in ings]}}


def corpus():
    p = os.path.join(common.VERIF, "corpus", "C39.jsonl")
    if not os.path.exists(p):
        return []
    return [json.loads(l) for l in open(p) if l.strip()]


# ------------------------------------------------------------------ oracle

def code_set(lst):
    return sorted((x.get("code"), x.get("url")) for x in lst or [])


def results_view(vr):
    if not vr:
        return None
    am = vr.get("activeManifest") or {}
    return {"success": code_set(am.get("success")), "informational": code_set(am.get("informational")), "failure": code_set(am.get("failure")),
            "deltas": [(d.get("ingredientAssertionURI"), code_set((d.get("validationDeltas") or {}).get("failure")),
                        code_set((d.get("validationDeltas") or {}).get("success"))) for d in vr.get("ingredientDeltas") or []]}


def state_of(rv):
    if rv is None:
        return None
    fails = [c for c, _ in rv["failure"]] + [c for d in rv["deltas"] for c, _ in d[1]]
    if fails:
        return "Invalid"
    if any(c == "signingCredential.trusted" for c, _ in rv["success"]):
        return "Trusted"
    return "Valid"


def evaluate(ctx, cases, with_model=True):
    impl = common.run_harness("c39", cases, timeout=3000)
    stats = {"parent_outcome": {}, "ingredient_kinds": {}, "relationships": {}, "standalone_states": {}, "manifests_compared": 0,
             "ingredients_checked": 0, "parent_formats": {}, "unspecified": {}, "special": {}}
    distinct = set()
    exprs, ecases = [], []
    for c in cases:
        r = impl[c["id"]]
        meta = c["meta"]
        for k in meta["kinds"]:
            stats["ingredient_kinds"][k] = stats["ingredient_kinds"].get(k, 0) + 1
        for k in meta["relationships"]:
            stats["relationships"][k] = stats["relationships"].get(k, 0) + 1
        stats["parent_formats"][meta["parent"]] = stats["parent_formats"].get(meta["parent"], 0) + 1
        if meta.get("special"):
            stats["special"][meta["special"]] = stats["special"].get(meta["special"], 0) + 1
        distinct.add(json.dumps([meta, [g["json"] for g in c["spec"]["ingredients"]]], sort_keys=True)[:2000] + str(c["id"] if meta["kinds"] else ""))
        if r["r"] in ("panic", "crash"):
            ctx.report_violation(c, "implementation panicked: %s" % r.get("msg"))
            continue
        alone = r["standalone"]
        p = r["parent"]
        stats["parent_outcome"][p["r"]] = stats["parent_outcome"].get(p["r"], 0) + 1
        if any(s["r"] == "bad_source" for s in alone):
            ctx.report_violation(c, "an ingredient asset could not be produced: %s" % [s.get("detail") for s in alone if s["r"] == "bad_source"][:1])
            continue
        # ingredient stores (label -> bytes), standalone
        istores = []
        for s in alone:
            if s.get("jumbf"):
                try:
                    istores.append(G.store_manifests(bytes.fromhex(s["jumbf"])))
                except Exception:
                    istores.append(None)
            else:
                istores.append(None)
        # is there a label conflict between the ingredients (same label, different bytes)?
        seen, conflict = {}, False
        for st in istores:
            for lab, b in (st or {}).items():
                if lab in seen and seen[lab] != b:
                    conflict = True
                seen.setdefault(lab, b)
        if with_model and all(s["r"] in ("ok", "none") or s.get("jumbf") for s in alone):
            labs, blobs = {}, {}
            def lid(l):
                return labs.setdefault(l, len(labs) + 1)
            def bid(b):
                return blobs.setdefault(hashlib.sha256(b).hexdigest(), len(blobs) + 1)
            stores = []
            for st, s in zip(istores, alone):
                if st is None or s["r"] == "none":
                    stores.append("None")
                else:
                    stores.append("Some " + coq_list(["mkMf (%d, None) %d" % (lid(l), bid(b)) for l, b in st.items()]))
            exprs.append("c39_eval " + coq_list(stores))
            ecases.append((c, p, labs, blobs, conflict))
        if p["r"] != "ok":
            if conflict:
                stats["unspecified"]["label conflict between ingredients: parent not signed (%s)" % p.get("kind")] = \
                    stats["unspecified"].get("label conflict between ingredients: parent not signed (%s)" % p.get("kind"), 0) + 1
            else:
                ctx.report_violation(c, "adding the ingredients and signing the parent failed: %s %s %s" % (p["r"], p.get("kind"), p.get("detail", "")[:200]))
            continue
        v = p["view"]
        act = v["active_manifest"]
        am = v["manifests"][act]
        try:
            pstore = G.store_manifests(bytes.fromhex(p["jumbf"]))
        except Exception as ex:
            ctx.report_violation(c, "parent manifest store not parsable: %r" % (ex,))
            continue
        rings = am.get("ingredients") or []
        if len(rings) != len(alone):
            ctx.report_violation(c, "%d ingredients added, %d reported" % (len(alone), len(rings)))
            continue
        expected_labels = set()
        for k, (g, s, st) in enumerate(zip(rings, alone, istores)):
            stats["ingredients_checked"] += 1
            kind = meta["kinds"][k] if k < len(meta["kinds"]) else "?"
            if s["r"] == "none":
                stats["standalone_states"]["unsigned"] = stats["standalone_states"].get("unsigned", 0) + 1
                if g.get("active_manifest") or g.get("validation_results") or g.get("validation_status") or g.get("manifest_data"):
                    ctx.report_violation(c, "unsigned ingredient #%d records %s" % (k, json.dumps({x: g.get(x) for x in ("active_manifest", "validation_results", "validation_status")})[:200]))
                continue
            if s["r"] != "ok":
                # the asset carries a store that a Reader refuses outright: the ingredient must carry failure codes, not a clean bill
                stats["standalone_states"]["unreadable"] = stats["standalone_states"].get("unreadable", 0) + 1
                rv = results_view(g.get("validation_results"))
                if rv is not None and not rv["failure"] and g.get("active_manifest"):
                    ctx.report_violation(c, "ingredient #%d cannot be read on its own (%s) but is recorded without failure" % (k, s.get("kind")))
                continue
            stats["standalone_states"][s["report"]["state"]] = stats["standalone_states"].get(s["report"]["state"], 0) + 1
            # (1) validation recorded = standalone read
            want = results_view(s["results"])
            got = results_view(g.get("validation_results"))
            if got != want:
                d = "no validation_results recorded" if got is None else "; ".join(
                    "%s: recorded %s, standalone %s" % (f, [x for x in got[f] if x not in want[f]][:3], [x for x in want[f] if x not in got[f]][:3])
                    for f in ("failure", "success", "informational", "deltas") if got[f] != want[f])
                ctx.report_violation(c, "ingredient #%d (%s) recorded validation differs from a standalone read: %s" % (k, kind, d[:300]))
            elif state_of(got) != s["report"]["state"]:
                ctx.report_violation(c, "ingredient #%d recorded results amount to %s, standalone read says %s" % (k, state_of(got), s["report"]["state"]))
            if g.get("active_manifest") != s["active"]:
                ctx.report_violation(c, "ingredient #%d active manifest %s, the asset's is %s" % (k, g.get("active_manifest"), s["active"]))
            # (2) manifests copied unchanged
            if st is None:
                ctx.report_violation(c, "ingredient #%d store not parsable" % k)
                continue
            for lab, b in st.items():
                stats["manifests_compared"] += 1
                expected_labels.add(lab)
                if lab not in pstore:
                    ctx.report_violation(c, "manifest %s of ingredient #%d (%s) is not in the parent's store" % (lab, k, kind))
                elif pstore[lab] != b and not conflict:
                    ctx.report_violation(c, "manifest %s of ingredient #%d (%s) differs in the parent's store (%d vs %d bytes)" % (lab, k, kind, len(pstore[lab]), len(b)))
        extra = [l for l in pstore if l != act and l not in expected_labels]
        if extra and not conflict:
            ctx.report_violation(c, "the parent's store has manifests that come from no ingredient: %s" % extra[:3])
        # (3) reading the parent reproduces what was recorded (no deltas), and the parent itself validates
        if p["report"]["state"] == "Invalid" and not conflict:
            ctx.report_violation(c, "the parent reads as Invalid: %s" % p["report"]["failure"][:4])
    if with_model and exprs:
        res = common.coq_eval("C39", "From Coq Require Import List NArith Bool.\nFrom C2PA Require Import Model.IngredientImport.\nImport ListNotations.",
                              exprs, shard_size=60)
        for (c, p, labs, blobs, conflict), mo in zip(ecases, res):
            if mo == "None":
                if p["r"] == "ok":
                    ctx.disagreements.append({"case": c, "impl": "parent signed", "model": "label conflict without a versioned label: error"})
                continue
            if p["r"] != "ok":
                ctx.disagreements.append({"case": c, "impl": "%s %s" % (p["r"], p.get("kind")), "model": "store of %d manifests" % len(mo[1])})
                continue
            try:
                pstore = G.store_manifests(bytes.fromhex(p["jumbf"]))
            except Exception:
                continue
            act = p["view"]["active_manifest"]
            got = [(labs.get(l), blobs.get(hashlib.sha256(b).hexdigest())) for l, b in pstore.items() if l != act]
            want = [(t[0], t[-1]) for t in mo[1]]
            if got != want:
                ctx.disagreements.append({"case": c, "impl": got, "model": want})
    return stats, len(distinct)


QUICK_N = 36


def run(ctx):
    if not getattr(ctx, "no_build", False):
        common.build_harness()
    if ctx.replay:
        cases = [ctx.replay["case"]] if "case" in ctx.replay else [d["case"] for d in ctx.replay.get("disagreements", [])]
    else:
        thorough = not ctx.quick()
        srcs = G.sources(False)
        srcs = {k: v for k, v in srcs.items() if k != "jpeg"} if not thorough else srcs   # the 97 KB JPEG only in the thorough tier
        cases = corpus()
        n = QUICK_N if ctx.quick() else 400
        cases += [gen_case(ctx.rng, srcs, i, thorough) for i in range(n)]
    for i, c in enumerate(cases):
        c["id"] = i
    stats, distinct = evaluate(ctx, cases)
    ctx.coverage.update({
        "evaluations": len(cases), "distinct_nontrivial": distinct,
        "rule": "corpus + seeded parents with 1-3 ingredients: freshly signed assets of 8-9 formats, tampered copies (one byte flipped outside "
                "the store), unsigned assets, signed fixtures (C.jpg, CA.jpg), chains of depth 2-3, the same asset twice, two assets with the "
                "same manifest label; relationships parentOf/componentOf/inputTo; each ingredient is also read on its own; compared: recorded "
                "validation results (codes+urls, state), active label, raw manifest boxes in the parent's store; distinct by ingredient plan",
        "distribution": stats,
        "samples": [c["meta"] for c in cases[:5]],
    })


def search(ctx):
    common.build_harness()
    srcs = G.sources(False)
    cases = [gen_case(ctx.rng, srcs, i, False) for i in range(120)]
    for i, c in enumerate(cases):
        c["id"] = i
    evaluate(ctx, cases, with_model=False)
    ctx.coverage["search_evaluations"] = len(cases)
