"""C12 — hash-binding layout maps are ordered, disjoint and cover the file."""
import glob, json, os, re, struct, zlib
from .. import common
from ..common import TieBroken, coq_bytes, coq_list

PROP_FILE = "Properties/C12.v"
TRUSTED = ["jfifdump 0.6 (external JPEG segment reader) is represented by its specification on model-encoded files "
           "(Model/BoxMapJpeg.v jfif_of); checked by correspondence on every generated file",
           "img-parts (JPEG data-hash locations) is not modelled: JPEG object locations are checked by the oracle only",
           "GIF / JPEG XL / .c2pa box maps: oracle only (no Coq model)"]
ASSUMPTIONS = ["streams are in-memory cursors (Read::read fills the buffer; seeking past the end succeeds)",
               "debug-profile harness; 64-bit usize"]


def asc(s):
    return "[" + ";".join(str(b) for b in s.encode()) + "]"


# ------------------------------------------------------------------ facts

def _const_bytes(text, name):
    m = common.fact(r"const\s+%s\s*:\s*\[u8;\s*\d+\]\s*=\s*([^;]+);" % name, text, name)
    v = m.group(1).strip()
    mb = re.fullmatch(r'\*b"([^"]*)"', v)
    if mb:
        return list(mb.group(1).encode())
    ml = re.fullmatch(r"\[([^\]]*)\]", v)
    if ml:
        return [common.rust_int(x) for x in ml.group(1).split(",") if x.strip()]
    raise TieBroken(f"srcfacts: cannot read byte constant {name}: {v!r}")


def _markers():
    """img-parts marker constants (the pinned dependency in the cargo registry); standard JPEG values as fallback"""
    std = {"Z": 0, "P": 0xFF, "SOF0": 0xC0, "SOF15": 0xCF, "RST0": 0xD0, "RST7": 0xD7, "SOS": 0xDA, "DQT": 0xDB,
           "DRI": 0xDD, "APP0": 0xE0, "APP15": 0xEF, "COM": 0xFE, "APP11": 0xEB}
    files = glob.glob(os.path.expanduser("~/.cargo/registry/src/*/img-parts-*/src/jpeg/markers.rs"))
    if not files:
        return std, False
    t = open(sorted(files)[-1]).read()
    out = {}
    for k in std:
        m = re.search(r"pub const %s: u8 = (0x[0-9A-Fa-f]+);" % k, t)
        if not m:
            raise TieBroken(f"srcfacts: img-parts marker {k} not found")
        out[k] = int(m.group(1), 16)
    return out, True


def _ranges(body, mk, what):
    m = common.fact(r"matches!\(\s*marker\s*,([^)]*)\)", body, what)
    out = []
    for alt in m.group(1).split("|"):
        alt = alt.strip()
        if "..=" in alt:
            a, b = [x.strip() for x in alt.split("..=")]
        else:
            a = b = alt
        if a not in mk or b not in mk:
            raise TieBroken(f"srcfacts: unknown marker constant in {what}: {alt}")
        out.append((mk[a], mk[b]))
    return out


def facts(ctx):
    png = common.strip_tests(common.src("sdk/src/asset_handlers/png_io.rs"))
    jpg = common.strip_tests(common.src("sdk/src/asset_handlers/jpeg_io.rs"))
    bh = common.strip_tests(common.src("sdk/src/assertions/box_hash.rs"))
    png_id = _const_bytes(png, "PNG_ID")
    cai = _const_bytes(png, "CAI_CHUNK")
    ihdr = _const_bytes(png, "IMG_HDR")
    iend = _const_bytes(png, "PNG_END")
    hdr_len = common.rust_int(common.fact(r"const\s+PNG_HDR_LEN\s*:\s*u64\s*=\s*([^;]+);", png, "PNG_HDR_LEN").group(1))
    c2pa_name = common.fact(r'pub const C2PA_BOXHASH: &str = "([^"]+)";', bh, "C2PA_BOXHASH").group(1)
    pbody = common.fn_body(png, r"impl AssetBoxHash for PngIO\s*\{", "PngIO::get_box_map")
    m = common.fact(r'names:\s*vec!\["(\w+)"\.to_string\(\)\],.*?range_start:\s*(\d+),\s*range_len:\s*(\d+),', pbody, "PNGh entry")
    pngh_name, pngh_start, pngh_len = m.group(1), int(m.group(2)), int(m.group(3))
    if pngh_start != 0:
        raise TieBroken("srcfacts: PNGh entry no longer starts at 0")
    if len(re.findall(r"range_len:\s*pc\.length as u64 \+ (\d+)", pbody)) != 2 or \
            set(re.findall(r"range_len:\s*pc\.length as u64 \+ (\d+)", pbody)) != {str(hdr_len)}:
        raise TieBroken("srcfacts: PNG chunk entries are no longer length + 12")
    if not re.search(r"if\s+!has_c2pa\s*&&\s*is_ihdr", pbody):
        raise TieBroken("srcfacts: PNG placeholder rule changed")
    # JPEG
    mk, from_src = _markers()
    if not from_src:
        ctx.assumptions.append("img-parts source not found in the cargo registry: standard JPEG marker values assumed")
    hl = _ranges(common.fn_body(jpg, r"fn\s+has_length\s*\(", "has_length"), mk, "has_length")
    ie = _ranges(common.fn_body(jpg, r"fn\s+in_entropy\s*\(", "in_entropy"), mk, "in_entropy")
    mb = common.fn_body(jpg, r"fn\s+make_box_maps\s*\(", "make_box_maps")
    names = re.findall(r'\(0x([0-9a-fA-F]{2})u8,\s*"(\w+)"\)', mb)
    if len(names) < 20:
        raise TieBroken("srcfacts: segment_names table not found in make_box_maps")
    c2pa_marker = _const_bytes(jpg, "C2PA_MARKER")
    if not re.search(r"nr\s*==\s*0x0b", mb) or not re.search(r"raw_bytes\.len\(\)\s*>\s*16", mb) or \
            not re.search(r"\.get\(24\.\.28\)", mb) or not re.search(r"\[2\.\.4\]", mb):
        raise TieBroken("srcfacts: APP11 / C2PA recognition in make_box_maps changed")
    direct = {}
    for kind, nm in re.findall(r'jfifdump::SegmentKind::(\w+)(?:\([^)]*\))?\s*=>\s*\{\s*let bm = BoxMap\s*\{\s*names:\s*vec!\["(\w+)"\.to_string\(\)\]', mb):
        direct[kind] = nm
    want = {"Eoi": "EOI", "Soi": "SOI", "App0Jfif": "APP0", "Dqt": "DQT", "Dht": "DHT", "Dac": "DAC", "Scan": "SOS", "Dri": "DRI", "Comment": "COM"}
    if direct != want:
        raise TieBroken(f"srcfacts: fixed segment names changed: {direct}")
    gb = common.fn_body(jpg, r"impl AssetBoxHash for JpegIO\s*\{", "JpegIO::get_box_map")
    if not re.search(r'n == "APP0"', gb) or not re.search(r"box_maps\.insert\(1,", gb) or not re.search(r'name == "SOS"', gb):
        raise TieBroken("srcfacts: JPEG placeholder / SOS size rule changed")
    lb = common.fn_body(png, r"fn\s+get_object_locations_from_stream\s*\(", "png get_object_locations_from_stream")
    if "file_end + PNG_HDR_LEN as usize" not in lb or "ihdr_index + 1" not in lb:
        raise TieBroken("srcfacts: PNG object locations placeholder rule changed")
    v = ("(* generated from sdk/src/asset_handlers/{png_io,jpeg_io}.rs and assertions/box_hash.rs on every run — do not edit *)\n"
         "From Coq Require Import NArith List.\nImport ListNotations.\nOpen Scope N_scope.\n"
         f"Definition PNG_ID : list N := {coq_bytes(bytes(png_id))[:-2]}.\n"
         f"Definition CAI_CHUNK : list N := {coq_bytes(bytes(cai))[:-2]}.\n"
         f"Definition IMG_HDR : list N := {coq_bytes(bytes(ihdr))[:-2]}.\n"
         f"Definition PNG_END : list N := {coq_bytes(bytes(iend))[:-2]}.\n"
         f"Definition PNG_HDR_LEN : N := {hdr_len}.\n"
         f"Definition C2PA_BOXHASH : list N := {asc(c2pa_name)}.\n"
         f"Definition PNGH_NAME : list N := {asc(pngh_name)}.\n"
         f"Definition PNGH_LEN : N := {pngh_len}.\n"
         f"Definition HAS_LENGTH : list (N * N) := {coq_list(['(%d, %d)' % r for r in hl])}.\n"
         f"Definition IN_ENTROPY : list (N * N) := {coq_list(['(%d, %d)' % r for r in ie])}.\n"
         f"Definition MARKER_P : N := {mk['P']}.\n"
         f"Definition C2PA_MARKER : list N := {coq_bytes(bytes(c2pa_marker))[:-2]}.\n"
         f"Definition SEGMENT_NAMES : list (N * list N) := {coq_list(['(%d, %s)' % (int(h, 16), asc(n)) for h, n in names])}.\n"
         f"Definition NAME_SOI : list N := {asc('SOI')}.\nDefinition NAME_EOI : list N := {asc('EOI')}.\n"
         f"Definition NAME_APP0 : list N := {asc('APP0')}.\nDefinition NAME_DQT : list N := {asc('DQT')}.\n"
         f"Definition NAME_DHT : list N := {asc('DHT')}.\nDefinition NAME_DAC : list N := {asc('DAC')}.\n"
         f"Definition NAME_SOS : list N := {asc('SOS')}.\nDefinition NAME_DRI : list N := {asc('DRI')}.\n"
         f"Definition NAME_COM : list N := {asc('COM')}.\nDefinition NAME_RST : list N := {asc('RST')}.\n")
    common.write_if_changed(os.path.join(common.COQ, "Generated", "C12_facts.v"), v)
    ctx.facts = {"names": {int(h, 16): n for h, n in names}, "has_length": hl, "in_entropy": ie}
    HAS_LENGTH[:] = hl


# ------------------------------------------------------------------ encoders (python side; the harness gets these bytes)

PNG_SIG = bytes([137, 80, 78, 71, 13, 10, 26, 10])


def png_enc(chunks, trailer=b""):
    out = bytearray(PNG_SIG)
    for name, data in chunks:
        out += struct.pack(">I", len(data)) + name + data + struct.pack(">I", zlib.crc32(name + data) & 0xFFFFFFFF)
    return bytes(out + trailer)


STANDALONE = {0xD8, 0xD9} | set(range(0xD0, 0xD8))
SCANLIKE = {0xDA} | set(range(0xD0, 0xD8))


def jpeg_enc(segs, trailer=b""):
    out = bytearray(b"\xff\xd8")
    for s in segs:
        out += s["fill"] + bytes([0xFF, s["m"]])
        if s["m"] not in STANDALONE:
            out += struct.pack(">H", (len(s["p"]) + 2) & 0xFFFF) + s["p"]
        out += s["e"]
    return bytes(out + trailer)


def seg(m, p=b"", e=b"", fill=b""):
    return {"m": m, "p": bytes(p), "e": bytes(e), "fill": bytes(fill)}


def c2pa_app11(rng, en=b"\x02\x11", z=1, n=40, first=True):
    body = b"JP" + en + struct.pack(">I", z) + struct.pack(">I", 100) + b"jumb" + struct.pack(">I", 50) + b"jumd" + b"c2pa" + bytes(rng.randrange(256) for _ in range(n))
    if not first:
        body = b"JP" + en + struct.pack(">I", z) + struct.pack(">I", 100) + b"jumb" + bytes(rng.randrange(256) for _ in range(n + 4))
    return seg(0xEB, body)


def stuffed(rng, n):
    out = bytearray()
    for _ in range(n):
        b = rng.choice([0, 1, 0x7F, 0xD0, 0xD9, 0xFE, 0xFF, rng.randrange(256)])
        out.append(b)
        if b == 0xFF:
            out.append(0)
    return bytes(out)


def jwf(segs, trailer):
    """the model's domain (mirrors Model/BoxMapJpeg.v jwf)"""
    prev_scan = False
    for s in segs:
        f = s["fill"]
        k = len(f.rstrip(b"\xff"))
        if prev_scan and k:
            return False
        if 0xFF in f[:k]:
            return False
        if not (1 <= s["m"] <= 254) or len(s["p"]) > 65533:
            return False
        if s["m"] in STANDALONE and s["p"]:
            return False
        if s["m"] in SCANLIKE:
            e = s["e"]
            i = 0
            while i < len(e):
                if e[i] == 0xFF:
                    if i + 1 >= len(e) or e[i + 1] != 0:
                        return False
                    i += 2
                else:
                    i += 1
        elif s["e"]:
            return False
        if s["m"] == 0xCC and len(s["p"]) % 2:
            return False
        prev_scan = s["m"] in SCANLIKE
    return 0xFF not in trailer


HAS_LENGTH = [(0xE0, 0xEF), (0xC0, 0xCF), (0xDA, 0xDA), (0xFE, 0xFE), (0xDB, 0xDB), (0xDD, 0xDD)]   # refreshed by facts()


def _is_frame(m):
    return 0xC0 <= m <= 0xCF and m not in (0xC4, 0xC8, 0xCC)


def seg_ok(s):
    m, p = s["m"], s["p"]
    if m == 0:
        return False
    if m == 0xC4:
        while len(p) > 17:
            n = sum(p[1:17])
            if 17 + n > len(p):
                return False
            p = p[17 + n:]
        return True
    if _is_frame(m):
        return len(p) >= 6 and 6 + 3 * p[5] <= len(p)
    if m == 0xDA:
        return len(p) >= 1 and 4 + 2 * p[0] <= len(p)
    if m == 0xDD:
        return len(p) >= 2
    return True


def _stuffed(e):
    i = 0
    while i < len(e):
        if e[i] == 0xFF:
            if i + 1 >= len(e) or e[i + 1] != 0:
                return False
            i += 2
        else:
            i += 1
    return True


def plain_seg(s):
    m = s["m"]
    hl = any(a <= m <= b for a, b in HAS_LENGTH)
    return (not s["fill"] and seg_ok(s) and m != 0xEB and not (0xD0 <= m <= 0xD7) and 1 <= m <= 254
            and hl == (m not in STANDALONE) and len(s["p"]) <= 65533 and (m not in STANDALONE or not s["p"])
            and (_stuffed(s["e"]) if m == 0xDA else not s["e"]))


def run_seg(en, s):
    return not s["fill"] and s["m"] == 0xEB and 28 <= len(s["p"]) <= 65533 and not s["e"] and s["p"][2:4] == en


def jclean(segs, trailer):
    """the hypothesis of theorem c12_jpeg_layout (mirrors plain_seg / c2pa_run / no_final_sos in Proofs/BoxMapJpegTiling.v)"""
    if trailer:
        return False
    i = 0
    while i < len(segs) and plain_seg(segs[i]):
        i += 1
    if i < len(segs) and segs[i]["m"] == 0xEB:
        s0 = segs[i]
        if len(s0["p"]) < 28:
            return False
        en = s0["p"][2:4]
        if not run_seg(en, s0) or s0["p"][24:28] != b"c2pa":
            return False
        i += 1
        while i < len(segs) and run_seg(en, segs[i]):
            i += 1
    if not all(plain_seg(s) for s in segs[i:]):
        return False
    return not segs or segs[-1]["m"] != 0xDA


# ------------------------------------------------------------------ generators

def rbytes(rng, n):
    return bytes(rng.randrange(256) for _ in range(n))


def gen_png(rng):
    r = rng.random()
    names = [b"PLTE", b"IDAT", b"tEXt", b"iTXt", b"gAMA", b"IDAT", b"zTXt", b"C2PA", b"PNGh", b"ab\xc3\xa9", b"\xe2\x82\xac1"]
    chunks = []
    has_ihdr = rng.random() < 0.93
    n_cai = rng.choice([0, 0, 0, 1, 1, 1, 1, 2])
    if has_ihdr:
        chunks.append((b"IHDR", rbytes(rng, 13)))
    for _ in range(rng.randrange(0, 5)):
        chunks.append((rng.choice(names), rbytes(rng, rng.choice([0, 1, 4, 9, rng.randrange(0, 40)]))))
    for _ in range(n_cai):
        pos = rng.choice([0, 1, 1, 1, rng.randrange(0, len(chunks) + 1)])
        chunks.insert(min(pos, len(chunks)), (b"caBX", rbytes(rng, rng.randrange(0, 60))))
    if rng.random() < 0.08 and has_ihdr:
        chunks.insert(rng.randrange(0, len(chunks) + 1), (b"IHDR", rbytes(rng, 13)))
    if rng.random() < 0.05:
        chunks.insert(rng.randrange(0, len(chunks) + 1), (rng.choice([b"\xff\xfe\x00\x01", b"\xc0\x80ab", b"\xed\xa0\x80a", b"\xf4\x90\x80\x80", b"ab\xc3("]), rbytes(rng, 3)))
    end = rng.random() < 0.92
    if end:
        chunks.append((b"IEND", b""))
    trailer = b""
    if rng.random() < 0.3:
        trailer = rbytes(rng, rng.choice([1, 2, 7, 12, 25, 40]))
        if rng.random() < 0.3:
            trailer = png_enc([(b"tEXt", rbytes(rng, 5)), (b"IEND", b"")])[8:]
    data = png_enc(chunks, trailer)
    kind = "structured"
    if r < 0.18:
        kind = "mutant"
        m = rng.random()
        b = bytearray(data)
        if m < 0.3 and len(b) > 9:
            b = b[:rng.randrange(0, len(b))]
        elif m < 0.5:
            i = rng.randrange(0, min(len(b), 8))
            b[i] ^= 1 << rng.randrange(8)
        elif m < 0.8 and len(b) > 12:
            # corrupt a length field of some chunk
            off = 8
            offs = []
            while off + 8 <= len(b):
                offs.append(off)
                off += 12 + struct.unpack(">I", b[off:off + 4])[0]
            o = rng.choice(offs)
            b[o:o + 4] = struct.pack(">I", rng.choice([0, 1, 0xFFFFFFFF, 0x7FFFFFFF, len(b), len(b) - o - 12, len(b) - o - 11, rng.randrange(0, 64)]))
        else:
            for _ in range(rng.randrange(1, 4)):
                b[rng.randrange(len(b))] = rng.randrange(256)
        data = bytes(b)
    return {"fmt": "png", "kind": kind, "data": data.hex(), "has_manifest": (n_cai > 0) if kind == "structured" else None,
            "trailer": len(trailer) if kind == "structured" and end else None}


def gen_jpeg(rng):
    segs = []
    style = rng.random()
    clean = style < 0.4
    if rng.random() < 0.6:
        segs.append(seg(0xE0, b"JFIF\0" + rbytes(rng, 9) + (rbytes(rng, rng.randrange(0, 6)) if rng.random() < 0.3 else b"")))
    elif rng.random() < 0.2:
        segs.append(seg(0xE0, rbytes(rng, rng.randrange(0, 16))))
    n_c2pa = rng.choice([0, 0, 1, 1, 1, 2, 3])
    run = []
    en = rng.choice([b"\x02\x11", b"\x00\x01"])
    for k in range(n_c2pa):
        run.append(c2pa_app11(rng, en=en, z=k + 1, n=rng.randrange(0, 30), first=(k == 0)))
    if not clean and run and rng.random() < 0.25:
        run.insert(rng.randrange(0, len(run) + 1), seg(0xE1, rbytes(rng, 6)))        # split C2PA run
    if not clean and run and rng.random() < 0.15:
        run.append(c2pa_app11(rng, en=b"\x07\x07", z=1, n=5, first=True))              # a second run
    if rng.random() < 0.3:
        segs.append(seg(0xE1, b"Exif\0\0" + rbytes(rng, rng.randrange(0, 20))))
        segs += run
    else:
        segs += run
        if rng.random() < 0.5:
            segs.append(seg(0xE1, b"http://ns.adobe.com/xap/1.0/\0" + rbytes(rng, 8)))
    if not clean and rng.random() < 0.25:
        segs.append(seg(0xEB, rbytes(rng, rng.choice([0, 3, 16]))))                   # short APP11: no entry
    if not clean and rng.random() < 0.2:
        segs.append(seg(0xEB, b"JP\x09\x09" + rbytes(rng, rng.choice([13, 20, 24, 30]))))   # other APP11
    if rng.random() < 0.5:
        segs.append(seg(rng.choice([0xE2, 0xED, 0xEE, 0xFE]), rbytes(rng, rng.randrange(0, 20))))
    segs.append(seg(0xDB, rbytes(rng, rng.choice([65, 130, 67, 3]))))
    if rng.random() < 0.4:
        segs.append(seg(0xDD, rbytes(rng, rng.choice([2, 2, 2, 4, 1] if not clean else [2, 4]))))
    ncomp = rng.choice([1, 3])
    sof = rng.choice([0xC0, 0xC0, 0xC1, 0xC2] + ([] if clean else [0xC3, 0xC9]))
    segs.append(seg(sof, bytes([8, 0, 16, 0, 16, ncomp]) + rbytes(rng, 3 * ncomp) + (b"" if rng.random() < 0.8 else rbytes(rng, 2))))
    if rng.random() < 0.85:
        counts = [rng.choice([0, 0, 1, 2]) for _ in range(16)]
        tbl = bytes([0]) + bytes(counts) + rbytes(rng, sum(counts))
        if rng.random() < 0.3:
            counts2 = [rng.choice([0, 1]) for _ in range(16)]
            tbl += bytes([0x10]) + bytes(counts2) + rbytes(rng, sum(counts2))
        if not clean and rng.random() < 0.15:
            tbl = tbl[:-1] if len(tbl) > 18 else tbl + rbytes(rng, 3)
        segs.append(seg(0xC4, tbl))
    if not clean and rng.random() < 0.15:
        segs.append(seg(0xCC, rbytes(rng, rng.choice([2, 4]))))
    if not clean and rng.random() < 0.15:
        segs.append(seg(rng.choice([0xF0, 0xF7, 0xFD]), rbytes(rng, rng.randrange(0, 8))))   # JPGn: has a length for the reader only
    if not clean and rng.random() < 0.06:
        segs.append(seg(rng.choice([0x01, 0xC8, 0xDC, 0xBF]), rbytes(rng, 2)))        # markers without a name: error
    nscan = rng.choice([1, 1, 1, 2])
    for _ in range(nscan):
        hdr = bytes([ncomp]) + rbytes(rng, 2 * ncomp) + bytes([0, 63, 0])
        if not clean and rng.random() < 0.08:
            hdr = hdr[:rng.randrange(0, len(hdr))]
        segs.append(seg(0xDA, hdr, stuffed(rng, rng.randrange(0, 40))))
        nrst = 0 if clean else rng.choice([0, 0, 1, 2, 3, 9])
        r0 = rng.randrange(8)
        for k in range(nrst):
            segs.append(seg(0xD0 + ((k + r0) % 8), b"", stuffed(rng, rng.randrange(0, 12))))
    if clean or rng.random() < 0.92:
        segs.append(seg(0xD9))
    trailer = b""
    if not clean:
        # fill bytes between segments
        prev_scan = False
        for s in segs:
            if rng.random() < 0.15:
                s["fill"] = (b"" if prev_scan else bytes(rng.randrange(255) for _ in range(rng.randrange(0, 4)))) + b"\xff" * rng.randrange(0, 3)
            prev_scan = s["m"] in SCANLIKE
        if rng.random() < 0.35:
            trailer = bytes(rng.randrange(255) for _ in range(rng.choice([1, 2, 7, 25])))
        if rng.random() < 0.1:
            segs.append(seg(0xD8))
            segs.append(seg(0xE1, rbytes(rng, 4)))
            segs.append(seg(0xD9))
    data = jpeg_enc(segs, trailer)
    kind = "structured" if jwf(segs, trailer) else "outside-domain"
    case = {"fmt": "jpg", "kind": kind, "data": data.hex(), "has_manifest": n_c2pa > 0,
            "segs": [[s["fill"].hex(), s["m"], s["p"].hex(), s["e"].hex()] for s in segs], "trailer_hex": trailer.hex(),
            "clean": jclean(segs, trailer)}
    if rng.random() < 0.12:
        b = bytearray(data)
        m = rng.random()
        if m < 0.4 and len(b) > 4:
            b = b[:rng.randrange(1, len(b))]
        elif m < 0.7:
            for _ in range(rng.randrange(1, 3)):
                b[rng.randrange(len(b))] = rng.choice([0xFF, 0, 0xD9, 0xDA, rng.randrange(256)])
        else:
            i = rng.randrange(2, len(b))
            b[i:i] = rbytes(rng, rng.randrange(1, 5))
        case = {"fmt": "jpg", "kind": "mutant", "data": bytes(b).hex(), "has_manifest": None}
    return case


def gen_gif(rng):
    """small GIF files (header, logical screen descriptor, optional global colour table, extensions, images, trailer)"""
    out = bytearray(rng.choice([b"GIF89a", b"GIF89a", b"GIF87a"]))
    gct = rng.random() < 0.6
    out += struct.pack("<HH", 4, 4) + bytes([(0x80 | 0x01) if gct else 0x00, 0, 0])
    if gct:
        out += rbytes(rng, 3 * 4)

    def sub_blocks(n):
        o = bytearray()
        for _ in range(n):
            k = rng.randrange(1, 9)
            o += bytes([k]) + rbytes(rng, k)
        return bytes(o + b"\0")
    has_manifest = rng.random() < 0.5
    if has_manifest:
        out += b"\x21\xff\x0bC2PA_GIF\x01\x00\x00" + sub_blocks(rng.randrange(1, 4))
    for _ in range(rng.randrange(0, 3)):
        t = rng.random()
        if t < 0.3:
            out += b"\x21\xfe" + sub_blocks(rng.randrange(0, 3))                         # comment
        elif t < 0.6:
            out += b"\x21\xf9\x04" + rbytes(rng, 4) + b"\0"                             # graphic control
        else:
            out += b"\x21\xff\x0bNETSCAPE2.0" + sub_blocks(1)                           # application
    for _ in range(rng.randrange(1, 3)):
        lct = rng.random() < 0.3
        out += b"\x2c" + struct.pack("<HHHH", 0, 0, 4, 4) + bytes([0x80 if lct else 0])
        if lct:
            out += rbytes(rng, 3 * 2)
        out += bytes([2]) + sub_blocks(rng.randrange(1, 3))
    if rng.random() < 0.95:
        out += b"\x3b"
    trailer = rbytes(rng, rng.choice([0, 0, 0, 1, 12, 25]))
    out += trailer
    return {"fmt": "gif", "kind": "structured", "data": bytes(out).hex(), "has_manifest": has_manifest, "trailer": len(trailer)}


def corpus():
    p = os.path.join(common.VERIF, "corpus", "C12.jsonl")
    if not os.path.exists(p):
        return []
    return [json.loads(l) for l in open(p) if l.strip()]


# ------------------------------------------------------------------ model

IMPORTS = ("From C2PA Require Import Base.Bytes Generated.C12_facts Model.BoxMap Model.BoxMapJpeg.\n"
           "From Coq Require Import NArith List.\nImport ListNotations.\nOpen Scope N_scope.")


def hexbytes(h):
    return coq_bytes(bytes.fromhex(h))


def model_exprs(c):
    """list of Coq expressions for the case (box map, and locations for PNG)"""
    if c["fmt"] == "png":
        b = hexbytes(c["data"])
        return [f"png_box_map {b}", f"png_locations {b}"]
    if c["fmt"] == "jpg" and c.get("kind") == "structured":
        segs = coq_list([f"JS {hexbytes(f)} {m} {hexbytes(p)} {hexbytes(e)}" for f, m, p, e in c["segs"]])
        return [f"jpeg_box_map {segs} {hexbytes(c['trailer_hex'])}"]
    return []


ERR = {"EIo": "IoError", "EPngSignature": "PngError", "EInvalidAsset": "InvalidAsset", "EEmbedding": "EmbeddingError",
       "EJumbfNotFound": "JumbfNotFound", "EFuel": "model-fuel"}
HT = {"Cai": "Cai", "Xmp": "Xmp", "Other": "Other", "OtherExclusion": "OtherExclusion"}


def norm_model_map(t):
    if t == "Panic":
        return ("panic",)
    if t[0] == "Err":
        return ("err", ERR[t[1]])
    return ("ok", [(bytes(e["ename"]), e["estart"], e["elen"], e["eexcl"] == "true") for e in t[1]])


def norm_impl_map(r):
    if r["r"] == "err":
        return ("err", r["kind"])
    if r["r"] == "panic":
        return ("panic",)
    return ("ok", [(n[0].encode() if len(n) == 1 else b"|".join(x.encode() for x in n), s, l, bool(x)) for n, s, l, x in r["map"]])


def norm_model_loc(t):
    if t == "Panic":
        return ("panic",)
    if t[0] == "Err":
        return ("err", ERR[t[1]])
    return ("ok", [(e["loff"], e["llen"], e["ltype"]) for e in t[1]])


def norm_impl_loc(r):
    if r["r"] == "err":
        return ("err", r["kind"])
    if r["r"] == "panic":
        return ("panic",)
    return ("ok", [tuple(x) for x in r["loc"]])


# ------------------------------------------------------------------ oracle: the property text on the implementation's output

def jpeg_c2pa_irregular(data):
    """input classification (independent of the SDK): the C2PA APP11 segments of a JPEG do not form one contiguous run
    (a second run with another box instance number, or another segment in between)"""
    pos, i, idx, runs, cnt, en = 2, 0, [], 0, 0, None
    while pos + 4 <= len(data):
        while pos < len(data) and data[pos] != 0xFF:
            pos += 1
        while pos < len(data) and data[pos] == 0xFF:
            pos += 1
        if pos >= len(data):
            break
        m = data[pos]
        pos += 1
        if m in STANDALONE:
            i += 1
            continue
        if m == 0xDA or pos + 2 > len(data):
            break
        ln = struct.unpack(">H", data[pos:pos + 2])[0]
        payload = data[pos + 2:pos + ln]
        pos += max(ln, 2)
        if m == 0xEB and len(payload) > 16:
            e = payload[2:4]
            if cnt > 0 and e == en:
                cnt += 1
                idx.append(i)
            elif payload[24:28] == b"c2pa":
                runs, cnt, en = runs + 1, 1, e
                idx.append(i)
        i += 1
    return runs >= 2 or (bool(idx) and idx != list(range(idx[0], idx[-1] + 1)))


def layout_defects(entries, n, fmt=None):
    """entries: [(name, start, len, excl)] as returned; n: file length.
    returns list of (class, detail) — empty when ordered, non-overlapping, inside the file and covering every byte"""
    out = []
    starts = [s for _, s, _, _ in entries]
    if any(starts[i] > starts[i + 1] for i in range(len(starts) - 1)):
        out.append(("unordered", f"starts {starts[:12]}"))
    for nm, s, l, _ in entries:
        if s + l > n:
            out.append(("outside", f"entry {nm!r} [{s},{s + l}) in a file of {n} bytes"))
            break
    se = sorted(entries, key=lambda e: (e[1], e[1] + e[2]))
    hi = 0
    for nm, s, l, _ in se:
        if l > 0 and s < hi:
            kind = "overlap-rst" if nm.startswith(b"RST") else ("overlap-c2pa" if any(x[0] == b"C2PA" and x[1] < s + l and s < x[1] + x[2] for x in se if x[2] > 0 and (x[0], x[1]) != (nm, s)) else "overlap")
            out.append((kind, f"entry {nm!r} [{s},{s + l}) overlaps the preceding entries (covered up to {hi})"))
            break
        hi = max(hi, s + l)
    if fmt == "c2pa":
        return out          # the whole file is the manifest container: nothing outside it to cover
    cov = bytearray(n + 1)
    for _, s, l, _ in entries:
        for p in range(s, min(n, s + l)):
            cov[p] = 1
    unc = [p for p in range(n) if not cov[p]]
    if unc:
        last_end = max([min(n, s + l) for _, s, l, _ in entries] + [0])
        if all(p >= last_end for p in unc):
            out.append(("trailing", f"{len(unc)} bytes after offset {last_end} belong to no entry"))
        else:
            inner = [p for p in unc if p < last_end]
            out.append(("gap", f"{len(inner)} bytes inside the mapped span belong to no entry (first at {inner[0]})"))
            if len(inner) != len(unc):
                out.append(("trailing", f"{len(unc) - len(inner)} bytes after offset {last_end} belong to no entry"))
    return out


def loc_defects(locs, n, has_manifest):
    out = []
    cai = [(o, l) for o, l, t in locs if t == "Cai"]
    oth = [(o, l) for o, l, t in locs if t != "Cai"]
    for o, l in cai:
        bound = n if has_manifest else n + l       # without a manifest the region describes the placeholder to be inserted
        if o + l > bound:
            out.append(("cai-outside", f"Cai region [{o},{o + l}) beyond {bound}"))
        for o2, l2 in oth:
            if l > 0 and l2 > 0 and o < o2 + l2 and o2 < o + l:
                out.append(("cai-overlap", f"Cai region [{o},{o + l}) overlaps [{o2},{o2 + l2})"))
                break
    return out


# ------------------------------------------------------------------ evaluation

def matcher_input(c, cls, n):
    mi = {k: v for k, v in c.items() if k not in ("data", "segs")}
    mi.update(defect=cls, n=n)
    if c["fmt"] == "jpg" and "data" in c:
        mi["c2pa_irregular"] = jpeg_c2pa_irregular(bytes.fromhex(c["data"]))
    return mi


def evaluate(ctx, cases, with_model=True):
    impl = common.run_harness("c12", [dict(op="map", id=c["id"], fmt=c["fmt"], data=c["data"]) if "data" in c else
                                      dict(op="map", id=c["id"], fmt=c["fmt"], fixture=c["fixture"]) for c in cases])
    exprs, owner = [], []
    if with_model:
        for idx, c in enumerate(cases):
            if "data" in c and len(c["data"]) <= 2 * 3000:
                for k, e in enumerate(model_exprs(c)):
                    exprs.append(e)
                    owner.append((idx, k))
    model = {}
    if exprs:
        res = common.coq_eval("C12", IMPORTS, exprs, shard_size=max(40, (len(exprs) + 15) // 16))
        for (idx, k), t in zip(owner, res):
            model[(idx, k)] = t
    stats = {"fmt": {}, "kind": {}, "impl_ok": 0, "impl_err": 0, "defects": {}, "model_compared": 0, "loc_compared": 0, "sizes": {}}
    distinct = set()
    for idx, c in enumerate(cases):
        r = impl[c["id"]]
        stats["fmt"][c["fmt"]] = stats["fmt"].get(c["fmt"], 0) + 1
        stats["kind"][c.get("kind", "fixture")] = stats["kind"].get(c.get("kind", "fixture"), 0) + 1
        if r["r"] in ("panic", "crash"):
            ctx.report_violation(c, f"implementation panicked: {r.get('msg')}", dict(c, defect="panic"))
            continue
        n = r["len"]
        b = "<64" if n < 64 else "<256" if n < 256 else "<1024" if n < 1024 else ">=1024"
        stats["sizes"][b] = stats["sizes"].get(b, 0) + 1
        im = norm_impl_map(r["box"])
        il = norm_impl_loc(r["locs"])
        # ---- oracle
        if im[0] == "ok":
            stats["impl_ok"] += 1
            distinct.add((c["fmt"], tuple((e[0], e[2]) for e in im[1])))
            for cls, detail in layout_defects(im[1], n, c['fmt']):
                stats["defects"][cls] = stats["defects"].get(cls, 0) + 1
                mi = matcher_input(c, cls, n)
                ctx.report_violation(c, f"{c['fmt']} box map: {cls}: {detail}", mi)
        elif im[0] == "panic":
            ctx.report_violation(c, "get_box_map panicked", dict(fmt=c["fmt"], defect="panic"))
        else:
            stats["impl_err"] += 1
        if il[0] == "ok":
            hm = c.get("has_manifest")
            if hm is None:
                hm = im[0] == "ok" and not any(e[0] == b"C2PA" and e[3] for e in im[1])
                if im[0] != "ok":
                    hm = False
            for cls, detail in loc_defects(il[1], n, hm):
                stats["defects"][cls] = stats["defects"].get(cls, 0) + 1
                ctx.report_violation(c, f"{c['fmt']} object locations: {cls}: {detail}", matcher_input(c, cls, n))
        elif il[0] == "panic":
            ctx.report_violation(c, "get_object_locations_from_stream panicked", dict(fmt=c["fmt"], defect="loc-panic", kind=c.get("kind")))
        # ---- correspondence
        if (idx, 0) in model:
            mm = norm_model_map(model[(idx, 0)])
            stats["model_compared"] += 1
            if mm != im:
                ctx.disagreements.append({"case": {k: v for k, v in c.items() if k != "segs"}, "what": "box map",
                                          "impl": repr(im)[:600], "model": repr(mm)[:600]})
        if (idx, 1) in model:
            ml = norm_model_loc(model[(idx, 1)])
            stats["loc_compared"] += 1
            if ml != il:
                ctx.disagreements.append({"case": c, "what": "object locations", "impl": repr(il)[:400], "model": repr(ml)[:400]})
    return stats, len(distinct)


FIXTURES = [("jpg", "IMG_0003.jpg"), ("jpg", "CA.jpg"), ("jpg", "no_manifest.jpg"), ("jpg", "boxhash.jpg"), ("png", "libpng-test.png"),
            ("png", "sample1.png"), ("gif", "sample1.gif"), ("jxl", "sample1.jxl"), ("c2pa", "cloud_manifest.c2pa")]


def e2e_stage(ctx):
    """F-BOX at the level of the verdict: sign with box hashing, add bytes no entry covers, read"""
    os.makedirs(common.CASES, exist_ok=True)
    jobs = [("png", "libpng-test.png"), ("jpg", "IMG_0003.jpg")]
    sign = [dict(id=i, op="sign", fmt=f, fixture=fx, out=os.path.join(common.CASES, f"c12_signed.{f}")) for i, (f, fx) in enumerate(jobs)]
    sr = common.run_harness("c12", sign)
    reads, meta = [], []
    for j in sign:
        r = sr[j["id"]]
        if r["r"] != "ok" or r["box"]["r"] != "ok":
            raise TieBroken(f"e2e: cannot sign {j['fixture']} with box hashing: {r}")
        ents = norm_impl_map(r["box"])[1]
        n = r["len"]
        base = dict(op="read", fmt=j["fmt"], path=j["out"])
        reads.append(dict(base)); meta.append((j["fmt"], "unchanged", n))
        reads.append(dict(base, append="00112233445566778899aabbccddeeff00112233445566778899")); meta.append((j["fmt"], "trailing", n))
        if j["fmt"] == "jpg":
            dqt = [e for e in ents if e[0] == b"DQT"]
            if dqt:
                reads.append(dict(base, insert=[dqt[0][1], "0011223344"])); meta.append((j["fmt"], "gap", n))
            sos = [e for e in ents if e[0] == b"SOS"]
            if sos:
                reads.append(dict(base, insert=[sos[0][1] + sos[0][2] - 1, "0011223344"])); meta.append((j["fmt"], "inside-sos", n))
    for i, rd in enumerate(reads):
        rd["id"] = i
    rr = common.run_harness("c12", reads)
    out = []
    base_state = {}
    for rd, (fmt, what, n) in zip(reads, meta):
        r = rr[rd["id"]]
        rep = r.get("report", {})
        state = rep.get("state")
        defects = layout_defects(norm_impl_map(r["box"])[1], r["len"]) if r.get("box", {}).get("r") == "ok" else []
        out.append({"fmt": fmt, "mutation": what, "state": state, "failure": rep.get("failure"), "defects": [d[0] for d in defects]})
        case = {"fmt": fmt, "kind": "e2e", "mutation": what, "read": {k: v for k, v in rd.items() if k != "id"}}
        ok_hash = "assertion.boxesHash.match" in rep.get("success", [])
        if what == "unchanged":
            if not ok_hash:
                raise TieBroken(f"e2e: the box hash of a freshly box-hashed {fmt} does not verify: {rep}")
            base_state[fmt] = state
        elif what == "inside-sos":
            if ok_hash:
                ctx.report_violation(case, "bytes added inside a hashed entry still verify against the box hash", dict(fmt=fmt, defect="e2e-covered-change", kind="e2e"))
        else:
            unc = [d for d in defects if d[0] in ("trailing", "gap")]
            if unc and ok_hash and state == base_state.get(fmt):
                ctx.report_violation(case, f"{fmt}: {what}: bytes covered by no box-map entry were added to a box-hashed asset; the box hash still matches and the state is still {state} ({unc[0][1]})",
                                     dict(fmt=fmt, defect=what, kind="e2e", state=state))
    return out


def build_cases(ctx, n_png, n_jpg, n_gif):
    cases = corpus()
    cases += [gen_png(ctx.rng) for _ in range(n_png)]
    cases += [gen_jpeg(ctx.rng) for _ in range(n_jpg)]
    cases += [gen_gif(ctx.rng) for _ in range(n_gif)]
    cases += [dict(fmt=f, fixture=fx, kind="fixture", has_manifest=None) for f, fx in FIXTURES]
    for i, c in enumerate(cases):
        c["id"] = i
    return cases


def run(ctx):
    if not getattr(ctx, "no_build", False):
        common.build_harness()
    if ctx.replay:
        cases = [ctx.replay["case"]] if "case" in ctx.replay else [d["case"] for d in ctx.replay.get("disagreements", [])]
        cases = [c for c in cases if c.get("kind") != "e2e"]
        for i, c in enumerate(cases):
            c["id"] = i
    else:
        q = ctx.quick()
        cases = build_cases(ctx, 160 if q else 2500, 160 if q else 2500, 40 if q else 400)
    stats, distinct = evaluate(ctx, cases)
    e2e = e2e_stage(ctx) if not ctx.replay or any(c.get("kind") == "e2e" for c in [ctx.replay.get("case", {})]) else []
    ctx.coverage.update({
        "evaluations": len(cases) + len(e2e), "distinct_nontrivial": distinct,
        "rule": "corpus + seeded structured PNG / JPEG / GIF files (with and without manifest, restart markers, fill bytes, trailing data, "
                "split C2PA runs, second images) + byte-level mutants + repository fixtures; non-trivial = box map returned; distinct by (format, names and lengths)",
        "distribution": stats, "e2e": e2e,
        "traces_validated_against_impl": stats["model_compared"] + stats["loc_compared"],
        "samples": [{k: (v if not isinstance(v, str) or len(v) < 80 else v[:80] + "...") for k, v in c.items() if k != "segs"} for c in cases[:2] + cases[len(cases) // 2: len(cases) // 2 + 2]],
    })


def search(ctx):
    common.build_harness()
    cases = build_cases(ctx, 3000, 3000, 500)
    evaluate(ctx, cases, with_model=False)
    ctx.coverage["search_evaluations"] = len(cases)
