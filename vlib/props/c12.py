"""C12 — hash-binding layout maps are ordered, disjoint and cover the file."""
import glob, json, os, re, struct, zlib
from .. import common
from ..common import TieBroken, coq_bytes, coq_list

PROP_FILE = "Properties/C12.v"
TRUSTED = ["jfifdump 0.6 (external JPEG segment reader) is represented by its specification on model-encoded files "
           "(Model/BoxMapJpeg.v jfif_of); checked by correspondence on every generated file",
           "img-parts (JPEG data-hash locations) is not modelled: JPEG object locations are checked by the oracle only",
           "GIF / JPEG XL / .c2pa box maps: oracle only (no Coq model)"]
ASSUMPTIONS = ["streams are in-memory cursors (Read::read fills the buffer; seeking past the end succeeds)",
               "debug-profile harness; 64-bit usize"]


def asc(s):
    return "[" + ";".join(str(b) for b in s.encode()) + "]"


# ------------------------------------------------------------------ facts

def _const_bytes(text, name):
    m = common.fact(r"const\s+%s\s*:\s*\[u8;\s*\d+\]\s*=\s*([^;]+);" % name, text, name)
    v = m.group(1).strip()
    mb = re.fullmatch(r'\*b"([^"]*)"', v)
    if mb:
        return list(mb.group(1).encode())
    ml = re.fullmatch(r"\[([^\]]*)\]", v)
    if ml:
        return [common.rust_int(x) for x in ml.group(1).split(",") if x.strip()]
    raise TieBroken(f"srcfacts: cannot read byte constant {name}: {v!r}")


def _markers():
    """img-parts marker constants (the pinned dependency in the cargo registry); standard JPEG values as fallback"""
    std = {"Z": 0, "P": 0xFF, "SOF0": 0xC0, "SOF15": 0xCF, "RST0": 0xD0, "RST7": 0xD7, "SOS": 0xDA, "DQT": 0xDB,
           "DRI": 0xDD, "APP0": 0xE0, "APP15": 0xEF, "COM": 0xFE, "APP11": 0xEB}
    files = glob.glob(os.path.expanduser("~/.cargo/registry/src/*/img-parts-*/src/jpeg/markers.rs"))
    if not files:
        return std, False
    t = open(sorted(files)[-1]).read()
    out = {}
    for k in std:
        m = re.search(r"pub const %s: u8 = (0x[0-9A-Fa-f]+);" % k, t)
        if not m:
            raise TieBroken(f"srcfacts: img-parts marker {k} not found")
        out[k] = int(m.group(1), 16)
    return out, True


def _ranges(body, mk, what):
    m = common.fact(r"matches!\(\s*marker\s*,([^)]*)\)", body, what)
    out = []
    for alt in m.group(1).split("|"):
        alt = alt.strip()
        if "..=" in alt:
            a, b = [x.strip() for x in alt.split("..=")]
        else:
            a = b = alt
        if a not in mk or b not in mk:
            raise TieBroken(f"srcfacts: unknown marker constant in {what}: {alt}")
        out.append((mk[a], mk[b]))
    return out


def facts(ctx):
    png = common.strip_tests(common.src("sdk/src/asset_handlers/png_io.rs"))
    jpg = common.strip_tests(common.src("sdk/src/asset_handlers/jpeg_io.rs"))
    bh = common.strip_tests(common.src("sdk/src/assertions/box_hash.rs"))
    png_id = _const_bytes(png, "PNG_ID")
    cai = _const_bytes(png, "CAI_CHUNK")
    ihdr = _const_bytes(png, "IMG_HDR")
    iend = _const_bytes(png, "PNG_END")
    hdr_len = common.rust_int(common.fact(r"const\s+PNG_HDR_LEN\s*:\s*u64\s*=\s*([^;]+);", png, "PNG_HDR_LEN").group(1))
    c2pa_name = common.fact(r'pub const C2PA_BOXHASH: &str = "([^"]+)";', bh, "C2PA_BOXHASH").group(1)
    pbody = common.fn_body(png, r"impl AssetBoxHash for PngIO\s*\{", "PngIO::get_box_map")
    m = common.fact(r'names:\s*vec!\["(\w+)"\.to_string\(\)\],.*?range_start:\s*(\d+),\s*range_len:\s*(\d+),', pbody, "PNGh entry")
    pngh_name, pngh_start, pngh_len = m.group(1), int(m.group(2)), int(m.group(3))
    if pngh_start != 0:
        raise TieBroken("srcfacts: PNGh entry no longer starts at 0")
    if len(re.findall(r"range_len:\s*pc\.length as u64 \+ (\d+)", pbody)) != 2 or \
            set(re.findall(r"range_len:\s*pc\.length as u64 \+ (\d+)", pbody)) != {str(hdr_len)}:
        raise TieBroken("srcfacts: PNG chunk entries are no longer length + 12")
    if not re.search(r"if\s+!has_c2pa\s*&&\s*is_ihdr", pbody):
        raise TieBroken("srcfacts: PNG placeholder rule changed")
    # JPEG
    mk, from_src = _markers()
    if not from_src:
        ctx.assumptions.append("img-parts source not found in the cargo registry: standard JPEG marker values assumed")
    hl = _ranges(common.fn_body(jpg, r"fn\s+has_length\s*\(", "has_length"), mk, "has_length")
    ie = _ranges(common.fn_body(jpg, r"fn\s+in_entropy\s*\(", "in_entropy"), mk, "in_entropy")
    mb = common.fn_body(jpg, r"fn\s+make_box_maps\s*\(", "make_box_maps")
    names = re.findall(r'\(0x([0-9a-fA-F]{2})u8,\s*"(\w+)"\)', mb)
    if len(names) < 20:
        raise TieBroken("srcfacts: segment_names table not found in make_box_maps")
    c2pa_marker = _const_bytes(jpg, "C2PA_MARKER")
    if not re.search(r"nr\s*==\s*0x0b", mb) or not re.search(r"raw_bytes\.len\(\)\s*>\s*16", mb) or \
            not re.search(r"\.get\(24\.\.28\)", mb) or not re.search(r"\[2\.\.4\]", mb):
        raise TieBroken("srcfacts: APP11 / C2PA recognition in make_box_maps changed")
    direct = {}
    for kind, nm in re.findall(r'jfifdump::SegmentKind::(\w+)(?:\([^)]*\))?\s*=>\s*\{\s*let bm = BoxMap\s*\{\s*names:\s*vec!\["(\w+)"\.to_string\(\)\]', mb):
        direct[kind] = nm
    want = {"Eoi": "EOI", "Soi": "SOI", "App0Jfif": "APP0", "Dqt": "DQT", "Dht": "DHT", "Dac": "DAC", "Scan": "SOS", "Dri": "DRI", "Comment": "COM"}
    if direct != want:
        raise TieBroken(f"srcfacts: fixed segment names changed: {direct}")
    gb = common.fn_body(jpg, r"impl AssetBoxHash for JpegIO\s*\{", "JpegIO::get_box_map")
    if not re.search(r'n == "APP0"', gb) or not re.search(r"box_maps\.insert\(1,", gb) or not re.search(r'name == "SOS"', gb):
        raise TieBroken("srcfacts: JPEG placeholder / SOS size rule changed")
    lb = common.fn_body(png, r"fn\s+get_object_locations_from_stream\s*\(", "png get_object_locations_from_stream")
    if "file_end + PNG_HDR_LEN as usize" not in lb or "ihdr_index + 1" not in lb:
        raise TieBroken("srcfacts: PNG object locations placeholder rule changed")
    v = ("(* generated from sdk/src/asset_handlers/{png_io,jpeg_io}.rs and assertions/box_hash.rs on every run — do not edit *)\n"
         "From Coq Require Import NArith List.\nImport ListNotations.\nOpen Scope N_scope.\n"
         f"Definition PNG_ID : list N := {coq_bytes(bytes(png_id))[:-2]}.\n"
         f"Definition CAI_CHUNK : list N := {coq_bytes(bytes(cai))[:-2]}.\n"
         f"Definition IMG_HDR : list N := {coq_bytes(bytes(ihdr))[:-2]}.\n"
         f"Definition PNG_END : list N := {coq_bytes(bytes(iend))[:-2]}.\n"
         f"Definition PNG_HDR_LEN : N := {hdr_len}.\n"
         f"Definition C2PA_BOXHASH : list N := {asc(c2pa_name)}.\n"
         f"Definition PNGH_NAME : list N := {asc(pngh_name)}.\n"
         f"Definition PNGH_LEN : N := {pngh_len}.\n"
         f"Definition HAS_LENGTH : list (N * N) := {coq_list(['(%d, %d)' % r for r in hl])}.\n"
         f"Definition IN_ENTROPY : list (N * N) := {coq_list(['(%d, %d)' % r for r in ie])}.\n"
         f"Definition MARKER_P : N := {mk['P']}.\n"
         f"Definition C2PA_MARKER : list N := {coq_bytes(bytes(c2pa_marker))[:-2]}.\n"
         f"Definition SEGMENT_NAMES : list (N * list N) := {coq_list(['(%d, %s)' % (int(h, 16), asc(n)) for h, n in names])}.\n"
         f"Definition NAME_SOI : list N := {asc('SOI')}.\nDefinition NAME_EOI : list N := {asc('EOI')}.\n"
         f"Definition NAME_APP0 : list N := {asc('APP0')}.\nDefinition NAME_DQT : list N := {asc('DQT')}.\n"
         f"Definition NAME_DHT : list N := {asc('DHT')}.\nDefinition NAME_DAC : list N := {asc('DAC')}.\n"
         f"Definition NAME_SOS : list N := {asc('SOS')}.\nDefinition NAME_DRI : list N := {asc('DRI')}.\n"
         f"Definition NAME_COM : list N := {asc('COM')}.\nDefinition NAME_RST : list N := {asc('RST')}.\n")
    common.write_if_changed(os.path.join(common.COQ, "Generated", "C12_facts.v"), v)
    ctx.facts = {"names": {int(h, 16): n for h, n in names}, "has_length": hl, "in_entropy": ie}
