"""C28 — no network access unless the configuration enables it."""
import json, os, re
from .. import common
from ..common import TieBroken
from . import _par

PROP_FILE = "Properties/C28.v"
TRUSTED = ["requests are observed through Context::with_resolver (recording resolver) and, for the signer's time-stamp URL "
           "(which the SDK contacts with a fresh default Context), through a listener on 127.0.0.1; a request to a hard-coded "
           "address through a fresh default resolver would be invisible (none exists in the source: srcfacts counts the http_resolve sites)",
           "asset kinds are represented by fixtures (CA.jpg, legacy.mp4 = OCSP responder named / nothing stapled, ocsp.jpg = two manifests with stapled but unusable responses); no fixture carries a usable stapled response, so the kind AEmbeddedStapled is covered by the theorems and the source tie only "
           "and by assets built with set_remote_url / set_no_embed"]
ASSUMPTIONS = ["crate features as built by the harness: default + file_io + fetch_remote_manifests (via c2pa-c-ffi) + add_thumbnails",
               "CAWG identity / did:web resolution and remote (settings) signers are outside this property's settings list and are not exercised"]

URL = "http://example.com/verif/m.c2pa"
CLOUD_URL = "https://cai-manifests.adobe.com/manifests/adobe-urn-uuid-5f37e182-3687-462e-a7fb-573462780391"

KINDS = {
    "AEmbedded": {"kind": "fixture", "name": "CA.jpg", "format": "image/jpeg"},
    "ARemoteOnly": {"kind": "built", "remote_url": URL, "no_embed": True, "format": "image/jpeg"},
    "ARemoteEmbedded": {"kind": "built", "remote_url": URL, "no_embed": False, "format": "image/jpeg"},
    "ANone": {"kind": "fixture", "name": "no_manifest.jpg", "format": "image/jpeg"},
    "AEmbeddedAia": {"kind": "fixture", "name": "legacy.mp4", "format": "video/mp4"},
    "AEmbeddedStapledUnusable": {"kind": "fixture", "name": "ocsp.jpg", "format": "image/jpeg"},
    "ARemoteOnlyAia": {"kind": "fixture", "name": "cloud.jpg", "format": "image/jpeg", "url": CLOUD_URL, "sidecar": "cloud_manifest.c2pa"},
}
# further representatives of the same kinds (thorough tier and corpus)
EXTRA = [
    ("ARemoteOnly", {"kind": "fixture", "name": "libpng-test_with_url.png", "format": "image/png", "url": "http://localhost:5000/libpng-test.c2pa"}),
    ("AEmbedded", {"kind": "fixture", "name": "video1.mp4", "format": "video/mp4"}),
    ("AEmbedded", {"kind": "fixture", "name": "CACA.jpg", "format": "image/jpeg"}),
    ("ANone", {"kind": "fixture", "name": "libpng-test.png", "format": "image/png"}),
]


def facts(ctx):
    """tie: the gating conditions and the set of places that can make a request"""
    st = common.strip_tests(common.src("sdk/src/store.rs"))
    body = common.fn_body(st, r"fn\s+handle_remote_manifest\s*\(", "handle_remote_manifest")
    if not re.search(r"settings\(\)\.verify\.remote_manifest_fetch", body) or "Error::RemoteManifestUrl(ext_ref.to_owned())" not in body:
        raise TieBroken("srcfacts: handle_remote_manifest no longer gates on verify.remote_manifest_fetch / RemoteManifestUrl(ext_ref)")
    lj = common.fn_body(st, r"pub fn\s+load_jumbf_from_stream\s*\(", "Store::load_jumbf_from_stream")
    if not re.search(r"Ok\(manifest_bytes\)\s*=>\s*Ok\(\(manifest_bytes,\s*None\)\)", lj) or "Err(Error::JumbfNotFound)" not in lj:
        raise TieBroken("srcfacts: load_jumbf_from_stream no longer prefers the embedded manifest / looks at XMP only on JumbfNotFound")
    cl = common.strip_tests(common.src("sdk/src/claim.rs"))
    m = re.search(r"let fetch_policy = if context\.settings\(\)\.verify\.ocsp_fetch \{\s*OcspFetchPolicy::FetchAllowed\s*\} else \{\s*OcspFetchPolicy::DoNotFetch", cl)
    if not m:
        raise TieBroken("srcfacts: claim.rs check_ocsp_status no longer derives OcspFetchPolicy from verify.ocsp_fetch")
    oc = common.strip_tests(common.src("sdk/src/crypto/cose/ocsp.rs"))
    body = common.fn_body(oc, r"pub fn\s+check_ocsp_status\s*\(", "cose check_ocsp_status")
    # stapled response first; it returns only when usable and conclusive, otherwise falls through to the fetch policy
    m1 = re.search(r"if let Some\(ocsp_response_der\) = get_ocsp_der\(sign1\)\s*\{", body)
    m2 = re.search(r"match fetch_policy\s*\{\s*OcspFetchPolicy::FetchAllowed\s*=>", body)
    if not m1 or not m2 or m2.start() < m1.start():
        raise TieBroken("srcfacts: cose check_ocsp_status: stapled-first / fall-through / FetchAllowed structure changed")
    staple = body[m1.start():m2.start()]
    rets = re.findall(r"return\s+(Ok|Err)\(", staple)
    if rets != ["Err", "Ok"] or "if let Ok(ocsp_response) = result" not in staple \
            or "SIGNING_CREDENTIAL_REVOKED" not in staple or "SIGNING_CREDENTIAL_NOT_REVOKED" not in staple:
        raise TieBroken(f"srcfacts: cose check_ocsp_status: the stapled block no longer returns exactly on revoked / not revoked ({rets})")
    cm = common.fn_body(cl, r"pub fn\s+has_ocsp_vals\s*\(", "Claim::has_ocsp_vals")
    if "get_ocsp_der(&sign1).is_some()" not in cm:
        raise TieBroken("srcfacts: Claim::has_ocsp_vals no longer tests the presence of a stapled response")
    lab = common.fn_body(st, r"pub fn\s+get_manifest_labels_for_ocsp\s*\(", "get_manifest_labels_for_ocsp")
    if "settings.builder.certificate_status_fetch" not in lab or "certificate_status_should_override" not in lab:
        raise TieBroken("srcfacts: get_manifest_labels_for_ocsp no longer gated by builder.certificate_status_fetch")
    sg = common.strip_tests(common.src("sdk/src/signer.rs"))
    if not re.search(r"fn send_timestamp_request\(&self, message: &\[u8\]\) -> Option<Result<Vec<u8>>> \{\s*if let Some\(url\) = self\.time_authority_url\(\)", sg):
        raise TieBroken("srcfacts: Signer::send_timestamp_request is no longer conditional on time_authority_url()")
    # the places that can make a request
    sites = {}
    for root, _, fs in os.walk(os.path.join(common.REPO, "sdk", "src")):
        for fn in fs:
            if fn.endswith(".rs"):
                p = os.path.join(root, fn)
                rel = os.path.relpath(p, common.REPO)
                if rel.startswith("sdk/src/http/"):
                    continue
                t = common.strip_tests(open(p, encoding="utf-8", errors="replace").read())
                t = re.sub(r"//[^\n]*", "", t)
                n = len(re.findall(r"\.http_resolve(?:_async)?\(", t))
                if n:
                    sites[rel] = n
    want = {"sdk/src/store.rs": 2, "sdk/src/crypto/ocsp/fetch.rs": 2, "sdk/src/crypto/time_stamp/http_request.rs": 2,
            "sdk/src/settings/signer.rs": 1, "sdk/src/identity/claim_aggregation/w3c_vc/did_web.rs": 2}
    if sites != want:
        raise TieBroken(f"srcfacts: the set of http_resolve call sites changed: {sites} (modelled: {want})")
    ctx.facts = {"http_resolve_sites": sites}


# ------------------------------------------------------------------ cases

ATS_DEFAULT = [0, 1, 0]          # auto_timestamp_assertion: enabled=false, skip_existing=true, fetch_scope="all"


def settings_of(c):
    c = list(c) + ATS_DEFAULT[len(c) - 3:] if len(c) < 6 else list(c)
    s = {"verify": {"remote_manifest_fetch": bool(c[0]), "ocsp_fetch": bool(c[1])},
         "builder": {"thumbnail": {"enabled": False},       # thumbnails make no request and cost seconds in a debug build
                     "auto_timestamp_assertion": {"enabled": bool(c[3]), "skip_existing": bool(c[4]),
                                                  "fetch_scope": "parent" if c[5] else "all"}}}
    if c[2]:
        s["builder"].update({"certificate_status_fetch": "all", "certificate_status_should_override": False})
    return s


def mk(op, tsa, k, a, cfg, serve=True):
    cfg = list(cfg) + ATS_DEFAULT[len(cfg) - 3:] if len(cfg) < 6 else list(cfg)
    return {"op": op, "akind": k, "asset": a, "cfg": cfg, "settings": settings_of(cfg), "tsa": tsa,
            "with_ingredient": op == "sign", "serve_manifest": serve}


ATS_ALL = [[e, s, p] for e in (0, 1) for s in (0, 1) for p in (0, 1)]


def cube(thorough=False):
    out = []
    # settings(remote_manifest_fetch, ocsp_fetch, certificate_status_fetch) x kind x operation, auto time-stamping at its defaults
    for rm in (0, 1):
        for oc in (0, 1):
            for cs in (0, 1):
                for k, a in KINDS.items():
                    for op, tsa in (("read", False), ("ingredient", False), ("sign", False), ("sign", True)):
                        out.append(mk(op, tsa, k, a, [rm, oc, cs]))
    # auto_timestamp_assertion (enabled x skip_existing x fetch_scope) x kind, importing the asset as parent and signing
    # with a signer that names a TSA (and, for enabled, one that does not)
    bases = [[rm, oc, cs] for rm in (0, 1) for oc in (0, 1) for cs in (0, 1)] if thorough else [[1, 0, 0]]
    for base in bases:
        for ats in ATS_ALL:
            if ats == ATS_DEFAULT:
                continue
            for k, a in KINDS.items():
                out.append(mk("sign", True, k, a, base + ats))
                if ats[0] and (thorough or ats[1] == 0):
                    out.append(mk("sign", False, k, a, base + ats))
    return out


def extra_cases(rng, n):
    out = []
    for _ in range(n):
        k, a = rng.choice(EXTRA)
        c = [rng.randrange(2) for _ in range(6)]
        op, tsa = rng.choice([("read", False), ("ingredient", False), ("sign", False), ("sign", True)])
        out.append(mk(op, tsa, k, a, c, serve=False))
    # resolver answers 404 for the built remote-only asset
    for c in ([1, 0, 0], [1, 1, 1]):
        for op in ("read", "ingredient"):
            out.append(mk(op, False, "ARemoteOnly", KINDS["ARemoteOnly"], c, serve=False))
    return out


def corpus():
    p = os.path.join(common.VERIF, "corpus", "C28.jsonl")
    if not os.path.exists(p):
        return []
    return [json.loads(l) for l in open(p) if l.strip()]


def asset_url(a):
    return a.get("remote_url") or a.get("url")


def classify(case, q):
    u = q["url"]
    if q["via"] == "tsa-listener":
        return "tsa"
    if q["method"] == "POST" and case.get("tsa") and "/tsa" in u and u.startswith("http://127.0.0.1:"):
        return "tsa_ing"       # RFC 3161 request to the signer's TSA URL made through the Context's resolver (Builder)
    if asset_url(case["asset"]) and u == asset_url(case["asset"]):
        return "manifest"
    if q["method"] == "GET" and re.search(r"/M[A-Za-z0-9+/=%]{40,}$", u):     # responder URL + base64(DER OCSPRequest)
        return "ocsp"
    return "unknown"


OPK = {"read": "OpRead", "ingredient": "OpIngredient", "sign": "OpSign"}


def model_expr(c):
    cfg = list(c["cfg"]) + ATS_DEFAULT[len(c["cfg"]) - 3:] if len(c["cfg"]) < 6 else c["cfg"]
    cf = "C " + " ".join("true" if x else "false" for x in cfg)
    return (f"show (requests ({cf}) (A {c['akind']} 7) {'STsa' if c['tsa'] else 'SNoTsa'} {OPK[c['op']]} "
            f"{'true' if c['serve_manifest'] else 'false'})")


def impl_outcome(case, r):
    if r["r"] == "ok":
        return "OOk"
    k = r.get("kind")
    if k == "RemoteManifestUrl":
        return ["OErrRemoteUrl", r.get("detail")]
    return {"JumbfNotFound": "OErrNoJumbf", "RemoteManifestFetch": "OErrFetch", "TimeStampError": "OErrTsa", "OtherError": "OErrTsaIng"}.get(k, "Err:" + str(k))


def evaluate(ctx, cases, with_model=True):
    impl = _par.run_harness("c28", cases)
    model = None
    if with_model:
        model = common.coq_eval("C28", "From C2PA Require Import Model.NetGate.\nFrom Coq Require Import NArith List.\nImport ListNotations.\nOpen Scope N_scope.",
                                [model_expr(c) for c in cases], shard_size=100)
    stats = {"by_op": {}, "by_kind": {}, "requests": {"manifest": 0, "ocsp": 0, "tsa": 0, "tsa_ing": 0, "unknown": 0}, "silent_cases": 0,
             "outcomes": {}}
    KN = {0: "manifest", 1: "ocsp", 2: "tsa", 3: "tsa_ing"}
    for idx, c in enumerate(cases):
        r = impl[c["id"]]
        stats["by_op"][c["op"]] = stats["by_op"].get(c["op"], 0) + 1
        stats["by_kind"][c["akind"]] = stats["by_kind"].get(c["akind"], 0) + 1
        mi = dict(c)
        if r["r"] in ("panic", "crash"):
            ctx.report_violation(c, f"harness failed: {r.get('msg')}", mi)
            continue
        kinds = [classify(c, q) for q in r["requests"]]
        for k in kinds:
            stats["requests"][k] += 1
        if not kinds:
            stats["silent_cases"] += 1
        oc = impl_outcome(c, r)
        key = oc if isinstance(oc, str) else oc[0]
        stats["outcomes"][key] = stats["outcomes"].get(key, 0) + 1
        rm, ocf, csf = c["cfg"][:3]
        ats_enabled = bool(c["cfg"][3]) if len(c["cfg"]) > 3 else False
        # ---- oracle: the property text, on the implementation alone
        urls = [q["url"][:120] for q in r["requests"]]
        if "unknown" in kinds:
            ctx.report_violation(c, f"request to an address no setting asks for: {urls}", mi)
        if "manifest" in kinds and not rm:
            ctx.report_violation(c, f"remote manifest requested with verify.remote_manifest_fetch=false: {urls}", mi)
        if "manifest" in kinds and c["akind"] not in ("ARemoteOnly", "ARemoteOnlyAia"):
            ctx.report_violation(c, f"remote manifest requested although the asset has an embedded manifest / no reference: {urls}", mi)
        if "ocsp" in kinds and not (ocf or csf):
            ctx.report_violation(c, f"OCSP request with verify.ocsp_fetch=false and no certificate_status_fetch: {urls}", mi)
        if "tsa_ing" in kinds and not (ats_enabled and c["tsa"]):
            ctx.report_violation(c, f"time-stamp request for an ingredient manifest although builder.auto_timestamp_assertion.enabled="
                                    f"{ats_enabled} / signer TSA URL={c['tsa']}: {urls}", mi)
        if "tsa" in kinds and not c["tsa"]:
            ctx.report_violation(c, f"time-stamp request although the signer has no TSA URL: {urls}", mi)
        if c["op"] == "read" and c["akind"] in ("ARemoteOnly", "ARemoteOnlyAia") and not rm:
            if not (r["r"] == "err" and r.get("kind") == "RemoteManifestUrl" and r.get("detail") == asset_url(c["asset"])):
                ctx.report_violation(c, f"remote-only asset with fetching disabled did not yield RemoteManifestUrl({asset_url(c['asset'])}): "
                                        f"{r['r']} {r.get('kind')} {r.get('detail')}", mi)
        # ---- correspondence
        if model is not None:
            mreqs, mout = model[idx]
            mk = [KN[x] for x in mreqs]
            if isinstance(mout, list):       # ["OErrRemoteUrl", 7]
                mout = ["OErrRemoteUrl", asset_url(c["asset"])]
            skip_out = mout == "OUnmodelled"
            if mk != kinds or (not skip_out and mout != oc):
                ctx.disagreements.append({"case": c, "impl": [kinds, oc], "model": [mk, mout]})
    return stats


def run(ctx):
    if not getattr(ctx, "no_build", False):
        common.build_harness()
    if ctx.replay:
        cases = [ctx.replay["case"]] if "case" in ctx.replay else [d["case"] for d in ctx.replay.get("disagreements", [])]
    else:
        cases = corpus() + cube(thorough=not ctx.quick()) + extra_cases(ctx.rng, 24 if ctx.quick() else 160)
    for i, c in enumerate(cases):
        c["id"] = i
    stats = evaluate(ctx, cases)
    ctx.coverage.update({
        "evaluations": len(cases),
        "distinct_nontrivial": len(set((c["op"], c["akind"], tuple(c["cfg"]), c["tsa"], c["serve_manifest"], c["asset"].get("name")) for c in cases
                                       if any(c["cfg"][:4]) or c["tsa"] or c["akind"] in ("ARemoteOnly", "ARemoteEmbedded"))),
        "rule": "the whole cube settings(remote_manifest_fetch, ocsp_fetch, certificate_status_fetch) x 7 exercisable asset kinds x "
                "{read, ingredient import, import+sign without TSA, import+sign with TSA URL} (224 points) + builder.auto_timestamp_assertion "
                "(enabled x skip_existing x fetch_scope) x kind for import-as-parent + sign with / without TSA URL (ingredient manifests with and "
                "without an existing time stamp; thorough: x all 8 base settings) + seeded other representatives "
                "of the kinds and a resolver answering 404; non-trivial = some setting on, a TSA URL, or a remote reference present",
        "distribution": stats,
        "traces_validated_against_impl": len(cases),
        "samples": [{k: v for k, v in c.items() if k != "settings"} for c in cases[:2] + cases[len(cases) // 2: len(cases) // 2 + 2]],
    })


def search(ctx):
    common.build_harness()
    cases = cube(thorough=True) + extra_cases(ctx.rng, 300)
    for i, c in enumerate(cases):
        c["id"] = i
    evaluate(ctx, cases, with_model=False)
    ctx.coverage["search_evaluations"] = len(cases)
