"""Shared pieces of the C26 / C27 checks (sdk/src/http/restricted.rs): source facts, case encoding for the
Coq model (Model/HostPattern.v, Model/IpClass.v, Model/Resolvers.v), result decoding, independent classifiers."""
import ipaddress, os, re
from .. import common
from ..common import TieBroken, coq_list

RESTRICTED = "sdk/src/http/restricted.rs"
CONTEXT = "sdk/src/context.rs"

IMPORTS = ("From C2PA Require Import Base.Bytes Model.HostPattern Model.IpPreds Model.IpClass Model.Resolvers.\n"
           "From Coq Require Import NArith List.\nImport ListNotations.\nOpen Scope N_scope.")


# ------------------------------------------------------------------------------------------------ source facts

def _nocomment(t):
    return re.sub(r"//[^\n]*", "", t)


V4_STD = {"is_unspecified": "P4_unspecified", "is_loopback": "P4_loopback", "is_private": "P4_private",
          "is_link_local": "P4_link_local", "is_broadcast": "P4_broadcast", "is_documentation": "P4_documentation",
          "is_multicast": "P4_multicast"}
V6_STD = {"is_unspecified": "P6_unspecified", "is_loopback": "P6_loopback", "is_multicast": "P6_multicast"}


def _disjuncts(expr, what):
    expr = expr.strip()
    parts, depth, cur = [], 0, ""
    i = 0
    while i < len(expr):
        c = expr[i]
        if c == "(":
            depth += 1
        elif c == ")":
            depth -= 1
        if depth == 0 and expr[i:i + 2] == "||":
            parts.append(cur.strip())
            cur = ""
            i += 2
            continue
        cur += c
        i += 1
    parts.append(cur.strip())
    if not all(parts):
        raise TieBroken(f"srcfacts: cannot split {what} into disjuncts")
    return parts


def _v4_term(d):
    m = re.fullmatch(r"ip\.(is_\w+)\(\)", d)
    if m:
        if m.group(1) not in V4_STD:
            raise TieBroken(f"srcfacts: ipv4_is_non_global uses an Ipv4Addr predicate the model does not know: {m.group(1)}")
        return f"T4_std {V4_STD[m.group(1)]}"
    m = re.fullmatch(r"a\s*==\s*(\w+)", d)
    if m:
        return f"T4_a_eq {common.rust_int(m.group(1))}"
    m = re.fullmatch(r"\(\s*a\s*==\s*(\w+)\s*&&\s*\(\s*b\s*&\s*(\w+)\s*\)\s*==\s*(\w+)\s*\)", d)
    if m:
        return "T4_a_eq_b_mask %d %d %d" % tuple(common.rust_int(x) for x in m.groups())
    raise TieBroken(f"srcfacts: unrecognised disjunct in ipv4_is_non_global: {d!r}")


def _v6_term(d):
    m = re.fullmatch(r"ip\.(is_\w+)\(\)", d)
    if m:
        if m.group(1) not in V6_STD:
            raise TieBroken(f"srcfacts: ipv6_is_non_global uses an Ipv6Addr predicate the model does not know: {m.group(1)}")
        return f"T6_std {V6_STD[m.group(1)]}"
    m = re.fullmatch(r"\(\s*segments\[0\]\s*&\s*(\w+)\s*\)\s*==\s*(\w+)", d)
    if m:
        return "T6_seg0_mask %d %d" % tuple(common.rust_int(x) for x in m.groups())
    raise TieBroken(f"srcfacts: unrecognised disjunct in ipv6_is_non_global: {d!r}")


def _stack_layers(body, what):
    """layers (outermost first) of the Some / None arms of build_default_*_resolver"""
    m = re.search(r"if\s+let\s+Some\(allowed_hosts\)\s*=\s*core\.allowed_network_hosts\.clone\(\)\s*\{(.*?)\}\s*else\s*\{(.*?)\}",
                  body, re.S)
    if m:
        arms = list(m.groups())
    else:
        # no split on the setting: one stack for both cases (a RestrictedResolver without a list lets everything through)
        inner = body.strip()
        inner = inner[1:-1] if inner.startswith("{") and inner.endswith("}") else inner
        arms = [inner, inner]
    out = []
    for arm in arms:
        arm = _nocomment(arm)
        lets = dict(re.findall(r"let\s+(?:mut\s+)?(\w+)\s*=\s*([^;]+);", arm))
        lets = {k: v for k, v in lets.items() if k != "core"}
        r = re.search(r"Arc::new\((.*)\)\s*$", arm.strip(), re.S)
        if not r:
            raise TieBroken(f"srcfacts: {what}: arm does not end in Arc::new(..)")
        e = r.group(1)
        for _ in range(4):
            for k, v in lets.items():
                e = re.sub(rf"\b{k}\b", lambda _m: v, e)
        layers = []
        for name in re.findall(r"\b(\w+)::new\(", e):
            if name == "RedirectResolver":
                layers.append("LRedirect")
            elif name == "RestrictedResolver":
                layers.append("LRestricted")
            elif name in ("SyncGenericResolver", "AsyncGenericResolver"):
                pass
            else:
                raise TieBroken(f"srcfacts: {what}: unknown wrapper {name}")
        if "LRedirect" in layers and "core.allow_redirects" not in e:
            raise TieBroken(f"srcfacts: {what}: RedirectResolver no longer receives core.allow_redirects")
        if "LRestricted" in layers and not re.search(
                r"set_allowed_hosts\(\s*(Some\(allowed_hosts\)|core\.allowed_network_hosts\.clone\(\))\s*\)", arm):
            raise TieBroken(f"srcfacts: {what}: the allow-list is no longer installed with set_allowed_hosts(..)")
        if not re.search(r"\b(client|SyncGenericResolver|AsyncGenericResolver)\b", e):
            raise TieBroken(f"srcfacts: {what}: innermost resolver is not the generic client")
        out.append(layers)
    return out


def gen_facts():
    """regenerate Generated/C27_facts.v and Generated/C26_facts.v; returns a dict of the facts"""
    t = common.strip_tests(common.src(RESTRICTED))
    m = common.fact(r"const\s+MAX_REDIRECTS\s*:\s*usize\s*=\s*([^;]+);", t, "MAX_REDIRECTS")
    max_redirects = common.rust_int(m.group(1))
    nloops = len(re.findall(r"for\s+_\s+in\s+0\s*\.\.=\s*MAX_REDIRECTS\s*\{", t))
    if nloops != 2:
        raise TieBroken(f"srcfacts: expected the two redirect loops `for _ in 0..=MAX_REDIRECTS`, found {nloops}")
    # header filter
    body = _nocomment(common.fn_body(t, r"fn\s+build_redirected_request\s*\(", "build_redirected_request"))
    m = common.fact(r"let\s+drop\s*=\s*([^;]+);", body, "dropped-header expression")
    names = []
    for d in _disjuncts(m.group(1), "dropped-header expression"):
        mm = re.fullmatch(r"name\s*==\s*http::header::([A-Z_]+)", d)
        if not mm:
            raise TieBroken(f"srcfacts: unrecognised disjunct in build_redirected_request: {d!r}")
        names.append(mm.group(1).lower().replace("_", "-"))
    if not re.search(r"if\s+!drop\s*\{\s*builder\s*=\s*builder\.header\(name,\s*value\);", body):
        raise TieBroken("srcfacts: build_redirected_request no longer copies exactly the non-dropped headers")
    # IPv4
    body = _nocomment(common.fn_body(t, r"fn\s+ipv4_is_non_global\s*\(", "ipv4_is_non_global"))
    m = common.fact(r"let\s+\[a,\s*b,\s*\.\.\]\s*=\s*ip\.octets\(\);(.*)\}\s*$", body, "ipv4_is_non_global expression")
    v4 = [_v4_term(d) for d in _disjuncts(m.group(1), "ipv4_is_non_global")]
    # IPv6
    body = _nocomment(common.fn_body(t, r"fn\s+ipv6_is_non_global\s*\(", "ipv6_is_non_global"))
    unwraps = bool(re.search(r"if\s+let\s+Some\(v4\)\s*=\s*ip\.to_ipv4_mapped\(\)\s*\{\s*return\s+ipv4_is_non_global\(v4\);\s*\}", body))
    m = common.fact(r"let\s+segments\s*=\s*ip\.segments\(\);(.*)\}\s*$", body, "ipv6_is_non_global expression")
    v6 = [_v6_term(d) for d in _disjuncts(m.group(1), "ipv6_is_non_global")]
    # anchors of host_is_non_global / redirect_target that the model transcribes
    body = _nocomment(common.fn_body(t, r"fn\s+host_is_non_global\s*\(", "host_is_non_global"))
    if not re.search(r'host\s*==\s*"localhost"\s*\|\|\s*host\.ends_with\("\.localhost"\)', body):
        raise TieBroken("srcfacts: host_is_non_global: the localhost test changed")
    v = ("(* generated from sdk/src/http/restricted.rs on every run — do not edit *)\n"
         "From Coq Require Import NArith List.\nFrom C2PA Require Import Model.IpPreds.\nImport ListNotations.\nOpen Scope N_scope.\n"
         f"Definition MAX_REDIRECTS : nat := {max_redirects}.\n"
         "(* header names dropped by build_redirected_request (http::header constants, canonical lower case) *)\n"
         "Definition dropped_headers : list (list N) := " + coq_list(["[" + ";".join(str(b) for b in n.encode()) + "]" for n in names]) + ".\n"
         "(* disjuncts of ipv4_is_non_global, in source order *)\n"
         "Definition v4_terms : list v4term := " + coq_list(v4) + ".\n"
         "(* ipv6_is_non_global: mapped addresses are unwrapped first; then the disjuncts, in source order *)\n"
         f"Definition v6_unwraps_mapped : bool := {'true' if unwraps else 'false'}.\n"
         "Definition v6_terms : list v6term := " + coq_list(v6) + ".\n")
    common.write_if_changed(os.path.join(common.COQ, "Generated", "C27_facts.v"), v)
    # stack order
    c = common.src(CONTEXT)
    sync = _stack_layers(common.fn_body(c, r"fn\s+build_default_sync_resolver\s*\(", "build_default_sync_resolver"), "build_default_sync_resolver")
    asyn = _stack_layers(common.fn_body(c, r"fn\s+build_default_async_resolver\s*\(", "build_default_async_resolver"), "build_default_async_resolver")
    v = ("(* generated from sdk/src/context.rs on every run — do not edit *)\n"
         "From Coq Require Import List.\nFrom C2PA Require Import Model.StackLayers.\nImport ListNotations.\n"
         "(* wrappers around the HTTP client, outermost first, read separately from build_default_sync_resolver and\n"
         "   build_default_async_resolver; [with] = core.allowed_network_hosts is set *)\n"
         "Definition sync_layers_with_allow_list : list layer := " + coq_list(sync[0]) + ".\n"
         "Definition sync_layers_without_allow_list : list layer := " + coq_list(sync[1]) + ".\n"
         "Definition async_layers_with_allow_list : list layer := " + coq_list(asyn[0]) + ".\n"
         "Definition async_layers_without_allow_list : list layer := " + coq_list(asyn[1]) + ".\n")
    common.write_if_changed(os.path.join(common.COQ, "Generated", "C26_facts.v"), v)
    return {"MAX_REDIRECTS": max_redirects, "dropped_headers": names, "v4_terms": v4, "v6_terms": v6,
            "v6_unwraps_mapped": unwraps, "layers_sync": sync, "layers_async": asyn}


# ------------------------------------------------------------------------------------------------ Coq encoding

def cb(b):
    if isinstance(b, str):
        b = b.encode("utf-8")
    return "[" + ";".join(str(x) for x in b) + "]"


def copt(s):
    return "None" if s is None else f"(Some {cb(s)})"


def header_iter_order(headers):
    """http::HeaderMap::iter order: names in first-insertion order, the values of one name together"""
    order, groups = [], {}
    for n, vhex in headers:
        k = n.lower()
        if k not in groups:
            groups[k] = []
            order.append(k)
        groups[k].append(vhex)
    return [[k, v] for k in order for v in groups[k]]


def chain_model_expr(case, impl):
    """the model run on the same case; the URI components and the joins are the observed ones"""
    ids = {}

    def uid(u):
        return ids.setdefault(u["uri"], len(ids))

    def ouri(u):
        return f"(OUri {uid(u)} {copt(u['scheme'])} {copt(u['host'])} {copt(u['port'])})"

    start = impl["start"]
    uid(start)
    tbl = []
    for j in impl["joins"]:
        base = impl["trace"][j["hop"]]
        t = j["target"]
        tbl.append(f"({uid(base)}, {cb(bytes.fromhex(j['loc']))}, {'None' if 'err' in t else '(Some ' + ouri(t) + ')'})")
    allowed = "None" if case["allowed"] is None else "(Some " + coq_list([cb(p) for p in case["allowed"]]) + ")"
    hs = coq_list([f"({cb(n)}, {cb(bytes.fromhex(v))})" for n, v in header_iter_order(case.get("headers") or [])])
    script = coq_list(["(inr ETransport)" if isinstance(s, str) else
                       f"(inl (Resp {s[0]} {'None' if s[1] is None else '(Some ' + cb(bytes.fromhex(s[1])) + ')'}))"
                       for s in case["script"]])
    expr = (f"run_stack {coq_list(tbl)} {allowed} {'true' if case['allow_redirects'] else 'false'} {ouri(start)} "
            f"{cb(case.get('method') or 'GET')} {hs} {cb(bytes.fromhex(case.get('body') or ''))} {script}")
    return expr, ids


ERR = {"UriDisallowed": "EUriDisallowed", "RedirectDisallowed": "ERedirectDisallowed",
       "RedirectTargetDisallowed": "ERedirectTargetDisallowed", "TooManyRedirects": "ETooManyRedirects",
       "Other": "EJoin", "Http": "EJoin", "SyncHttpResolverNotImplemented": "ETransport"}


def _lst(x):
    """parse_coq_term gives [] for nil and python lists for lists"""
    return x if isinstance(x, list) else [x]


def chain_compare(case, impl, model, ids):
    """canonical (impl, model) pair for one chain case; equal iff they agree"""
    itrace = [(ids.get(q["uri"], -1), q["method"].encode(), [(n.encode(), bytes.fromhex(v)) for n, v in q["headers"]],
               bytes.fromhex(q["body"])) for q in impl["trace"]]
    iout = ("ok", impl["status"]) if impl["r"] == "ok" else ("err", ERR.get(impl["kind"], impl["kind"]))
    mtrace_raw, mout_raw = model
    mtrace = []
    for q in mtrace_raw:
        i, meth, hs, body = q
        mtrace.append((i, bytes(meth), [(bytes(n), bytes(v)) for n, v in hs], bytes(body)))
    if mout_raw[0] == "inl":
        mout = ("ok", mout_raw[1])
    else:
        mout = ("err", mout_raw[1])
    return (itrace, iout), (mtrace, mout)


# ------------------------------------------------------------------------------------------------ independent classifiers

V4_BLOCKS = [ipaddress.ip_network(n) for n in
             ("10.0.0.0/8", "172.16.0.0/12", "192.168.0.0/16",        # private
              "100.64.0.0/10",                                          # shared address space
              "192.0.2.0/24", "198.51.100.0/24", "203.0.113.0/24")]     # documentation
V6_ULA = ipaddress.ip_network("fc00::/7")


def ip_must_block(ip):
    """the classes named in the C27 statement, decided with the ipaddress module"""
    if isinstance(ip, ipaddress.IPv6Address):
        if ip.ipv4_mapped is not None:
            return ip_must_block(ip.ipv4_mapped)
        if ip.is_loopback or ip.is_link_local or ip.is_unspecified or ip.is_multicast or ip in V6_ULA:
            return "v6:" + ("loopback" if ip.is_loopback else "link-local" if ip.is_link_local else
                            "unspecified" if ip.is_unspecified else "multicast" if ip.is_multicast else "unique-local")
        return None
    if ip.is_loopback:
        return "loopback"
    if ip.is_link_local:
        return "link-local"
    if ip.is_unspecified:
        return "unspecified"
    if ip.is_multicast:
        return "multicast"
    if ip == ipaddress.IPv4Address("255.255.255.255"):
        return "broadcast"
    for n in V4_BLOCKS:
        if ip in n:
            return str(n)
    return None


def whatwg_ipv4(host):
    """the WHATWG URL IPv4 parser (the notations 'the URL parser accepts'): 1-4 parts, each decimal / 0-octal /
    0x-hex, the last part filling the remaining bytes; one trailing dot allowed.  None when not such a literal."""
    parts = host.split(".")
    if parts and parts[-1] == "" and len(parts) > 1:
        parts = parts[:-1]
    if not 1 <= len(parts) <= 4:
        return None
    nums = []
    for p in parts:
        if p == "":
            return None
        try:
            if p[:2] in ("0x", "0X"):
                v = 0 if p[2:] == "" else int(p[2:], 16) if re.fullmatch(r"[0-9a-fA-F]+", p[2:]) else None
            elif len(p) > 1 and p[0] == "0":
                v = int(p[1:], 8) if re.fullmatch(r"[0-7]+", p[1:]) else None
            else:
                v = int(p) if re.fullmatch(r"[0-9]+", p) else None
        except ValueError:
            v = None
        if v is None:
            return None
        nums.append(v)
    if any(v > 255 for v in nums[:-1]) or nums[-1] >= 256 ** (5 - len(nums)):
        return None
    val = nums[-1]
    for i, v in enumerate(nums[:-1]):
        val += v * 256 ** (3 - i)
    return ipaddress.IPv4Address(val)


def host_must_block(host):
    """independent reading of the C27 statement for a host string as the transport would see it.
    returns a reason string when the host is one the SDK must never be redirected to, else None"""
    if host is None:
        return None
    h = host
    if h.startswith("[") and h.endswith("]"):
        h = h[1:-1]
        try:
            return ip_must_block(ipaddress.IPv6Address(h.split("%")[0])) if "%" not in h else None
        except ValueError:
            return None
    if h.endswith("."):
        h = h[:-1]
    hl = h.lower()
    if hl == "localhost" or hl.endswith(".localhost"):
        return "localhost name"
    try:
        return ip_must_block(ipaddress.ip_address(hl))
    except ValueError:
        pass
    ip = whatwg_ipv4(hl)
    if ip is not None:
        r = ip_must_block(ip)
        return ("non-canonical IPv4 notation of " + str(ip) + ": " + r) if r else None
    return None
