"""Facts regenerated from the certificate-profile / trust-policy sources, shared by C05 and C06.
Writes coq/Generated/C06_facts.v (profile constants) and coq/Generated/C05_facts.v (trust constants)."""
import os, re
from .. import common
from ..common import TieBroken

PROFILE = "sdk/src/crypto/cose/certificate_profile.rs"
POLICY = "sdk/src/crypto/cose/certificate_trust_policy.rs"
OPENSSL_TRUST = "sdk/src/crypto/cose/certificate_trust/openssl.rs"
VERIFIER = "sdk/src/crypto/cose/verifier.rs"
COSE_VALIDATOR = "sdk/src/cose_validator.rs"
RESULTS = "sdk/src/validation_results.rs"
EKU_CFG = "sdk/src/crypto/cose/valid_eku_oids.cfg"


def coq_oid(arcs):
    return "[" + "; ".join(str(a) for a in arcs) + "]"


def oid_consts(text):
    """NAME -> arcs for every `const NAME: Oid<'static> = oid!(a.b .c ...)`"""
    out = {}
    for m in re.finditer(r"(?:const|static)\s+(\w+)\s*:\s*Oid<'static>\s*=\s*oid!\(([^)]*)\)", text):
        out[m.group(1)] = [int(x) for x in re.findall(r"\d+", m.group(2))]
    return out



# ------------------------------------------------------------------ tolerant extraction
# A fact that can no longer be read is *reported* (write() raises TieBroken after everything else was extracted and the
# generated file was written) but does not stop the run: the last known value below is used, so the model evaluation and
# above all the oracle still run and can turn the broken tie into a concrete failing input.
ERRS = []
LAST_KNOWN = {
    "sig_algs": [[1, 2, 840, 113549, 1, 1, 11], [1, 2, 840, 113549, 1, 1, 12], [1, 2, 840, 113549, 1, 1, 13], [1, 2, 840, 10045, 4, 3, 2],
                 [1, 2, 840, 10045, 4, 3, 3], [1, 2, 840, 10045, 4, 3, 4], [1, 2, 840, 113549, 1, 1, 10], [1, 3, 101, 112]],
    "pss": [1, 2, 840, 113549, 1, 1, 10],
    "pss_hashes": [[2, 16, 840, 1, 101, 3, 4, 2, 1], [2, 16, 840, 1, 101, 3, 4, 2, 2], [2, 16, 840, 1, 101, 3, 4, 2, 3]],
    "curves": [[1, 2, 840, 10045, 3, 1, 7], [1, 3, 132, 0, 34], [1, 3, 132, 0, 35]],
    "min_rsa_bits": 2048, "selfsigned_only_ca": False, "silent_logged": True,
    "email": [1, 3, 6, 1, 5, 5, 7, 3, 4], "timestamping": [1, 3, 6, 1, 5, 5, 7, 3, 8], "ocsp": [1, 3, 6, 1, 5, 5, 7, 3, 9],
    "default_ekus": [[1, 3, 6, 1, 5, 5, 7, 3, 4], [1, 3, 6, 1, 5, 5, 7, 3, 36], [1, 3, 6, 1, 5, 5, 7, 3, 8], [1, 3, 6, 1, 5, 5, 7, 3, 9],
                     [1, 3, 6, 1, 4, 1, 311, 76, 59, 1, 9], [1, 3, 6, 1, 4, 1, 62558, 2, 1]],
}


def fact(pattern, text, what, flags=re.S):
    m = re.search(pattern, text, flags)
    if not m:
        ERRS.append(f"srcfacts: cannot extract {what}")
    return m


def fn_body(text, sig, what):
    try:
        return common.fn_body(text, sig, what)
    except TieBroken as ex:
        ERRS.append(str(ex))
        return ""


def oids(m, consts, key):
    """the OID constants named in group 1 of a match, or the last known list"""
    if not m:
        return LAST_KNOWN[key]
    try:
        return [consts[n] for n in re.findall(r"(\w+_OID)", m.group(1))]
    except KeyError as ex:
        ERRS.append(f"srcfacts: unknown OID constant {ex} in {key}")
        return LAST_KNOWN[key]


def profile_facts():
    t = common.strip_tests(common.src(PROFILE))
    consts = oid_consts(t)
    body = fn_body(t, r"pub fn check_certificate_profile\s*\(", "check_certificate_profile")
    f_silent_logged = False
    if re.search(r"fn check_certificate_profile_inner\s*\(", t):
        # the repaired shape (proposed fix C06-silent-profile-errors): a wrapper that logs signingCredential.invalid when the
        # inner check returned Err without logging
        wrapper = body
        fact(r"let logged_before = validation_log\.logged_items\(\)\.len\(\);\s*let result =\s*check_certificate_profile_inner\("
                    r".*?if result\.is_err\(\) && validation_log\.logged_items\(\)\.len\(\) == logged_before \{\s*log_item!\(.*?\)\s*"
                    r"\.validation_status\(SIGNING_CREDENTIAL_INVALID\)\s*\.failure_no_throw\(", wrapper, "wrapper that logs quiet exits")
        body = fn_body(t, r"fn check_certificate_profile_inner\s*\(", "check_certificate_profile_inner")
        f_silent_logged = True
    ee = fn_body(t, r"pub fn check_end_entity_certificate_profile\s*\(", "check_end_entity_certificate_profile")
    f = {"silent_logged": f_silent_logged}
    # accepted signature algorithms
    m = fact(r"if !\(\*cert_alg ==(.*?)\)\s*\{\s*log_item!\(\s*\"\",\s*\"certificate algorithm not supported\"", body, "signature algorithm set")
    f["sig_algs"] = oids(m, consts, "sig_algs")
    f["pss"] = consts.get("RSASSA_PSS_OID", LAST_KNOWN["pss"])
    if f["pss"] not in f["sig_algs"]:
        ERRS.append("srcfacts: RSASSA-PSS no longer in the accepted signature algorithms")
    m = fact(r"if !\(ha_alg\.algorithm ==(.*?)\)\s*\{\s*log_item!\(\s*\"\",\s*\"certificate hash algorithm not supported\"", body, "PSS hash set")
    f["pss_hashes"] = oids(m, consts, "pss_hashes")
    m = fact(r"if !\(named_curve_oid ==(.*?)\)\s*\{\s*log_item!\(\s*\"\",\s*\"certificate unsupported EC curve\"", body, "curve set")
    f["curves"] = oids(m, consts, "curves")
    m = fact(r"if skpi_alg\.algorithm == RSA_OID \|\| skpi_alg\.algorithm == RSASSA_PSS_OID \{.*?if modulus\.bits\(\) < (\d+) \{", body, "RSA modulus minimum")
    f["min_rsa_bits"] = int(m.group(1)) if m else LAST_KNOWN["min_rsa_bits"]
    if not re.search(r"if skpi_alg\.algorithm == EC_PUBLICKEY_OID \{", body):
        ERRS.append("srcfacts: EC public key test changed")
    # self-signed rule: does it still require the CA flag?
    m = fact(r"// Disallow self-signed certificates\.\s*if (.*?) \{", body, "self-signed rule")
    cond = re.sub(r"\s+", " ", m.group(1)) if m else ""
    if cond == "tbscert.is_ca() && tbscert.issuer() == tbscert.subject()":
        f["selfsigned_only_ca"] = True
    elif cond == "tbscert.issuer() == tbscert.subject()":
        f["selfsigned_only_ca"] = False
    else:
        if m:
            ERRS.append(f"srcfacts: self-signed rule changed: {cond}")
        f["selfsigned_only_ca"] = LAST_KNOWN["selfsigned_only_ca"]
    # version
    fact(r"if signcert\.version\(\) != X509Version::V3 \{", body, "version rule")
    # validity: time-stamp time if any, else now
    fact(r"if let Some\(tst_info\) = _tst_info_opt \{.*?is_valid_at\(.*?\} else \{.*?SystemTime::now\(\).*?is_valid_at\(", body, "validity rule")
    # unique ids
    fact(r"if signcert\.issuer_uid\.is_some\(\) \|\| signcert\.subject_uid\.is_some\(\) \{", body, "unique-id rule")
    # EKU rules
    fact(r"if eku\.any \{", body, "anyExtendedKeyUsage rule")
    fact(r"if ctp\.has_allowed_eku\(eku\)\.is_none\(\) \{", body, "EKU acceptance rule")
    m = fact(r"if \(eku\.ocsp_signing && eku\.time_stamping\)\s*\|\| \(\(eku\.ocsp_signing \^ eku\.time_stamping\)\s*&& \(eku\.client_auth\s*\| eku\.code_signing\s*\| eku\.email_protection\s*\| eku\.server_auth\s*\| !eku\.other\.is_empty\(\)\)\)", body, "EKU combination rule")
    fact(r"None => tbscert\.is_ca\(\),", body, "EKU-absent rule")
    # key usage
    fact(r"if ku\.digital_signature\(\) \{\s*if ku\.key_cert_sign\(\) && !tbscert\.is_ca\(\) \{", body, "key-usage rule 1")
    fact(r"if ku\.key_cert_sign\(\) \|\| ku\.non_repudiation\(\) \{\s*key_usage_good = true;", body, "key-usage rule 2")
    # the extensions the loop treats as handled
    handled = re.findall(r"ParsedExtension::(\w+)\(_\) => \(\),", body)
    f["handled_exts"] = handled
    expect = ["CertificatePolicies", "PolicyMappings", "SubjectAlternativeName", "BasicConstraints", "NameConstraints",
              "PolicyConstraints", "ExtendedKeyUsage", "CRLDistributionPoints", "InhibitAnyPolicy", "AuthorityInfoAccess",
              "NSCertType", "CRLNumber", "ReasonCode", "InvalidityDate"]
    if handled != expect:
        ERRS.append(f"srcfacts: list of handled extensions changed: {handled}")
    fact(r"ski_good = if tbscert\.is_ca\(\) \{ ski_good \} else \{ true \};", body, "SKI rule")
    fact(r"if aki_good && ski_good && key_usage_good && extended_key_usage_good && handled_all_critical \{\s*Ok\(\(\)\)", body, "final conjunction")
    fact(r"check_certificate_profile\(certificate_der, ctp, validation_log, tst_info_opt\)\?;.*?if tbscert\.is_ca\(\) \{", ee, "end-entity CA rule")
    # silent exits: branches that return Err without logging (the `?` on map_err in the PSS block etc.)
    try:
        pss_block = body[body.index("// Verify RSA_PSS parameters."):body.index("// CHeck curves for SPKI EC algorithms.")]
    except ValueError:
        ERRS.append("srcfacts: cannot delimit the RSASSA-PSS parameter block")
        pss_block = ""
    f["pss_silent_exits"] = len(re.findall(r"(?:map_err\(\|_\w*\| CertificateProfileError::InvalidCertificate\)|ok_or\(CertificateProfileError::InvalidCertificate\))\?", pss_block))
    if f["pss_silent_exits"] == 0 and pss_block:
        ERRS.append("srcfacts: the PSS parameter parser no longer has silent `?` exits (model has PssUnparsable)")
    # codes per branch: every log_item description with its status
    f["branches"] = re.findall(r"log_item!\(\s*\"\",\s*\"([^\"]+)\",\s*\"check_certificate_profile\"\s*\)\s*\.validation_status\((\w+)\)", t)
    return f


def policy_facts():
    t = common.strip_tests(common.src(POLICY))
    consts = oid_consts(t)
    f = {}
    body = fn_body(t, r"pub\(crate\) fn has_allowed_eku", "has_allowed_eku")
    order = re.findall(r"if eku\.(\w+) \{\s*return Some\((\w+)\.clone\(\)\);", body)
    if [o[0] for o in order] != ["email_protection", "time_stamping", "ocsp_signing"] or any(o[1] not in consts for o in order):
        ERRS.append(f"srcfacts: has_allowed_eku order changed: {order}")
        f["email"], f["timestamping"], f["ocsp"] = LAST_KNOWN["email"], LAST_KNOWN["timestamping"], LAST_KNOWN["ocsp"]
    else:
        f["email"], f["timestamping"], f["ocsp"] = (consts[o[1]] for o in order)
    fact(r"for extra_oid in eku\.other\.iter\(\)\.as_ref\(\) \{.*?if self\.additional_ekus\.contains\(&extra_oid_str\) \{\s*return Some", body, "additional EKU scan")
    cfg = common.src(EKU_CFG)
    f["default_ekus"] = [[int(x) for x in l.strip().split(".")] for l in cfg.splitlines() if re.fullmatch(r"\s*\d+(\.\d+)+\s*", l)]
    if not f["default_ekus"]:
        ERRS.append("srcfacts: valid_eku_oids.cfg lists no OID")
        f["default_ekus"] = LAST_KNOWN["default_ekus"]
    chk = fn_body(t, r"pub fn check_certificate_trust\s*\(", "check_certificate_trust")
    fact(r"if self\.passthrough \{\s*return Ok\(TrustAnchorType::NoCheck\);\s*\}.*?if self\.end_entity_cert_set\.contains\(&cert_hash\) \{\s*return Ok\(TrustAnchorType::EndEntity\);", chk, "passthrough / allow-list order")
    fact(r"impl Default for CertificateTrustPolicy \{.*?passthrough: false,\s*trust_anchors_only: false,.*?this\.add_valid_ekus\(include_bytes!\(\"\./valid_eku_oids\.cfg\"\)\);", t, "default policy")
    o = common.strip_tests(common.src(OPENSSL_TRUST))
    fact(r"if ctp\.trust_anchor_ders\(\)\.count\(\) == 0 && ctp\.user_trust_anchor_ders\(\)\.count\(\) == 0 \{\s*return Err\(CertificateTrustError::CertificateNotTrusted\);", o, "no-anchors short cut")
    fact(r"X509_STRICT.*?PARTIAL_CHAIN.*?if let Some\(st\) = signing_time_epoch \{\s*verify_param\.set_time\(st\);\s*\} else \{\s*verify_param\.set_flags\(X509VerifyFlags::NO_CHECK_TIME\)", o, "verify flags")
    fact(r"Ok\(TrustAnchorType::System\)\s*\} else if !ctp\.trust_anchors_only\(\) \{.*?Ok\(TrustAnchorType::User\)\s*\} else \{\s*Err\(CertificateTrustError::CertificateNotTrusted\)\s*\}\s*\} else \{\s*Err\(CertificateTrustError::CertificateNotTrusted\)", o, "system then user stores")
    v = common.strip_tests(common.src(VERIFIER))
    vt = fn_body(v, r"pub\(crate\) fn verify_trust\s*\(", "verify_trust")
    fact(r"Self::VerifyCertificateProfileOnly\(ref _ctp\) => \{\s*return Ok\(TrustAnchorType::NoCheck\);.*?Self::IgnoreProfileAndTrustPolicy => \{\s*return Ok\(TrustAnchorType::NoCheck\);", vt, "variants that skip trust")
    fact(r"Ok\(tat\) => \{.*?\.validation_status\(SIGNING_CREDENTIAL_TRUSTED\)\s*\.success\(validation_log\);.*?Err\(e\) => Err\(.*?\.validation_status\(SIGNING_CREDENTIAL_UNTRUSTED\)\s*\.failure_as_err", vt, "verdict mapping")
    vs = fn_body(v, r"pub fn verify_signature\s*\(", "verify_signature")
    fact(r"self\.verify_profile\(&sign1, tst_info, validation_log\).*?\.ok\(\);.*?self\.verify_trust\(&sign1, tst_info, validation_log\).*?\.ok\(\);", vs, "profile then trust, errors ignored")
    c = common.strip_tests(common.src(COSE_VALIDATOR))
    fact(r"let verifier = if cert_check \{\s*if settings\.verify\.verify_trust \{\s*Verifier::VerifyTrustPolicy\(Cow::Borrowed\(ctp\)\)\s*\} else \{\s*Verifier::VerifyCertificateProfileOnly\(Cow::Borrowed\(ctp\)\)\s*\}\s*\} else \{\s*Verifier::IgnoreProfileAndTrustPolicy", c, "verifier selection")
    r = common.strip_tests(common.src(RESULTS))
    tol = fn_body(r, r"fn is_tolerated_manifest_failure_code", "is_tolerated_manifest_failure_code")
    if not re.fullmatch(r"\{ code == validation_status::SIGNING_CREDENTIAL_UNTRUSTED \|\| code\.starts_with\(\w+\) \}", re.sub(r"\s+", " ", tol)):
        ERRS.append("srcfacts: is_tolerated_manifest_failure_code changed: " + re.sub(r"\s+", " ", tol))
    return f


def write(ctx=None):
    del ERRS[:]
    pf = profile_facts()
    qf = policy_facts()
    lst = lambda xs: "[" + "; ".join(coq_oid(x) for x in xs) + "]"
    v6 = ("(* generated from sdk/src/crypto/cose/certificate_profile.rs (+ certificate_trust_policy.rs, valid_eku_oids.cfg) on every run — do not edit *)\n"
          "From Coq Require Import NArith List.\nImport ListNotations.\nOpen Scope N_scope.\n"
          f"Definition ALLOWED_SIG_ALGS : list (list N) := {lst(pf['sig_algs'])}.\n"
          f"Definition RSASSA_PSS_OID : list N := {coq_oid(pf['pss'])}.\n"
          f"Definition ALLOWED_PSS_HASHES : list (list N) := {lst(pf['pss_hashes'])}.\n"
          f"Definition ALLOWED_CURVES : list (list N) := {lst(pf['curves'])}.\n"
          f"Definition MIN_RSA_BITS : N := {pf['min_rsa_bits']}.\n"
          f"Definition SELFSIGNED_ONLY_CA : bool := {'true' if pf['selfsigned_only_ca'] else 'false'}.\n"
          f"Definition QUIET_EXITS_LOGGED : bool := {'true' if pf['silent_logged'] else 'false'}.\n"
          f"Definition EMAIL_PROTECTION_OID : list N := {coq_oid(qf['email'])}.\n"
          f"Definition TIMESTAMPING_OID : list N := {coq_oid(qf['timestamping'])}.\n"
          f"Definition OCSP_SIGNING_OID : list N := {coq_oid(qf['ocsp'])}.\n"
          f"Definition DEFAULT_EKUS : list (list N) := {lst(qf['default_ekus'])}.\n")
    common.write_if_changed(os.path.join(common.COQ, "Generated", "C06_facts.v"), v6)
    if ctx is not None:
        ctx.facts = {"profile": pf, "policy": qf}
    if ERRS:
        raise TieBroken("; ".join(ERRS))
    return pf, qf
