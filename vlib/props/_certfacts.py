"""Facts regenerated from the certificate-profile / trust-policy sources, shared by C05 and C06.
Writes coq/Generated/C06_facts.v (profile constants) and coq/Generated/C05_facts.v (trust constants)."""
import os, re
from .. import common
from ..common import TieBroken

PROFILE = "sdk/src/crypto/cose/certificate_profile.rs"
POLICY = "sdk/src/crypto/cose/certificate_trust_policy.rs"
OPENSSL_TRUST = "sdk/src/crypto/cose/certificate_trust/openssl.rs"
VERIFIER = "sdk/src/crypto/cose/verifier.rs"
COSE_VALIDATOR = "sdk/src/cose_validator.rs"
RESULTS = "sdk/src/validation_results.rs"
EKU_CFG = "sdk/src/crypto/cose/valid_eku_oids.cfg"


def coq_oid(arcs):
    return "[" + "; ".join(str(a) for a in arcs) + "]"


def oid_consts(text):
    """NAME -> arcs for every `const NAME: Oid<'static> = oid!(a.b .c ...)`"""
    out = {}
    for m in re.finditer(r"(?:const|static)\s+(\w+)\s*:\s*Oid<'static>\s*=\s*oid!\(([^)]*)\)", text):
        out[m.group(1)] = [int(x) for x in re.findall(r"\d+", m.group(2))]
    return out


def profile_facts():
    t = common.strip_tests(common.src(PROFILE))
    consts = oid_consts(t)
    body = common.fn_body(t, r"pub fn check_certificate_profile\s*\(", "check_certificate_profile")
    f_silent_logged = False
    if re.search(r"fn check_certificate_profile_inner\s*\(", t):
        # the repaired shape (proposed fix C06-silent-profile-errors): a wrapper that logs signingCredential.invalid when the
        # inner check returned Err without logging
        wrapper = body
        common.fact(r"let logged_before = validation_log\.logged_items\(\)\.len\(\);\s*let result =\s*check_certificate_profile_inner\("
                    r".*?if result\.is_err\(\) && validation_log\.logged_items\(\)\.len\(\) == logged_before \{\s*log_item!\(.*?\)\s*"
                    r"\.validation_status\(SIGNING_CREDENTIAL_INVALID\)\s*\.failure_no_throw\(", wrapper, "wrapper that logs quiet exits")
        body = common.fn_body(t, r"fn check_certificate_profile_inner\s*\(", "check_certificate_profile_inner")
        f_silent_logged = True
    ee = common.fn_body(t, r"pub fn check_end_entity_certificate_profile\s*\(", "check_end_entity_certificate_profile")
    f = {"silent_logged": f_silent_logged}
    # accepted signature algorithms
    m = common.fact(r"if !\(\*cert_alg ==(.*?)\)\s*\{\s*log_item!\(\s*\"\",\s*\"certificate algorithm not supported\"", body, "signature algorithm set")
    names = re.findall(r"(\w+_OID)", m.group(1))
    f["sig_algs"] = [consts[n] for n in names]
    f["pss"] = consts["RSASSA_PSS_OID"]
    if "RSASSA_PSS_OID" not in names:
        raise TieBroken("srcfacts: RSASSA-PSS no longer in the accepted signature algorithms")
    m = common.fact(r"if !\(ha_alg\.algorithm ==(.*?)\)\s*\{\s*log_item!\(\s*\"\",\s*\"certificate hash algorithm not supported\"", body, "PSS hash set")
    f["pss_hashes"] = [consts[n] for n in re.findall(r"(\w+_OID)", m.group(1))]
    m = common.fact(r"if !\(named_curve_oid ==(.*?)\)\s*\{\s*log_item!\(\s*\"\",\s*\"certificate unsupported EC curve\"", body, "curve set")
    f["curves"] = [consts[n] for n in re.findall(r"(\w+_OID)", m.group(1))]
    m = common.fact(r"if skpi_alg\.algorithm == RSA_OID \|\| skpi_alg\.algorithm == RSASSA_PSS_OID \{.*?if modulus\.bits\(\) < (\d+) \{", body, "RSA modulus minimum")
    f["min_rsa_bits"] = int(m.group(1))
    if not re.search(r"if skpi_alg\.algorithm == EC_PUBLICKEY_OID \{", body):
        raise TieBroken("srcfacts: EC public key test changed")
    # self-signed rule: does it still require the CA flag?
    m = common.fact(r"// Disallow self-signed certificates\.\s*if (.*?) \{", body, "self-signed rule")
    cond = re.sub(r"\s+", " ", m.group(1))
    if cond == "tbscert.is_ca() && tbscert.issuer() == tbscert.subject()":
        f["selfsigned_only_ca"] = True
    elif cond == "tbscert.issuer() == tbscert.subject()":
        f["selfsigned_only_ca"] = False
    else:
        raise TieBroken(f"srcfacts: self-signed rule changed: {cond}")
    # version
    common.fact(r"if signcert\.version\(\) != X509Version::V3 \{", body, "version rule")
    # validity: time-stamp time if any, else now
    common.fact(r"if let Some\(tst_info\) = _tst_info_opt \{.*?is_valid_at\(.*?\} else \{.*?SystemTime::now\(\).*?is_valid_at\(", body, "validity rule")
    # unique ids
    common.fact(r"if signcert\.issuer_uid\.is_some\(\) \|\| signcert\.subject_uid\.is_some\(\) \{", body, "unique-id rule")
    # EKU rules
    common.fact(r"if eku\.any \{", body, "anyExtendedKeyUsage rule")
    common.fact(r"if ctp\.has_allowed_eku\(eku\)\.is_none\(\) \{", body, "EKU acceptance rule")
    m = common.fact(r"if \(eku\.ocsp_signing && eku\.time_stamping\)\s*\|\| \(\(eku\.ocsp_signing \^ eku\.time_stamping\)\s*&& \(eku\.client_auth\s*\| eku\.code_signing\s*\| eku\.email_protection\s*\| eku\.server_auth\s*\| !eku\.other\.is_empty\(\)\)\)", body, "EKU combination rule")
    common.fact(r"None => tbscert\.is_ca\(\),", body, "EKU-absent rule")
    # key usage
    common.fact(r"if ku\.digital_signature\(\) \{\s*if ku\.key_cert_sign\(\) && !tbscert\.is_ca\(\) \{", body, "key-usage rule 1")
    common.fact(r"if ku\.key_cert_sign\(\) \|\| ku\.non_repudiation\(\) \{\s*key_usage_good = true;", body, "key-usage rule 2")
    # the extensions the loop treats as handled
    handled = re.findall(r"ParsedExtension::(\w+)\(_\) => \(\),", body)
    f["handled_exts"] = handled
    expect = ["CertificatePolicies", "PolicyMappings", "SubjectAlternativeName", "BasicConstraints", "NameConstraints",
              "PolicyConstraints", "ExtendedKeyUsage", "CRLDistributionPoints", "InhibitAnyPolicy", "AuthorityInfoAccess",
              "NSCertType", "CRLNumber", "ReasonCode", "InvalidityDate"]
    if handled != expect:
        raise TieBroken(f"srcfacts: list of handled extensions changed: {handled}")
    common.fact(r"ski_good = if tbscert\.is_ca\(\) \{ ski_good \} else \{ true \};", body, "SKI rule")
    common.fact(r"if aki_good && ski_good && key_usage_good && extended_key_usage_good && handled_all_critical \{\s*Ok\(\(\)\)", body, "final conjunction")
    common.fact(r"check_certificate_profile\(certificate_der, ctp, validation_log, tst_info_opt\)\?;.*?if tbscert\.is_ca\(\) \{", ee, "end-entity CA rule")
    # silent exits: branches that return Err without logging (the `?` on map_err in the PSS block etc.)
    pss_block = body[body.index("// Verify RSA_PSS parameters."):body.index("// CHeck curves for SPKI EC algorithms.")]
    f["pss_silent_exits"] = len(re.findall(r"(?:map_err\(\|_\w*\| CertificateProfileError::InvalidCertificate\)|ok_or\(CertificateProfileError::InvalidCertificate\))\?", pss_block))
    if f["pss_silent_exits"] == 0:
        raise TieBroken("srcfacts: the PSS parameter parser no longer has silent `?` exits (model has PssUnparsable => no code)")
    # codes per branch: every log_item description with its status
    f["branches"] = re.findall(r"log_item!\(\s*\"\",\s*\"([^\"]+)\",\s*\"check_certificate_profile\"\s*\)\s*\.validation_status\((\w+)\)", t)
    return f


def policy_facts():
    t = common.strip_tests(common.src(POLICY))
    consts = oid_consts(t)
    f = {}
    body = common.fn_body(t, r"pub\(crate\) fn has_allowed_eku", "has_allowed_eku")
    order = re.findall(r"if eku\.(\w+) \{\s*return Some\((\w+)\.clone\(\)\);", body)
    if [o[0] for o in order] != ["email_protection", "time_stamping", "ocsp_signing"]:
        raise TieBroken(f"srcfacts: has_allowed_eku order changed: {order}")
    f["email"], f["timestamping"], f["ocsp"] = (consts[o[1]] for o in order)
    common.fact(r"for extra_oid in eku\.other\.iter\(\)\.as_ref\(\) \{.*?if self\.additional_ekus\.contains\(&extra_oid_str\) \{\s*return Some", body, "additional EKU scan")
    cfg = common.src(EKU_CFG)
    f["default_ekus"] = [[int(x) for x in l.strip().split(".")] for l in cfg.splitlines() if re.fullmatch(r"\s*\d+(\.\d+)+\s*", l)]
    chk = common.fn_body(t, r"pub fn check_certificate_trust\s*\(", "check_certificate_trust")
    common.fact(r"if self\.passthrough \{\s*return Ok\(TrustAnchorType::NoCheck\);\s*\}.*?if self\.end_entity_cert_set\.contains\(&cert_hash\) \{\s*return Ok\(TrustAnchorType::EndEntity\);", chk, "passthrough / allow-list order")
    common.fact(r"impl Default for CertificateTrustPolicy \{.*?passthrough: false,\s*trust_anchors_only: false,.*?this\.add_valid_ekus\(include_bytes!\(\"\./valid_eku_oids\.cfg\"\)\);", t, "default policy")
    o = common.strip_tests(common.src(OPENSSL_TRUST))
    common.fact(r"if ctp\.trust_anchor_ders\(\)\.count\(\) == 0 && ctp\.user_trust_anchor_ders\(\)\.count\(\) == 0 \{\s*return Err\(CertificateTrustError::CertificateNotTrusted\);", o, "no-anchors short cut")
    common.fact(r"X509_STRICT.*?PARTIAL_CHAIN.*?if let Some\(st\) = signing_time_epoch \{\s*verify_param\.set_time\(st\);\s*\} else \{\s*verify_param\.set_flags\(X509VerifyFlags::NO_CHECK_TIME\)", o, "verify flags")
    common.fact(r"Ok\(TrustAnchorType::System\)\s*\} else if !ctp\.trust_anchors_only\(\) \{.*?Ok\(TrustAnchorType::User\)\s*\} else \{\s*Err\(CertificateTrustError::CertificateNotTrusted\)\s*\}\s*\} else \{\s*Err\(CertificateTrustError::CertificateNotTrusted\)", o, "system then user stores")
    v = common.strip_tests(common.src(VERIFIER))
    vt = common.fn_body(v, r"pub\(crate\) fn verify_trust\s*\(", "verify_trust")
    common.fact(r"Self::VerifyCertificateProfileOnly\(ref _ctp\) => \{\s*return Ok\(TrustAnchorType::NoCheck\);.*?Self::IgnoreProfileAndTrustPolicy => \{\s*return Ok\(TrustAnchorType::NoCheck\);", vt, "variants that skip trust")
    common.fact(r"Ok\(tat\) => \{.*?\.validation_status\(SIGNING_CREDENTIAL_TRUSTED\)\s*\.success\(validation_log\);.*?Err\(e\) => Err\(.*?\.validation_status\(SIGNING_CREDENTIAL_UNTRUSTED\)\s*\.failure_as_err", vt, "verdict mapping")
    vs = common.fn_body(v, r"pub fn verify_signature\s*\(", "verify_signature")
    common.fact(r"self\.verify_profile\(&sign1, tst_info, validation_log\).*?\.ok\(\);.*?self\.verify_trust\(&sign1, tst_info, validation_log\).*?\.ok\(\);", vs, "profile then trust, errors ignored")
    c = common.strip_tests(common.src(COSE_VALIDATOR))
    common.fact(r"let verifier = if cert_check \{\s*if settings\.verify\.verify_trust \{\s*Verifier::VerifyTrustPolicy\(Cow::Borrowed\(ctp\)\)\s*\} else \{\s*Verifier::VerifyCertificateProfileOnly\(Cow::Borrowed\(ctp\)\)\s*\}\s*\} else \{\s*Verifier::IgnoreProfileAndTrustPolicy", c, "verifier selection")
    r = common.strip_tests(common.src(RESULTS))
    tol = common.fn_body(r, r"fn is_tolerated_manifest_failure_code", "is_tolerated_manifest_failure_code")
    if re.sub(r"\s+", " ", tol) != "{ code == validation_status::SIGNING_CREDENTIAL_UNTRUSTED || code.starts_with(CAWG_X509_STATUS_PREFIX) }":
        raise TieBroken("srcfacts: is_tolerated_manifest_failure_code changed: " + re.sub(r"\s+", " ", tol))
    return f


def write(ctx=None):
    pf = profile_facts()
    qf = policy_facts()
    lst = lambda xs: "[" + "; ".join(coq_oid(x) for x in xs) + "]"
    v6 = ("(* generated from sdk/src/crypto/cose/certificate_profile.rs (+ certificate_trust_policy.rs, valid_eku_oids.cfg) on every run — do not edit *)\n"
          "From Coq Require Import NArith List.\nImport ListNotations.\nOpen Scope N_scope.\n"
          f"Definition ALLOWED_SIG_ALGS : list (list N) := {lst(pf['sig_algs'])}.\n"
          f"Definition RSASSA_PSS_OID : list N := {coq_oid(pf['pss'])}.\n"
          f"Definition ALLOWED_PSS_HASHES : list (list N) := {lst(pf['pss_hashes'])}.\n"
          f"Definition ALLOWED_CURVES : list (list N) := {lst(pf['curves'])}.\n"
          f"Definition MIN_RSA_BITS : N := {pf['min_rsa_bits']}.\n"
          f"Definition SELFSIGNED_ONLY_CA : bool := {'true' if pf['selfsigned_only_ca'] else 'false'}.\n"
          f"Definition QUIET_EXITS_LOGGED : bool := {'true' if pf['silent_logged'] else 'false'}.\n"
          f"Definition EMAIL_PROTECTION_OID : list N := {coq_oid(qf['email'])}.\n"
          f"Definition TIMESTAMPING_OID : list N := {coq_oid(qf['timestamping'])}.\n"
          f"Definition OCSP_SIGNING_OID : list N := {coq_oid(qf['ocsp'])}.\n"
          f"Definition DEFAULT_EKUS : list (list N) := {lst(qf['default_ekus'])}.\n")
    common.write_if_changed(os.path.join(common.COQ, "Generated", "C06_facts.v"), v6)
    if ctx is not None:
        ctx.facts = {"profile": pf, "policy": qf}
    return pf, qf
