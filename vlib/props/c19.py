"""C19 — ingredient graph validation terminates and rejects malformed graphs."""
import json, os, re, time
from collections import deque
from .. import common
from ..common import TieBroken, coq_list

PROP_FILE = "Properties/C19.v"
TRUSTED = ["per-manifest signature / hash checks are data of the case (m_verify_ok, r_hash_ok), not modelled",
           "redactions, unparsable ingredient assertions and the v3 validation-results rule are outside the model",
           "store = association list with distinct labels (the SDK uses a HashMap keyed by label)",
           "wall-clock budget of the oracle: 3 s + 10 ms per manifest/reference (debug build, shared machine)"]
ASSUMPTIONS = ["debug-profile harness on the main thread (8 MiB stack)", "ingredient assertions are v2/v3 and parse"]

REL = {0: "ComponentOf", 1: "ParentOf", 2: "InputTo"}
IMPORTS = ("From C2PA Require Import Generated.C19_facts Model.IngredientGraph.\n"
           "From Coq Require Import NArith List.\nImport ListNotations.\nOpen Scope N_scope.")


# ------------------------------------------------------------------ facts

def facts(ctx):
    t = common.strip_tests(common.src("sdk/src/store.rs"))
    m = common.fact(r"const\s+MAX_INGREDIENT_DEPTH\s*:\s*usize\s*=\s*([^;]+);", t, "MAX_INGREDIENT_DEPTH")
    limit = common.rust_int(m.group(1))
    ref = common.fn_body(t, r"fn\s+get_claim_referenced_manifests_impl\s*<", "get_claim_referenced_manifests_impl")
    chk = common.fn_body(t, r"fn\s+ingredient_checks\s*\(", "ingredient_checks")
    bnd = common.fn_body(t, r"fn\s+get_hash_binding_manifest_impl\s*\(", "get_hash_binding_manifest_impl")

    def order(body, what, *pats):
        pos = -1
        for p in pats:
            mm = re.compile(p, re.S).search(body, pos + 1)
            if not mm:
                raise TieBroken(f"srcfacts: {what}: expected `{p}` after offset {pos} (the walk was restructured; update Model/IngredientGraph.v)")
            pos = mm.start()

    # depth test on the path, then memo test, then push, then memo insertion on entry, back-edge test before recursing, pop at the end
    order(ref, "get_claim_referenced_manifests_impl",
          r"claim_label_path\.len\(\)\s*>=\s*MAX_INGREDIENT_DEPTH", r"svi\.manifest_map\.contains_key\(claim_label\)",
          r"claim_label_path\.push\(claim_label\)", r"svi\.manifest_map\.insert\(", r"for\s+i\s+in\s+claim\.ingredient_assertions\(\)",
          r"store\.get_claim\(&ingredient_label\)", r"claim_label_path\.contains\(&ingredient\.label\(\)\)", r"CyclicIngredients",
          r"ingredient_references", r"get_claim_referenced_manifests_impl\(", r"INGREDIENT_MANIFEST_MISSING", r"\.failure\(",
          r"claim_label_path\.pop\(\)")
    order(chk, "ingredient_checks",
          r"depth\s*>=\s*MAX_INGREDIENT_DEPTH", r"for\s+i\s+in\s+claim\.ingredient_assertions\(\)", r"store\.get_claim\(&label\)",
          r"INGREDIENT_MANIFEST_VALIDATED", r"INGREDIENT_MANIFEST_MISMATCH", r"Claim::verify_claim\(",
          r"visited\.insert\(ingredient\.label\(\)\.to_owned\(\)\)", r"Store::ingredient_checks\(", r"depth\.saturating_add\(1\)",
          r"INGREDIENT_MANIFEST_MISSING")
    # fix c381c9a00 (F-BINDING-DEPTH): depth test on the size of `visited`, before the insertion
    order(bnd, "get_hash_binding_manifest_impl",
          r"visited\.len\(\)\s*>=\s*MAX_INGREDIENT_DEPTH\s*\{\s*return\s+None", r"!visited\.insert\(claim\.label\(\)\.to_owned\(\)\)", r"!claim\.update_manifest\(\)\s*&&\s*!claim\.hash_assertions\(\)\.is_empty\(\)",
          r"for\s+i\s+in\s+claim\.ingredient_assertions\(\)", r"Relationship::ParentOf", r"parent\.update_manifest\(\)",
          r"return\s+self\.get_hash_binding_manifest_impl\(parent,\s*visited\)", r"!parent\.hash_assertions\(\)\.is_empty\(\)")
    sv = common.fn_body(t, r"fn\s+get_store_validation_info\s*<", "get_store_validation_info")
    order(sv, "get_store_validation_info", r"get_claim_referenced_manifests\(", r"get_hash_binding_manifest\(")
    v = ("(* generated from sdk/src/store.rs on every run — do not edit *)\n"
         f"Definition MAX_INGREDIENT_DEPTH : nat := {limit}.\n")
    common.write_if_changed(os.path.join(common.COQ, "Generated", "C19_facts.v"), v)
    ctx.facts = {"MAX_INGREDIENT_DEPTH": limit}


def limit_of(ctx):
    f = getattr(ctx, "facts", None)
    if f:
        return f["MAX_INGREDIENT_DEPTH"]
    m = re.search(r"const\s+MAX_INGREDIENT_DEPTH\s*:\s*usize\s*=\s*(\d+)", common.src("sdk/src/store.rs"))
    return int(m.group(1)) if m else 200


# ------------------------------------------------------------------ graph helpers (oracle side; independent of the model)

def succ(case, i):
    n = len(case["nodes"])
    return [r[0] for r in case["nodes"][i]["ings"] if r[1] and r[0] < n]


def analyse(case):
    """reachable set, cyclic?, dangling?, max BFS distance (edges) from the root"""
    nodes = case["nodes"]
    n = len(nodes)
    root = case.get("root", 0)
    dist = {root: 0}
    q = deque([root])
    while q:
        x = q.popleft()
        for y in succ(case, x):
            if y not in dist:
                dist[y] = dist[x] + 1
                q.append(y)
    reach = set(dist)
    dangling = any(r[1] and r[0] >= n for x in reach for r in nodes[x]["ings"])
    # cycle among reachable nodes: Kahn
    indeg = {x: 0 for x in reach}
    for x in reach:
        for y in succ(case, x):
            indeg[y] += 1
    q = deque([x for x in reach if indeg[x] == 0])
    seen = 0
    while q:
        x = q.popleft()
        seen += 1
        for y in succ(case, x):
            indeg[y] -= 1
            if indeg[y] == 0:
                q.append(y)
    cyclic = seen != len(reach)
    return {"reach": len(reach), "cyclic": cyclic, "dangling": dangling, "maxdist": max(dist.values()),
            "V": n, "E": sum(len(x["ings"]) for x in nodes)}


def binding_chain(case):
    """length of the parentOf chain of update manifests followed from the root (plain restatement of the search)"""
    nodes = case["nodes"]
    n = len(nodes)
    cur = case.get("root", 0)
    seen = set()
    k = 0
    while cur not in seen:
        seen.add(cur)
        k += 1
        nd = nodes[cur]
        if not nd["u"] and nd["h"]:
            return k
        nxt = None
        for r in nd["ings"]:
            if r[2] == 1 and r[1] and r[0] < n:
                p = nodes[r[0]]
                if p["u"]:
                    nxt = r[0]
                    break
                if p["h"]:
                    return k
        if nxt is None:
            return k
        cur = nxt
    return k


# ------------------------------------------------------------------ generators

def node(u=0, h=1, ings=None):
    return {"u": u, "h": h, "ings": ings or []}


def ref(t, manifest=1, rel=0, hash_ok=1):
    return [t, manifest, rel, hash_ok]


def small_graph(n, bits, rng=None):
    """graph number `bits` on n labelled nodes (adjacency matrix incl. self loops), root 0"""
    nodes = []
    for i in range(n):
        ings = [ref(j, 1, 0) for j in range(n) if (bits >> (i * n + j)) & 1]
        nodes.append(node(0, 1, ings))
    if rng is not None:
        for nd in nodes:
            nd["u"] = 1 if rng.random() < 0.35 else 0
            nd["h"] = 1 if rng.random() < 0.6 else 0
            for r in nd["ings"]:
                r[2] = rng.choice([0, 1, 1, 2])
            if rng.random() < 0.5:
                rng.shuffle(nd["ings"])
            if rng.random() < 0.2:
                nd["ings"].insert(rng.randrange(len(nd["ings"]) + 1), ref(n + rng.randrange(3), 1, rng.choice([0, 1])))
            if rng.random() < 0.1:
                nd["ings"].insert(rng.randrange(len(nd["ings"]) + 1), ref(0, 0, rng.choice([0, 1, 2])))
    return {"mode": "walk", "fam": f"small{n}", "root": 0, "stop": 0 if rng is None else int(rng.random() < 0.25), "nodes": nodes}


def exhaustive_small(rng, sample4=None):
    out = []
    for n in (1, 2, 3):
        for b in range(1 << (n * n)):
            out.append(small_graph(n, b))
            out.append(small_graph(n, b, rng))
    all4 = range(1 << 16)
    pick = all4 if sample4 is None else rng.sample(all4, sample4)
    for b in pick:
        out.append(small_graph(4, b, rng if rng.random() < 0.5 else None))
    return out


def chain(n, tail=None, rel=1):
    nodes = [node(0, 1, [ref(i + 1, 1, rel)] if i + 1 < n else []) for i in range(n)]
    if tail == "cycle":
        nodes[-1]["ings"] = [ref(n // 2, 1, 0)]
    elif tail == "self":
        nodes[-1]["ings"] = [ref(n - 1, 1, 0)]
    elif tail == "dangling":
        nodes[-1]["ings"] = [ref(n + 5, 1, 0)]
    return {"mode": "walk", "fam": f"chain{'' if tail is None else '-' + tail}", "root": 0, "stop": 0, "nodes": nodes}


def ladder(d):
    """d levels of two nodes, each pointing at both nodes of the next level: 2^d root-to-leaf paths"""
    nodes = [node(0, 1, [ref(1, 1, 1), ref(2, 1, 0)])]
    for lv in range(d):
        a, b = 1 + 2 * lv, 2 + 2 * lv
        nxt = [ref(a + 2, 1, 0), ref(b + 2, 1, 0)] if lv + 1 < d else []
        nodes.append(node(0, 1, [list(r) for r in nxt]))
        nodes.append(node(0, 1, [list(r) for r in nxt]))
    return {"mode": "walk", "fam": "ladder", "root": 0, "stop": 0, "nodes": nodes}


def complete_dag(k, descending):
    nodes = []
    for i in range(k):
        ts = list(range(i + 1, k))
        if descending:
            ts.reverse()
        nodes.append(node(0, 1, [ref(j, 1, 0) for j in ts]))
    return {"mode": "walk", "fam": "dag-desc" if descending else "dag-asc", "root": 0, "stop": 0, "nodes": nodes}


def fan_chain(k, descending):
    """root lists u_1..u_k (or u_k..u_1), u_j references u_{j+1}: same references, the ingredient order decides the recursion depth"""
    ts = list(range(1, k + 1))
    if descending:
        ts.reverse()
    nodes = [node(0, 1, [ref(t, 1, 0) for t in ts])] + [node(0, 1, [ref(j + 1, 1, 0)] if j < k else []) for j in range(1, k + 1)]
    return {"mode": "walk", "fam": "fan-desc" if descending else "fan-asc", "root": 0, "stop": 0, "nodes": nodes}


def deep_binding(n, mode="walk"):
    """root (no hard binding) lists u_n..u_2 as components, then u_1 as parent; u_i is an update manifest whose parent is u_{i+1};
    the referenced-walk memoises every u_i at depth <= 2, the hard-binding search then follows n parentOf links"""
    nodes = [node(0, 0, [ref(i, 1, 0) for i in range(n, 1, -1)] + [ref(1, 1, 1)])]
    for i in range(1, n + 1):
        nodes.append(node(1, 0, [ref(i + 1, 1, 1)]))
    nodes.append(node(0, 1, []))
    return {"mode": mode, "fam": "deep-binding", "root": 0, "stop": 0, "nodes": nodes}


def random_graph(rng, nmax=300):
    r = rng.random()
    n = rng.randrange(5, 30) if r < 0.4 else rng.randrange(30, nmax + 1)
    kind = rng.choice(["dag", "dag", "sparse", "sparse", "dense", "deepdag", "updates"])
    nodes = [node(0, 1, []) for _ in range(n)]
    p_back = rng.choice([0, 0, 0.002, 0.02])
    p_dangle = rng.choice([0, 0, 0.01, 0.05])
    for i in range(n):
        if kind == "dag":
            deg = rng.choice([0, 1, 1, 2, 2, 3, 5])
            ts = [rng.randrange(i + 1, n) for _ in range(deg)] if i + 1 < n else []
        elif kind == "deepdag":
            ts = ([i + 1] if i + 1 < n else []) + [rng.randrange(i + 1, n) for _ in range(rng.choice([0, 0, 1, 2])) if i + 1 < n]
        elif kind == "dense":
            ts = [j for j in range(i + 1, n) if rng.random() < min(1.0, 12.0 / n)]
        elif kind == "updates":
            ts = ([i + 1] if i + 1 < n else [])
        else:
            ts = [rng.randrange(n) for _ in range(rng.choice([0, 1, 1, 2, 3]))]
        ings = []
        for t in ts:
            if rng.random() < p_back:
                t = rng.randrange(0, i + 1)
            ings.append(ref(t, 1, rng.choice([0, 0, 1, 2])))
        if rng.random() < p_dangle:
            ings.append(ref(n + rng.randrange(4), 1, rng.choice([0, 1])))
        if rng.random() < 0.03:
            ings.append(ref(0, 0, rng.choice([0, 1, 2])))
        rng.shuffle(ings)
        nodes[i]["ings"] = ings
        nodes[i]["u"] = int(rng.random() < (0.9 if kind == "updates" else 0.2))
        nodes[i]["h"] = int(rng.random() < 0.6)
        if kind == "updates":
            for r_ in ings:
                r_[2] = 1
    return {"mode": "walk", "fam": "random-" + kind, "root": 0, "stop": int(rng.random() < 0.15), "nodes": nodes}


def corpus():
    p = os.path.join(common.VERIF, "corpus", "C19.jsonl")
    if not os.path.exists(p):
        return []
    out = []
    for l in open(p):
        if not l.strip():
            continue
        c = json.loads(l)
        if "generator" in c and "nodes" not in c:
            continue            # generator entries (the stack probe) are replayed by stack_probe(), one process each
        out.append(c)
    return out


def corpus_probes():
    p = os.path.join(common.VERIF, "corpus", "C19.jsonl")
    out = []
    if os.path.exists(p):
        for l in open(p):
            if l.strip():
                c = json.loads(l)
                m = re.match(r"deep_binding\((\d+)\)", c.get("generator", ""))
                if m and "nodes" not in c:
                    out.append((int(m.group(1)), c.get("mode", "walk")))
    return out


# ------------------------------------------------------------------ model rendering / decoding

def coq_store(case, verify_ok=None):
    ms = []
    for i, nd in enumerate(case["nodes"]):
        ings = coq_list([f"IRef {r[0]} {'true' if r[1] else 'false'} {REL[r[2]]} {'true' if (len(r) < 4 or r[3]) else 'false'}" for r in nd["ings"]])
        vok = "true" if verify_ok is None or verify_ok[i] else "false"
        ms.append(f"({i}, Manifest {'true' if nd['u'] else 'false'} {'true' if nd['h'] else 'false'} {vok} {ings})")
    return coq_list(ms)


def coq_walk_batch(cases):
    items = [f"({coq_store(c)}, {'true' if c.get('stop') else 'false'}, {c.get('root', 0)})" for c in cases]
    return "map (fun c => run_walk (fst (fst c)) (snd (fst c)) (snd c)) " + coq_list(items)


def opt(t):
    if t == "None":
        return None
    assert isinstance(t, list) and t[0] == "Some", t
    return t[1]


def aslist(x):
    return x if isinstance(x, list) else [x]


def model_walk_canon(t):
    """parsed Coq term of run_walk -> canonical dict comparable with the implementation"""
    e, memo, refs, log, (steps, maxd), (bres, bfuel, bsteps, bdepth) = t
    e = opt(e)
    if e is None:
        r, detail = "ok", None
    elif e == "EOutOfFuel":
        r, detail = "OutOfFuel", None
    elif e[0] == "ECyclic":
        r, detail = "CyclicIngredients", list(e[1])
    elif e[0] == "EClaimMissing":
        r, detail = "ClaimMissing", e[1]
    elif e[0] == "EDepth":
        r, detail = "InvalidAsset", e[1]
    else:
        r, detail = str(e), None
    rm = {}
    for (tg, c) in refs:
        rm.setdefault(tg, set()).add(c)
    lg = []
    for it in log:
        if it[0] == "LMissing":
            lg.append(["f", "ingredient.manifest.missing", it[1]])
        elif it[0] == "LCyclic":
            lg.append(["f", "assertion.ingredient.malformed", [it[1], "c2pa.ingredient.v2" + (f"__{it[2]}" if it[2] else "")]])
        else:
            lg.append(it)
    return {"r": r, "detail": detail, "map": sorted(memo), "refs": sorted([k, sorted(v)] for k, v in rm.items()), "log": lg,
            "binding": opt(bres), "steps": steps, "maxdepth": maxd, "bfuel": bfuel == "true", "bsteps": bsteps, "bdepth": bdepth}


def impl_walk_canon(r):
    if r["r"] in ("panic", "crash"):
        return {"r": r["r"]}
    detail = r.get("detail")
    if r["r"] == "InvalidAsset":
        m = re.search(r"ingredient chain depth \((\d+)\)", str(detail))
        detail = int(m.group(1)) if m else detail
    return {"r": r["r"], "detail": detail, "map": r["map"], "refs": [[k, v] for k, v in r["refs"]], "log": r["log"], "binding": r["binding"]}


# ------------------------------------------------------------------ evaluation (walk level)

def coq_eval_bigstack(exprs):
    """coqc overflows its 8 MiB stack while parsing list literals with tens of thousands of elements: raise the soft
    stack limit for the coqc children only (the harness keeps the default, the stack probe depends on it)"""
    import resource
    soft, hard = resource.getrlimit(resource.RLIMIT_STACK)
    try:
        resource.setrlimit(resource.RLIMIT_STACK, (hard if hard != resource.RLIM_INFINITY else 4 << 30, hard))
    except (ValueError, OSError):
        pass
    try:
        return common.coq_eval("C19", IMPORTS, exprs, shard_size=max(1, (len(exprs) + 15) // 16), timeout=1500)
    finally:
        resource.setrlimit(resource.RLIMIT_STACK, (soft, hard))

def budget_us(a):
    return 3_000_000 + 10_000 * (a["V"] + a["E"])


def run_all(cases, rounds=6):
    """common.run_harness loses the rest of a shard when a case aborts the process (stack overflow): re-run what was lost"""
    out = common.run_harness("c19", cases, timeout=900)
    for _ in range(rounds):
        missing = [c for c in cases if c["id"] not in out]
        if not missing:
            break
        out.update(common.run_harness("c19", missing, timeout=900))
    for c in cases:
        out.setdefault(c["id"], {"id": c["id"], "r": "not-run"})
    return out


def evaluate_walk(ctx, cases, with_model=True, stats=None):
    limit = limit_of(ctx)
    impl = run_all(cases)
    model = None
    if with_model:
        small = [c for c in cases if len(c["nodes"]) <= 6]
        big = [c for c in cases if len(c["nodes"]) > 6]
        B = 400
        exprs = [coq_walk_batch(small[i:i + B]) for i in range(0, len(small), B)] + [coq_walk_batch([c]) for c in big]
        res = coq_eval_bigstack(exprs)
        model = {}
        k = 0
        for i in range(0, len(small), B):
            for c, t in zip(small[i:i + B], res[k]):
                model[c["id"]] = model_walk_canon(t)
            k += 1
        for c in big:
            model[c["id"]] = model_walk_canon(res[k][0])
            k += 1
    stats = stats if stats is not None else {}
    st = stats.setdefault("walk", {"families": {}, "classes": {}, "results": {}, "must_reject": 0, "accepted": 0, "max_us": 0,
                                   "max_model_steps": 0, "max_model_depth": 0, "max_binding_depth": 0})
    distinct = set()
    for c in cases:
        r = impl[c["id"]]
        st["results"][r["r"]] = st["results"].get(r["r"], 0) + 1
        if r["r"] == "not-run":
            continue
        a = analyse(c)
        fam = c.get("fam", "?")
        st["families"][fam] = st["families"].get(fam, 0) + 1
        cls = "+".join(k for k in ("cyclic", "dangling") if a[k]) + ("+overdeep" if a["maxdist"] >= limit else "") or "wellformed"
        st["classes"][cls] = st["classes"].get(cls, 0) + 1
        if a["E"] > 0:
            distinct.add(json.dumps(c["nodes"], sort_keys=True))
        mi = {"fam": fam, "V": a["V"], "E": a["E"], "crashed": r["r"] in ("crash", "panic"), "binding_chain": binding_chain(c),
              "cyclic": a["cyclic"], "dangling": a["dangling"], "maxdist": a["maxdist"], "mode": c.get("mode", "walk")}
        # ---- oracle: the property text on the implementation alone
        if r["r"] in ("crash", "panic"):
            ctx.report_violation(c, f"validation did not terminate normally ({r['r']}): {str(r.get('msg'))[-160:]}", mi)
            continue
        us = r.get("us_ref", 0) + r.get("us_bind", 0)
        st["max_us"] = max(st["max_us"], us)
        if us > budget_us(a):
            ctx.report_violation(c, f"walks took {us} us for |V|={a['V']} |E|={a['E']} (budget {budget_us(a)} us)", mi)
        flagged = r["r"] != "ok" or any(x[0] == "f" for x in r.get("log", []))
        if a["cyclic"] or a["maxdist"] >= limit or a["dangling"]:
            st["must_reject"] += 1
            if not flagged:
                ctx.report_violation(c, f"{cls} ingredient graph accepted: result ok and no failure logged", mi)
            if a["dangling"] and r["r"] == "ok" and not any(x[1] == "ingredient.manifest.missing" and x[0] == "f" for x in r["log"]):
                ctx.report_violation(c, "dangling ingredient reference not flagged as ingredient.manifest.missing", mi)
        elif not flagged:
            st["accepted"] += 1
        # ---- correspondence
        if model is not None:
            mo = model[c["id"]]
            st["max_model_steps"] = max(st["max_model_steps"], mo["steps"])
            st["max_model_depth"] = max(st["max_model_depth"], mo["maxdepth"])
            st["max_binding_depth"] = max(st["max_binding_depth"], mo["bdepth"])
            ic = impl_walk_canon(r)
            mc = {k: mo[k] for k in ("r", "detail", "map", "refs", "log", "binding")}
            if ic != mc or mo["bfuel"]:
                diff = [k for k in mc if ic.get(k) != mc[k]] + (["binding-out-of-fuel"] if mo["bfuel"] else [])
                ctx.disagreements.append({"case": c, "differs": diff, "impl": {k: ic.get(k) for k in diff}, "model": {k: mc.get(k) for k in diff}})
    return len(distinct)


# ------------------------------------------------------------------ evaluation (signed stores, end to end)

def build_order(case):
    """DFS post-order from the root over present references (targets before referrers), unreachable manifests first;
    sets hash_ok (r[3]) = the target is already built when the referrer is signed (and not deliberately broken)"""
    nodes = case["nodes"]
    n = len(nodes)
    root = case.get("root", 0)
    order, seen = [], set()
    for start in [i for i in range(n) if i != root] [::-1] + [root]:
        if start in seen:
            continue
        # only the root's component is explored depth-first; leftovers are appended before it
        stack = [(start, iter([r[0] for r in nodes[start]["ings"] if r[1] and r[0] < n]))] if start == root else None
        if stack is None:
            continue
        seen.add(start)
        while stack:
            x, it = stack[-1]
            nxt = next((y for y in it if y not in seen), None)
            if nxt is None:
                order.append(x)
                stack.pop()
            else:
                seen.add(nxt)
                stack.append((nxt, iter([r[0] for r in nodes[nxt]["ings"] if r[1] and r[0] < n])))
    rest = [i for i in range(n) if i not in seen]
    order = rest + order
    pos = {x: k for k, x in enumerate(order)}
    for i, nd in enumerate(nodes):
        for r in nd["ings"]:
            built = r[0] < n and pos[r[0]] < pos[i]
            want = r[3] if len(r) > 3 else 1
            if len(r) > 3:
                r[3] = 1 if (built and want) else 0
            else:
                r.append(1 if built else 0)
    case["order"] = order
    return case


def e2e_of(case, break_hash=None):
    c = json.loads(json.dumps(case))
    c["mode"] = "e2e"
    c["stop"] = 0
    c["root"] = 0
    for nd in c["nodes"]:
        nd["u"], nd["h"] = 0, 1
        for r in nd["ings"]:
            r[1] = 1
            r[2] = 2
            if len(r) > 3:
                r[3] = 1
    if break_hash is not None:
        refs = [r for nd in c["nodes"] for r in nd["ings"]]
        if refs:
            refs[break_hash % len(refs)][3] = 0
            c["fam"] = c.get("fam", "?") + "+mismatch"
    return build_order(c)


def coq_e2e(c):
    return f"(run_walk {coq_store(c)} false {c.get('root', 0)}, run_checks {coq_store(c)} false {c.get('root', 0)})"


CHK_LOG = {"LValidated": ("s", "ingredient.manifest.validated"), "LMismatch": ("f", "ingredient.manifest.mismatch")}


def model_e2e_canon(t):
    w, ck = tuple(t[:6]), t[6]      # Coq prints ((a, .., f), g) as (a, .., f, g)
    mw = model_walk_canon(w)
    e, clog, verifs, (csteps, cdepth), nvis = ck
    lg = []
    for it in clog:
        if it[0] in CHK_LOG:
            k, code = CHK_LOG[it[0]]
            lg.append([k, code, [it[1], ""]])
        elif it[0] == "LNotFound":
            lg.append(["f", "ingredient.manifest.missing", it[1]])
        elif it[0] == "LProvUnknown":
            lg.append(["i", "ingredient.unknownProvenance", [it[1], "c2pa.ingredient.v2" + (f"__{it[2]}" if it[2] else "")]])
    # v3 ingredient assertions in the signed stores
    for x in mw["log"]:
        if x[1] == "assertion.ingredient.malformed":
            x[2][1] = x[2][1].replace(".v2", ".v3")
    return {"walk": mw, "cerr": opt(e), "clog": lg, "verifs": verifs, "csteps": csteps, "cdepth": cdepth}


def run_parallel(cases, nproc=16, timeout=1500):
    """like common.run_harness but always spreads over nproc processes (signed stores are expensive to craft)"""
    import subprocess
    os.makedirs(common.CASES, exist_ok=True)
    nproc = max(1, min(nproc, len(cases)))
    shards = [cases[i::nproc] for i in range(nproc)]
    procs = []
    for k, shard in enumerate(shards):
        path = os.path.join(common.CASES, f"c19_e2e_in_{k}.jsonl")
        with open(path, "w") as f:
            for c in shard:
                f.write(json.dumps(c) + "\n")
        procs.append((shard, subprocess.Popen([common.HARNESS_BIN, "c19", path], stdout=subprocess.PIPE, stderr=subprocess.PIPE, text=True)))
    out = {}
    for shard, p in procs:
        try:
            so, se = p.communicate(timeout=timeout)
        except subprocess.TimeoutExpired:
            p.kill()
            so, se = p.communicate()
            se += "\nTIMEOUT"
        for line in so.splitlines():
            try:
                r = json.loads(line)
                out[r["id"]] = r
            except Exception:
                pass
        for c in shard:
            if c["id"] not in out:
                out[c["id"]] = {"id": c["id"], "r": "crash", "msg": f"harness died rc={p.returncode}: {se[-300:]}"}
                break
    for shard, _ in procs:
        for c in shard:
            out.setdefault(c["id"], {"id": c["id"], "r": "not-run"})
    return out


def evaluate_e2e(ctx, cases, stats, with_model=True):
    limit = limit_of(ctx)
    impl = run_parallel(cases)
    model = None
    if with_model:
        res = coq_eval_bigstack([coq_e2e(c) for c in cases])
        model = {c["id"]: model_e2e_canon(t) for c, t in zip(cases, res)}
    st = stats.setdefault("e2e", {"families": {}, "classes": {}, "states": {}, "must_reject": 0, "valid_or_trusted": 0, "max_us_read": 0,
                                  "max_verifs": 0, "max_manifests": 0})
    for c in cases:
        r = impl[c["id"]]
        a = analyse(c)
        fam = c.get("fam", "?")
        st["families"][fam] = st["families"].get(fam, 0) + 1
        cls = "+".join(k for k in ("cyclic", "dangling") if a[k]) + ("+overdeep" if a["maxdist"] >= limit else "") or "wellformed"
        st["classes"][cls] = st["classes"].get(cls, 0) + 1
        st["max_manifests"] = max(st["max_manifests"], a["V"])
        mi = {"fam": fam, "V": a["V"], "E": a["E"], "crashed": r["r"] in ("crash", "panic"), "binding_chain": binding_chain(c),
              "cyclic": a["cyclic"], "dangling": a["dangling"], "maxdist": a["maxdist"], "mode": "e2e"}
        if r["r"] in ("crash", "panic"):
            ctx.report_violation(c, f"validation did not terminate normally ({r['r']}): {str(r.get('msg'))[-160:]}", mi)
            continue
        if r["r"] == "not-run":
            continue
        if r["r"] != "done":
            ctx.disagreements.append({"case": c, "differs": ["craft"], "impl": r, "model": None})
            continue
        rd = r["reader"]
        state = rd["report"]["state"] if rd["r"] == "ok" else "Err:" + rd["kind"]
        st["states"][state] = st["states"].get(state, 0) + 1
        st["max_us_read"] = max(st["max_us_read"], r["us_read"])
        # ---- oracle
        if r["us_read"] > budget_us(a) * 4:
            ctx.report_violation(c, f"reading took {r['us_read']} us for |V|={a['V']} |E|={a['E']} (budget {4 * budget_us(a)} us)", mi)
        if a["cyclic"] or a["dangling"] or a["maxdist"] >= limit:
            st["must_reject"] += 1
            if state in ("Valid", "Trusted"):
                ctx.report_violation(c, f"{cls} ingredient graph reported {state}", mi)
        if state in ("Valid", "Trusted"):
            st["valid_or_trusted"] += 1
        # ---- correspondence
        if model is not None:
            mo = model[c["id"]]
            mw = mo["walk"]
            st["max_verifs"] = max(st["max_verifs"], mo["verifs"])
            diff = []
            if mw["r"] != "ok":
                if r["store"] != mw["r"] or (mw["r"] == "CyclicIngredients" and r["detail"] != mw["detail"]):
                    diff.append("store-result")
                if rd["r"] != "err" or rd["kind"] != mw["r"]:
                    diff.append("reader-result")
                if r["walks"] != mw["log"]:
                    diff.append("walk-log")
                exp = {"store": mw["r"], "detail": mw["detail"], "walks": mw["log"]}
            else:
                want = mw["log"] + mo["clog"]
                clean = not any(x[0] == "f" for x in want)
                if r["store"] != "ok" or mo["cerr"] is not None:
                    diff.append("store-result")
                if r["walks"] != want:
                    diff.append("walk-log")
                if r["nsig"] != 1 + mo["verifs"]:
                    diff.append("verify-count")
                if clean != (state in ("Valid", "Trusted")):
                    diff.append("state")
                exp = {"store": "ok", "walks": want, "nsig": 1 + mo["verifs"], "valid": clean}
            if diff:
                ctx.disagreements.append({"case": c, "differs": diff, "impl": {"store": r["store"], "detail": r["detail"], "state": state, "nsig": r["nsig"],
                                                                              "walks": r["walks"][:12], "failures": r["failures"][:6]}, "model": exp})


def e2e_cases(ctx, limit):
    rng = ctx.rng
    out = []
    quick = ctx.quick()
    # every directed graph on 1..3 manifests (self loops included), as signed stores
    for n in (1, 2, 3):
        allb = list(range(1 << (n * n)))
        pick = allb if (n < 3 or not quick) else rng.sample(allb, 70)
        for b in pick:
            out.append(e2e_of(small_graph(n, b)))
    for _ in range(25 if quick else 400):
        out.append(e2e_of(small_graph(4, rng.randrange(1 << 16))))
    for _ in range(25 if quick else 200):
        g = small_graph(rng.choice([2, 3, 4]), 0)
        n = len(g["nodes"])
        for i in range(n):                      # a random DAG, sometimes with a dangling reference
            g["nodes"][i]["ings"] = [ref(j, 1, 2) for j in range(i + 1, n) if rng.random() < 0.6]
            if rng.random() < 0.3:
                g["nodes"][i]["ings"].append(ref(n + 1, 1, 2))
            rng.shuffle(g["nodes"][i]["ings"])
        g["fam"] = "small-dag"
        out.append(e2e_of(g, break_hash=rng.randrange(8) if rng.random() < 0.3 else None))
    for _ in range(6 if quick else 40):
        g = random_graph(rng, nmax=40 if quick else 120)
        out.append(e2e_of(g))
    out += [e2e_of(ladder(d)) for d in ((3, 10, 14) if quick else (1, 3, 10, 14, 30))]
    out += [e2e_of(complete_dag(k, desc)) for k in ((6,) if quick else (6, 14)) for desc in (False, True)]
    out += [e2e_of(chain(n)) for n in (limit - 1, limit, limit + 1)]
    if not quick:
        out += [e2e_of(chain(limit + 1, "dangling")), e2e_of(chain(limit, "cycle")), e2e_of(fan_chain(limit + 10, True)), e2e_of(fan_chain(limit + 10, False))]
    for i, c in enumerate(out):
        c["id"] = i
    return out


def stack_probe(ctx, n, mode, stats):
    """the hard-binding fans of F-BINDING-DEPTH (fixed in c381c9a00), one harness process each because a stack overflow
    aborts the process: ordinary cases now (walk mode: oracle + model correspondence; jumbf mode, through
    Reader::with_stream on the unsigned store: oracle) — a crash is a violation again"""
    c = deep_binding(n, mode)
    c["id"] = 0
    t0 = time.time()
    small = {"mode": mode, "fam": c["fam"], "root": 0, "generator": f"deep_binding({n})", "nodes_elided": len(c["nodes"]),
             "shape": "root: componentOf u_n..u_2, parentOf u_1; u_i (update): parentOf u_{i+1}; u_{n+1}: standard manifest with a data hash"}
    rec = {"n": n, "mode": mode, "binding_chain": binding_chain(c)}
    stats.setdefault("stack_probe", []).append(rec)
    if mode == "walk":
        nv, nd = len(ctx.violations), len(ctx.disagreements)
        evaluate_walk(ctx, [c], True, stats)
        for v in ctx.violations[nv:]:
            v["case"] = small
        for d in ctx.disagreements[nd:]:
            d["case"] = small
        rec["result"] = "violation" if len(ctx.violations) > nv else ("disagreement" if len(ctx.disagreements) > nd else "ok")
    else:
        r = common.run_harness("c19", [c], timeout=900)[0]
        a = analyse(c)
        mi = {"fam": c["fam"], "V": a["V"], "E": a["E"], "crashed": r["r"] in ("crash", "panic"), "binding_chain": rec["binding_chain"],
              "cyclic": a["cyclic"], "dangling": a["dangling"], "maxdist": a["maxdist"], "mode": mode}
        rec["result"] = r["r"] + (":" + r["kind"] if "kind" in r else "") + (":" + r["state"] if "state" in r else "")
        if r["r"] in ("crash", "panic"):
            ctx.report_violation(small, f"validation did not terminate normally ({r['r']}): {str(r.get('msg'))[-160:]}", mi)
        elif r.get("us", 0) > 4 * budget_us(a):
            ctx.report_violation(small, f"reading took {r['us']} us for |V|={a['V']} |E|={a['E']}", mi)
        elif r["r"] == "ok" and r.get("state") in ("Valid", "Trusted"):
            ctx.report_violation(small, f"unsigned store reported {r['state']}", mi)
    rec["wall_s"] = round(time.time() - t0, 1)


def run(ctx):
    t_phase = time.time()
    if not getattr(ctx, "no_build", False):
        common.build_harness()
    phases = {"build_s": round(time.time() - t_phase, 1)}
    limit = limit_of(ctx)
    stats = {}
    if ctx.replay:
        cases = [ctx.replay["case"]] if "case" in ctx.replay else [d["case"] for d in ctx.replay.get("disagreements", [])]
        cases = [c for c in cases if "nodes" in c]
        if "case" in ctx.replay and "generator" in ctx.replay["case"]:
            m = re.match(r"deep_binding\((\d+)\)", ctx.replay["case"]["generator"])
            stack_probe(ctx, int(m.group(1)), ctx.replay["case"].get("mode", "walk"), stats)
    else:
        cases = corpus()
        cases += exhaustive_small(ctx.rng, 1200 if ctx.quick() else None)
        cases += [random_graph(ctx.rng) for _ in range(120 if ctx.quick() else 2500)]
        for n in (limit - 1, limit, limit + 1, limit + 2):
            cases += [chain(n), chain(n, rel=0)]
        for n in (3, 50, limit - 1, limit, limit + 1):
            cases += [chain(n, "cycle"), chain(n, "self"), chain(n, "dangling")]
        cases += [ladder(d) for d in ((4, 20, 60, (limit - 2)) if ctx.quick() else (1, 2, 4, 8, 20, 40, 60, 90, limit - 2, limit - 1, limit, limit + 20))]
        cases += [complete_dag(k, desc) for k in ((8, 40) if ctx.quick() else (3, 8, 40, 100, limit + 30)) for desc in (False, True)]
        cases += [fan_chain(k, desc) for k in (limit - 2, limit - 1, limit, limit + 10) for desc in (False, True)]
        cases += [deep_binding(n) for n in ((3, 300) if ctx.quick() else (1, 3, 50, limit, 300))]
    walk_cases = [c for c in cases if c.get("mode", "walk") == "walk"]
    for i, c in enumerate(walk_cases):
        c["id"] = i
    t_phase = time.time()
    distinct = evaluate_walk(ctx, walk_cases, True, stats) if walk_cases else 0
    phases["walk_s"] = round(time.time() - t_phase, 1)
    t_phase = time.time()
    e2e = [c for c in cases if c.get("mode") == "e2e"] if ctx.replay else e2e_cases(ctx, limit)
    for i, c in enumerate(e2e):
        c["id"] = i
    if e2e:
        evaluate_e2e(ctx, e2e, stats)
    phases["e2e_s"] = round(time.time() - t_phase, 1)
    t_phase = time.time()
    if not ctx.replay:
        for n, mode in corpus_probes():
            if mode == "walk" or not ctx.quick():
                stack_probe(ctx, n, mode, stats)
    phases["probe_s"] = round(time.time() - t_phase, 1)
    stats["phases"] = phases
    common.log(f"[C19] phases {phases}")
    ctx.coverage.update({
        "evaluations": len(walk_cases) + len(e2e) + len(stats.get("stack_probe", [])), "distinct_nontrivial": distinct,
        "e2e_signed_stores": len(e2e),
        "rule": "corpus + every directed graph (self loops included) on 1..3 manifests twice (plain / randomised flags, order, dangling refs) "
                "+ 4-manifest graphs (sampled in quick, all 65536 in thorough) + seeded random graphs up to 300 manifests (DAGs, deep DAGs, sparse "
                "digraphs, update chains) + chains of limit-1..limit+2 manifests (plain, ending in a cycle / self loop / dangling reference) + "
                "ladders with 2^d paths + complete DAGs in both ingredient orders + hard-binding fans; non-trivial = at least one reference; distinct by node list",
        "distribution": stats, "limit": limit,
        "traces_validated_against_impl": len(walk_cases),
        "samples": [{"fam": c.get("fam"), "stop": c.get("stop"), "nodes": c["nodes"][:3], "n": len(c["nodes"])} for c in walk_cases[:1] + walk_cases[len(walk_cases) // 2: len(walk_cases) // 2 + 2]],
    })


def search(ctx):
    common.build_harness()
    cases = exhaustive_small(ctx.rng, 8000) + [random_graph(ctx.rng) for _ in range(1500)]
    limit = limit_of(ctx)
    for n in range(max(1, limit - 3), limit + 4):
        cases += [chain(n), chain(n, "cycle"), chain(n, "dangling")]
    for i, c in enumerate(cases):
        c["id"] = i
    evaluate_walk(ctx, cases, with_model=False, stats={})
    ctx.coverage["search_evaluations"] = len(cases)
