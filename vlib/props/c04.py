"""C04 — the validation state is derived soundly from the validation codes."""
import itertools, json, os, re
from .. import common
from ..common import TieBroken, coq_list

PROP_FILE = "Properties/C04.v"
TRUSTED = ["status codes are compared as UTF-8 byte strings (str == / starts_with are byte-wise)",
           "serde (de)serialisation of ValidationResults / Reader used only to reach Some(vec![]) deltas and the Reader paths",
           "hook Reader::verif_from_json_with_context only replaces the context of a Reader built by Reader::from_json"]
ASSUMPTIONS = ["Reader::from_json uses Settings::default() (verify_trust = true); other contexts are injected through the hook"]

# ---- the property text, pinned (the oracle never reads these from the source under test)
VALIDATED = "claimSignature.validated"
INSIDE = "claimSignature.insideValidity"
TRUSTED_CODE = "signingCredential.trusted"
UNTRUSTED = "signingCredential.untrusted"        # "explicitly tolerated credential codes":
TOL_PREFIX = "cawg.x509."                        # the claim-signature credential and CAWG X.509 credential codes
ORDER = {"Invalid": 0, "Valid": 1, "Trusted": 2}


def tolerated(code):
    return code == UNTRUSTED or code.startswith(TOL_PREFIX)


def coq_str(s):
    return "[" + ";".join(str(x) for x in s.encode("utf-8")) + "]%N"


# ------------------------------------------------------------------ facts

def facts(ctx):
    vr = common.strip_tests(common.src("sdk/src/validation_results.rs"))
    consts = dict(re.findall(r'pub const ([A-Z0-9_]+): &str\s*=\s*"([^"]*)";', vr))
    vs = common.strip_tests(common.src("sdk/src/validation_status.rs"))
    consts.update(dict(re.findall(r'pub(?:\(crate\))? const ([A-Z0-9_]+): &str\s*=\s*"([^"]*)";', vs)))
    prefix_m = common.fact(r'const\s+CAWG_X509_STATUS_PREFIX\s*:\s*&str\s*=\s*"([^"]*)";', vr, "CAWG_X509_STATUS_PREFIX")
    if len(consts) < 50:
        raise TieBroken(f"srcfacts: only {len(consts)} status code constants found")

    def cval(name, where):
        if name == "CAWG_X509_STATUS_PREFIX":
            return prefix_m.group(1)
        if name not in consts:
            raise TieBroken(f"srcfacts: constant {name} used in {where} is not defined in validation_codes")
        return consts[name]

    # is_tolerated_manifest_failure_code: disjunction of `code == C` and `code.starts_with(P)`
    tol = common.fn_body(vr, r"fn\s+is_tolerated_manifest_failure_code\s*\(", "is_tolerated_manifest_failure_code")
    tol_n = re.sub(r"\s+", "", tol)
    eqs = re.findall(r"code==(?:validation_status::)?([A-Z0-9_]+)", tol_n)
    pres = re.findall(r"code\.starts_with\(([A-Z0-9_]+)\)", tol_n)
    if len(eqs) + len(pres) != tol_n.count("||") + 1 or "&&" in tol_n or "!" in tol_n:
        raise TieBroken("srcfacts: is_tolerated_manifest_failure_code is no longer a disjunction of `code == C` / `code.starts_with(P)`: " + tol_n[:200])
    # validation_state: the success codes required by is_valid and by is_trusted
    body = common.fn_body(vr, r"pub\s+fn\s+validation_state\s*\(\s*&self\s*\)\s*->\s*ValidationState", "ValidationResults::validation_state")
    body = re.sub(r"//[^\n]*", "", body)
    mv = common.fact(r"let\s+is_valid\s*=(.*?);\s*let\s+is_trusted\s*=(.*?);\s*if\s+is_trusted", body, "is_valid / is_trusted conjunctions")
    segv, segt = (re.sub(r"\s+", "", x) for x in mv.groups())
    req = re.compile(r"\.success\(\)\.iter\(\)\.any\(\|status\|\{?status\.code\(\)==validation_status::([A-Z0-9_]+)\}?\)")
    valid_req, trusted_req = req.findall(segv), req.findall(segt)
    shape = lambda seg: (seg.count("&&"), seg.count("||"), seg.count(".all("), seg.count(".any("), seg.count("is_empty()"),
                         seg.count("is_tolerated_manifest_failure_code"), seg.count("!"))
    want_v, want_t = (3, 2, 4, 2, 2, 2, 0), (3, 0, 2, 1, 2, 0, 0)
    if shape(segv) != want_v or shape(segt) != want_t or not segt.endswith("&&is_valid"):
        raise TieBroken(f"srcfacts: shape of the is_valid/is_trusted conjunctions changed: {shape(segv)} (pinned {want_v}), {shape(segt)} (pinned {want_t})")
    # log_kind tables
    lk = common.fn_body(vr, r"pub\s+fn\s+log_kind\s*\(", "log_kind")
    ml = common.fact(r"match\s+status_code\s*\{(.*?)=>\s*LogKind::Success\s*,(.*?)=>\s*LogKind::Informational\s*,\s*_\s*=>\s*LogKind::Failure", lk, "log_kind arms")
    succ = re.findall(r"[A-Z0-9_]+", ml.group(1))
    info = re.findall(r"[A-Z0-9_]+", ml.group(2))
    # legacy fallback of Reader::validation_state
    rd = common.strip_tests(common.src("sdk/src/reader.rs"))
    rb = common.fn_body(rd, r"pub\s+fn\s+validation_state\s*\(\s*&self\s*\)\s*->\s*ValidationState", "Reader::validation_state")
    rb_n = re.sub(r"\s+", "", re.sub(r"//[^\n]*", "", rb))
    ml = common.fact(r"\.any\(\|s\|s\.code\(\)!=crate::validation_status::([A-Z0-9_]+)\)", rb_n, "legacy tolerated code")
    legacy_const = ml.group(1)
    pinned_legacy = ("{ifletSome(validation_results)=self.validation_results(){returnvalidation_results.validation_state();}"
                     "letverify_trust=self.context.settings().verify.verify_trust;matchself.validation_status(){Some(status)=>{"
                     "leterrs=status.iter().any(|s|s.code()!=crate::validation_status::" + legacy_const + ");"
                     "iferrs{ValidationState::Invalid}elseifverify_trust{ValidationState::Trusted}else{ValidationState::Valid}}"
                     "None=>{ifverify_trust{ValidationState::Trusted}else{ValidationState::Valid}}}}")
    if rb_n != pinned_legacy:
        raise TieBroken("srcfacts: Reader::validation_state no longer has the pinned shape (results object first, then the status-list fallback)")

    names = sorted(consts)
    out = ["(* generated from sdk/src/validation_results.rs, validation_status.rs, reader.rs on every run — do not edit *)",
           "From Coq Require Import NArith List.", "Import ListNotations.", "Open Scope N_scope.", ""]
    for n in names:
        out.append(f"Definition c_{n} : list N := {coq_str(consts[n])}.")
    out.append(f"Definition c_CAWG_X509_STATUS_PREFIX : list N := {coq_str(prefix_m.group(1))}.")
    for n in set(eqs + pres + valid_req + trusted_req + succ + info + [legacy_const]):
        cval(n, "the decision functions")
    out.append("")
    out.append("(* success codes that is_valid / is_trusted look for in the active manifest's success list *)")
    out.append("Definition valid_success_req : list (list N) := " + coq_list([f"c_{n}" for n in valid_req]) + ".")
    out.append("Definition trusted_success_req : list (list N) := " + coq_list([f"c_{n}" for n in trusted_req]) + ".")
    out.append("(* is_tolerated_manifest_failure_code: code == one of these, or code.starts_with one of these *)")
    out.append("Definition tolerated_exact : list (list N) := " + coq_list([f"c_{n}" for n in eqs]) + ".")
    out.append("Definition tolerated_prefixes : list (list N) := " + coq_list([f"c_{n}" for n in pres]) + ".")
    out.append("(* the only code the status-list fallback of Reader::validation_state tolerates *)")
    out.append(f"Definition legacy_tolerated : list N := c_{legacy_const}.")
    out.append("(* log_kind *)")
    out.append("Definition success_table : list (list N) := " + coq_list([f"c_{n}" for n in succ]) + ".")
    out.append("Definition informational_table : list (list N) := " + coq_list([f"c_{n}" for n in info]) + ".")
    out.append("Definition all_codes : list (list N) := " + coq_list([f"c_{n}" for n in names]) + ".")
    common.write_if_changed(os.path.join(common.COQ, "Generated", "C04_facts.v"), "\n".join(out) + "\n")
    ctx.facts = {"consts": consts, "valid_req": [consts[n] for n in valid_req], "trusted_req": [consts[n] for n in trusted_req],
                 "tolerated_exact": [consts[n] for n in eqs], "tolerated_prefixes": [cval(n, "tol") for n in pres],
                 "legacy_tolerated": consts[legacy_const], "success_table": [consts[n] for n in succ],
                 "informational_table": [consts[n] for n in info]}
