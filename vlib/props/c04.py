"""C04 — the validation state is derived soundly from the validation codes."""
import itertools, json, os, re
from .. import common
from ..common import TieBroken, coq_list

PROP_FILE = "Properties/C04.v"
TRUSTED = ["status codes are compared as UTF-8 byte strings (str == / starts_with are byte-wise)",
           "serde (de)serialisation of ValidationResults / Reader used only to reach Some(vec![]) deltas and the Reader paths",
           "hook Reader::verif_from_json_with_context only replaces the context of a Reader built by Reader::from_json"]
ASSUMPTIONS = ["Reader::from_json uses Settings::default() (verify_trust = true); other contexts are injected through the hook"]

# ---- the property text, pinned (the oracle never reads these from the source under test)
VALIDATED = "claimSignature.validated"
INSIDE = "claimSignature.insideValidity"
TRUSTED_CODE = "signingCredential.trusted"
UNTRUSTED = "signingCredential.untrusted"        # "explicitly tolerated credential codes":
TOL_PREFIX = "cawg."                             # ... and every CAWG identity-assertion failure code (the property text names no
                                                 # prefix; since fix b8b0a0d9a the source tolerates "cawg.", was "cawg.x509.")
ORDER = {"Invalid": 0, "Valid": 1, "Trusted": 2}


def tolerated(code):
    return code == UNTRUSTED or code.startswith(TOL_PREFIX)


def coq_str(s):
    return "[" + ";".join(str(x) for x in s.encode("utf-8")) + "]%N"


# ------------------------------------------------------------------ facts

def facts(ctx):
    vr = common.strip_tests(common.src("sdk/src/validation_results.rs"))
    consts = dict(re.findall(r'pub const ([A-Z0-9_]+): &str\s*=\s*"([^"]*)";', vr))
    vs = common.strip_tests(common.src("sdk/src/validation_status.rs"))
    consts.update(dict(re.findall(r'pub(?:\(crate\))? const ([A-Z0-9_]+): &str\s*=\s*"([^"]*)";', vs)))
    prefix_m = common.fact(r'const\s+CAWG_X509_STATUS_PREFIX\s*:\s*&str\s*=\s*"([^"]*)";', vr, "CAWG_X509_STATUS_PREFIX")
    if len(consts) < 50:
        raise TieBroken(f"srcfacts: only {len(consts)} status code constants found")

    def cval(name, where):
        if name == "CAWG_X509_STATUS_PREFIX":
            return prefix_m.group(1)
        if name not in consts:
            raise TieBroken(f"srcfacts: constant {name} used in {where} is not defined in validation_codes")
        return consts[name]

    # is_tolerated_manifest_failure_code: disjunction of `code == C` and `code.starts_with(P)`
    tol = common.fn_body(vr, r"fn\s+is_tolerated_manifest_failure_code\s*\(", "is_tolerated_manifest_failure_code")
    tol_n = re.sub(r"\s+", "", tol)
    eqs = re.findall(r"code==(?:validation_status::)?([A-Z0-9_]+)", tol_n)
    pres = re.findall(r"code\.starts_with\(([A-Z0-9_]+)\)", tol_n)
    if len(eqs) + len(pres) != tol_n.count("||") + 1 or "&&" in tol_n or "!" in tol_n:
        raise TieBroken("srcfacts: is_tolerated_manifest_failure_code is no longer a disjunction of `code == C` / `code.starts_with(P)`: " + tol_n[:200])
    # validation_state: the success codes required by is_valid and by is_trusted
    body = common.fn_body(vr, r"pub\s+fn\s+validation_state\s*\(\s*&self\s*\)\s*->\s*ValidationState", "ValidationResults::validation_state")
    body = re.sub(r"//[^\n]*", "", body)
    mv = common.fact(r"let\s+is_valid\s*=(.*?);\s*let\s+is_trusted\s*=(.*?);\s*if\s+is_trusted", body, "is_valid / is_trusted conjunctions")
    segv, segt = (re.sub(r"\s+", "", x) for x in mv.groups())
    req = re.compile(r"\.success\(\)\.iter\(\)\.any\(\|status\|\{?status\.code\(\)==validation_status::([A-Z0-9_]+)\}?\)")
    valid_req, trusted_req = req.findall(segv), req.findall(segt)
    shape = lambda seg: (seg.count("&&"), seg.count("||"), seg.count(".all("), seg.count(".any("), seg.count("is_empty()"),
                         seg.count("is_tolerated_manifest_failure_code"), seg.count("!"))
    want_v, want_t = (3, 2, 4, 2, 2, 2, 0), (3, 0, 2, 1, 2, 0, 0)
    if shape(segv) != want_v or shape(segt) != want_t or not segt.endswith("&&is_valid"):
        raise TieBroken(f"srcfacts: shape of the is_valid/is_trusted conjunctions changed: {shape(segv)} (pinned {want_v}), {shape(segt)} (pinned {want_t})")
    # log_kind tables
    lk = common.fn_body(vr, r"pub\s+fn\s+log_kind\s*\(", "log_kind")
    ml = common.fact(r"match\s+status_code\s*\{(.*?)=>\s*LogKind::Success\s*,(.*?)=>\s*LogKind::Informational\s*,\s*_\s*=>\s*LogKind::Failure", lk, "log_kind arms")
    succ = re.findall(r"[A-Z0-9_]+", ml.group(1))
    info = re.findall(r"[A-Z0-9_]+", ml.group(2))
    # legacy fallback of Reader::validation_state
    rd = common.strip_tests(common.src("sdk/src/reader.rs"))
    rb = common.fn_body(rd, r"pub\s+fn\s+validation_state\s*\(\s*&self\s*\)\s*->\s*ValidationState", "Reader::validation_state")
    rb_n = re.sub(r"\s+", "", re.sub(r"//[^\n]*", "", rb))
    ml = common.fact(r"\.any\(\|s\|s\.code\(\)!=crate::validation_status::([A-Z0-9_]+)\)", rb_n, "legacy tolerated code")
    legacy_const = ml.group(1)
    pinned_legacy = ("{ifletSome(validation_results)=self.validation_results(){returnvalidation_results.validation_state();}"
                     "letverify_trust=self.context.settings().verify.verify_trust;matchself.validation_status(){Some(status)=>{"
                     "leterrs=status.iter().any(|s|s.code()!=crate::validation_status::" + legacy_const + ");"
                     "iferrs{ValidationState::Invalid}elseifverify_trust{ValidationState::Trusted}else{ValidationState::Valid}}"
                     "None=>{ifverify_trust{ValidationState::Trusted}else{ValidationState::Valid}}}}")
    if rb_n != pinned_legacy:
        raise TieBroken("srcfacts: Reader::validation_state no longer has the pinned shape (results object first, then the status-list fallback)")

    names = sorted(consts)
    out = ["(* generated from sdk/src/validation_results.rs, validation_status.rs, reader.rs on every run — do not edit *)",
           "From Coq Require Import NArith List.", "Import ListNotations.", "Open Scope N_scope.", ""]
    for n in names:
        out.append(f"Definition c_{n} : list N := {coq_str(consts[n])}.")
    out.append(f"Definition c_CAWG_X509_STATUS_PREFIX : list N := {coq_str(prefix_m.group(1))}.")
    for n in set(eqs + pres + valid_req + trusted_req + succ + info + [legacy_const]):
        cval(n, "the decision functions")
    out.append("")
    out.append("(* success codes that is_valid / is_trusted look for in the active manifest's success list *)")
    out.append("Definition valid_success_req : list (list N) := " + coq_list([f"c_{n}" for n in valid_req]) + ".")
    out.append("Definition trusted_success_req : list (list N) := " + coq_list([f"c_{n}" for n in trusted_req]) + ".")
    out.append("(* is_tolerated_manifest_failure_code: code == one of these, or code.starts_with one of these *)")
    out.append("Definition tolerated_exact : list (list N) := " + coq_list([f"c_{n}" for n in eqs]) + ".")
    out.append("Definition tolerated_prefixes : list (list N) := " + coq_list([f"c_{n}" for n in pres]) + ".")
    out.append("(* the only code the status-list fallback of Reader::validation_state tolerates *)")
    out.append(f"Definition legacy_tolerated : list N := c_{legacy_const}.")
    out.append("(* log_kind *)")
    out.append("Definition success_table : list (list N) := " + coq_list([f"c_{n}" for n in succ]) + ".")
    out.append("Definition informational_table : list (list N) := " + coq_list([f"c_{n}" for n in info]) + ".")
    out.append("Definition all_codes : list (list N) := " + coq_list([f"c_{n}" for n in names]) + ".")
    common.write_if_changed(os.path.join(common.COQ, "Generated", "C04_facts.v"), "\n".join(out) + "\n")
    ctx.facts = {"consts": consts, "valid_req": [consts[n] for n in valid_req], "trusted_req": [consts[n] for n in trusted_req],
                 "tolerated_exact": [consts[n] for n in eqs], "tolerated_prefixes": [cval(n, "tol") for n in pres],
                 "legacy_tolerated": consts[legacy_const], "success_table": [consts[n] for n in succ],
                 "informational_table": [consts[n] for n in info]}


# ------------------------------------------------------------------ oracle (the property text, on implementation output only)

def spec_conditions(dump):
    """(valid_cond, trusted_cond) of the property text for a dumped results object"""
    act = dump["active"]
    succ = [s[0] for s in act[0]] if act is not None else []
    fails = [s[0] for s in act[2]] if act is not None else []
    for d in dump["deltas"] or []:
        fails += [s[0] for s in d[3]]
    valid = act is not None and VALIDATED in succ and INSIDE in succ and all(tolerated(c) for c in fails)
    trusted = valid and TRUSTED_CODE in succ and not fails
    return valid, trusted, fails


def check_state(state, dump):
    valid, trusted, fails = spec_conditions(dump)
    if state == "Valid" and not valid:
        return f"state Valid although the Valid conditions do not hold (failures {fails[:4]})"
    if state == "Trusted" and not trusted:
        return f"state Trusted although the Trusted conditions do not hold (failures {fails[:4]})"
    if state not in ORDER:
        return f"unexpected state {state!r}"
    return None


def route(case):
    """where the property says statuses go: expected buckets after the add_status sequence"""
    act = None if case["active"] is None else [list(x) for x in case["active"]]
    ds = None if case["deltas"] is None else [[d[0], list(d[1]), list(d[2]), list(d[3])] for d in case["deltas"]]
    for st in case["ops"]:
        code, k, uri = st
        if uri is None:
            if act is None:
                act = [[], [], []]
            act[k].append(st)
        else:
            if ds is None:
                ds = []
            for d in ds:
                if d[0] == uri:
                    d[1 + k].append(st)
                    break
            else:
                d = [uri, [], [], []]
                d[1 + k].append(st)
                ds.append(d)
    return {"active": act, "deltas": ds}


def canon_routing(dump):
    """which of several deltas with the same URI receives a status is not part of the property: merge them"""
    ds = None
    if dump["deltas"] is not None:
        ds, order = {}, []
        for d in dump["deltas"]:
            if d[0] not in ds:
                ds[d[0]] = [[], [], []]
                order.append(d[0])
            for k in range(3):
                ds[d[0]][k] += [json.dumps(x) for x in d[1 + k]]
        ds = [[u] + [sorted(b) for b in ds[u]] for u in order]
    return {"active": dump["active"], "deltas": ds}


# ------------------------------------------------------------------ generation

CLASS_REPS = {"V": VALIDATED, "I": INSIDE, "T": TRUSTED_CODE, "U": UNTRUSTED, "C": TOL_PREFIX + "x509.credential.untrusted",
              "O": "assertion.dataHash.mismatch", "N": "timeStamp.untrusted", "S": "assertion.dataHash.match"}
CLASSES = "VITUCONS"
UNKNOWN = ["x.unknown", "cawg.x509.custom", "cawg.x509.", "cawg.x509", "cawg.", "cawg.x50", "Cawg.x509.a", "cawg", "caw.", "cawg-a", "cawgx.a",
           "cawg.identity.sig_type.unknown", " cawg.a", "signingCredential.untrusted ",
           "signingCredential.untrusteD", "signingCredential.untruste", "", "claimSignature.validated.extra", "ClaimSignature.validated",
           " claimSignature.validated", "cawg.x509.é", "é", "signingCredential.trusted\u0000", "xcawg.x509.a"]
URIS = [None, None, None, "u1", "u2", "self#jumbf=/c2pa/urn:c2pa:1/c2pa.assertions/c2pa.ingredient.v3", ""]


def multisets(k):
    out = []
    for n in range(k + 1):
        out += list(itertools.combinations_with_replacement(CLASSES, n))
    return out


def class_family():
    """pairwise-complete enumeration over code classes: (every active manifest up to 3+1+2 codes) x (representative deltas)
    and (every delta configuration) x (representative active manifests)"""
    nat = {"s": 0, "i": 1, "f": 2}

    def sts(cl, k):
        return [[CLASS_REPS[c], k, None] for c in cl]
    S_opts, F_opts = multisets(3), multisets(2)
    I_opts = [(), ("V", "I", "T"), ("O",)]
    rep_deltas = [None, [], [["u1", [], [], sts("U", 2)]], [["u1", sts("VIT", 0), [], sts("O", 2)]],
                  [["u1", [], [], []], ["u2", [], [], sts("C", 2)]], [["u1", [], sts("O", 1), []]]]
    out = []
    for dl in rep_deltas:
        out.append({"k": "results", "active": None, "deltas": dl})
        for s in S_opts:
            for i in I_opts:
                for f in F_opts:
                    out.append({"k": "results", "active": [sts(s, 0), sts(i, 1), sts(f, 2)], "deltas": dl})
    rep_active = [None] + [[sts(s, 0), [], sts(f, 2)] for n in range(4) for s in itertools.combinations("VIT", n)
                           for f in [(), ("U",), ("C",), ("O",), ("U", "C")]]
    dF = [(), ("U",), ("C",), ("O",), ("U", "C"), ("U", "O"), ("V",), ("S",)]
    delta_cfgs = [None, []]
    for s in [(), ("V", "I", "T")]:
        for f in F_opts:
            delta_cfgs.append([["u1", sts(s, 0), [], sts(f, 2)]])
    for f1 in dF:
        for f2 in dF:
            delta_cfgs.append([["u1", [], [], sts(f1, 2)], ["u2", [], [], sts(f2, 2)]])
    for a in rep_active:
        for dl in delta_cfgs:
            out.append({"k": "results", "active": a, "deltas": dl})
    extras = [["assertion.dataHash.mismatch", 2, None], ["general.error", 2, "u1"], ["x.unknown", 2, "u3"],
              [UNTRUSTED, 2, None], [TOL_PREFIX + "x", 2, "u2"], ["cawg", 2, None]]
    for n, c in enumerate(out):
        c["ops"] = []
        c["extra"] = extras[n % len(extras)]
        c["fam"] = "class"
    return out


def gen_random(rng, pool, natural):
    def code():
        r = rng.random()
        if r < 0.45:
            return rng.choice([VALIDATED, INSIDE, TRUSTED_CODE, UNTRUSTED, TOL_PREFIX + rng.choice(["a", "x509.credential.untrusted", "", "ica.x"])])
        if r < 0.8:
            return rng.choice(pool)
        return rng.choice(UNKNOWN)

    def st(bucket=None, uri="rand"):
        c = code()
        k = natural(c) if rng.random() < 0.7 else rng.randrange(3)
        if bucket is not None and rng.random() < 0.8:
            k = bucket
        return [c, k, (rng.choice(URIS) if uri == "rand" else uri)]

    def sc(bias_good):
        s = [st(0, None) for _ in range(rng.choice([0, 1, 2, 3]))]
        if bias_good:
            s += [[VALIDATED, 0, None], [INSIDE, 0, None]] + ([[TRUSTED_CODE, 0, None]] if rng.random() < 0.6 else [])
            rng.shuffle(s)
        i = [st(1, None) for _ in range(rng.choice([0, 0, 1, 2]))]
        f = [st(2, None) for _ in range(rng.choice([0, 0, 0, 1, 2]))]
        if bias_good and rng.random() < 0.7:
            f = [x for x in f if tolerated(x[0])]
        return [s, i, f]
    good = rng.random() < 0.6
    active = None if rng.random() < 0.12 else sc(good)
    r = rng.random()
    deltas = None if r < 0.3 else [] if r < 0.4 else [[rng.choice(["u1", "u2", "u1", ""])] + sc(False) for _ in range(rng.choice([1, 1, 2, 3]))]
    if deltas and good and rng.random() < 0.7:
        for d in deltas:
            d[3] = [x for x in d[3] if tolerated(x[0])]
    ops = [st() for _ in range(rng.choice([0, 0, 1, 2, 3, 5, 8]))]
    if good and rng.random() < 0.6:
        ops = [o for o in ops if o[1] != 2 or tolerated(o[0])]
    extra = None if rng.random() < 0.2 else [code(), 2, rng.choice(URIS)]
    c = {"k": "results", "active": active, "deltas": deltas, "ops": ops, "extra": extra, "fam": "random"}
    if rng.random() < 0.5:
        c["decoy_status"] = [code() for _ in range(rng.randrange(3))]
        c["decoy_state"] = rng.choice(["Invalid", "Valid", "Trusted"])
    return c


def legacy_cases(rng, pool, n):
    out = []
    for st in [None, [], [UNTRUSTED], [UNTRUSTED, UNTRUSTED], [TOL_PREFIX + "a"], [UNTRUSTED, "general.error"], [VALIDATED], [""],
               ["signingCredential.untrusted "], [TRUSTED_CODE]]:
        for vt in (True, False):
            for hook in (False, True):
                out.append({"k": "legacy", "status": st, "verify_trust": vt, "hook": hook, "stored_state": None})
    for _ in range(n):
        r = rng.random()
        st = None if r < 0.1 else [rng.choice([UNTRUSTED] * 6 + pool + UNKNOWN) if rng.random() < 0.5 else UNTRUSTED for _ in range(rng.randrange(0, 4))]
        out.append({"k": "legacy", "status": st, "verify_trust": rng.random() < 0.6, "hook": rng.random() < 0.5,
                    "stored_state": rng.choice([None, "Invalid", "Valid", "Trusted"])})
    return out


def corpus():
    p = os.path.join(common.VERIF, "corpus", "C04.jsonl")
    if not os.path.exists(p):
        return []
    return [json.loads(l) for l in open(p) if l.strip()]


# ------------------------------------------------------------------ model expressions

KIND = ["KSuccess", "KInformational", "KFailure"]
KNO = {"KSuccess": 0, "KInformational": 1, "KFailure": 2}
IMPORTS = ("From C2PA Require Import Base.Bytes Model.ByteStr Generated.C04_facts Model.ValState.\n"
           "From Coq Require Import NArith List.\nImport ListNotations.\nOpen Scope N_scope.\n")


class Names:
    """byte strings are bound once per evaluation file to keep the case terms small"""
    def __init__(self):
        self.m = {}

    def ref(self, s):
        if s not in self.m:
            self.m[s] = f"z{len(self.m)}"
        return self.m[s]

    def prelude(self):
        def lit(k):
            if all(32 <= ord(ch) < 127 for ch in k):
                return 'b "%s"' % k.replace('"', '""')       # string literals parse much faster than numeral lists
            return coq_str(k)
        return "From Coq Require Import String.\n" + "".join(f"Definition {v} : list N := {lit(k)}.\n" for k, v in self.m.items())


def st_expr(nm, st):
    return f"St {nm.ref(st[0])} {KIND[st[1]]} {'None' if st[2] is None else '(Some %s)' % nm.ref(st[2])}"


def sc_expr(nm, s, i, f):
    return "(SC %s %s %s)" % tuple(coq_list([st_expr(nm, x) for x in l]) for l in (s, i, f))


def results_args(nm, c):
    a = "None" if c["active"] is None else f"(Some {sc_expr(nm, *c['active'])})"
    d = "None" if c["deltas"] is None else "(Some " + coq_list([f"D {nm.ref(x[0])} {sc_expr(nm, x[1], x[2], x[3])}" for x in c["deltas"]]) + ")"
    e = "None" if not c.get("extra") else f"(Some ({st_expr(nm, c['extra'])}))"
    return a, d, e


def batch_eval(tag, groups, shards=8):
    """groups: list of (make_expr(nm, item), items, batch).  One Coq list per batch, all batches in one coq_eval call
    (few coqc processes: start-up dominates).  Returns one flat result list per group."""
    nm = Names()
    exprs, owner = [], []
    for g, (mk, items, batch) in enumerate(groups):
        for j in range(0, len(items), batch):
            exprs.append(coq_list([mk(nm, it) for it in items[j:j + batch]]))
            owner.append(g)
    out = [[] for _ in groups]
    if not exprs:
        return out
    res = common.coq_eval(tag, IMPORTS + nm.prelude(), exprs, shard_size=max(1, (len(exprs) + shards - 1) // shards), timeout=3000)
    for g, r in zip(owner, res):
        out[g] += r if isinstance(r, list) else [r]
    return out


def bytes_to_str(l):
    return bytes(l).decode("utf-8") if isinstance(l, list) else ""


def conv_status(t):
    uri = t["suri"]
    return [bytes_to_str(t["scode"]), KNO[t["skind"]], None if uri == "None" else bytes_to_str(uri[1])]


def conv_sc(t):
    return [[conv_status(x) for x in t[k]] for k in ("success", "informational", "failure")]


def conv_results(t):
    a, d = t["active"], t["deltas"]
    return {"active": None if a == "None" else conv_sc(a[1]),
            "deltas": None if d == "None" else [[bytes_to_str(x["duri"])] + conv_sc(x["dcodes"]) for x in d[1]]}


def opt_state(t):
    return None if t == "None" else t[1]


# ------------------------------------------------------------------ evaluation

def evaluate(ctx, cases, with_model=True):
    for i, c in enumerate(cases):
        c["id"] = i
    impl = common.run_harness("c04", cases)
    full = [c for c in cases if c["k"] == "results" and c.get("fam") != "class"]
    compact = [c for c in cases if c["k"] == "results" and c.get("fam") == "class"]
    legacy = [c for c in cases if c["k"] == "legacy"]
    logk = [c for c in cases if c["k"] == "logkind"]
    model = {}
    if with_model:
        def mk_full(nm, c):
            a, d, e = results_args(nm, c)
            return "run_results %s %s %s %s" % (a, d, coq_list([st_expr(nm, o) for o in c["ops"]]), e)
        mk_compact = lambda nm, c: "run_states %s %s %s" % results_args(nm, c)
        mk_legacy = lambda nm, c: "legacy_state %s %s" % (
            "true" if c["verify_trust"] else "false",
            "None" if c["status"] is None else "(Some " + coq_list([nm.ref(x) for x in c["status"]]) + ")")
        mk_logk = lambda nm, c: "log_kind " + nm.ref(c["code"])
        rf, rc, rl, rk = batch_eval("C04", [(mk_full, full, 1), (mk_compact, compact, 500), (mk_legacy, legacy, 200), (mk_logk, logk, 200)],
                                    shards=8 if len(cases) < 20000 else 16)
        for c, r in zip(full, rf):
            model[c["id"]] = (r[0], r[0], opt_state(r[2]), conv_results(r[1]))
        for c, r in zip(compact, rc):
            model[c["id"]] = (r[0], r[0], opt_state(r[1]), None)
        for c, r in zip(legacy, rl):
            model[c["id"]] = r
        for c, r in zip(logk, rk):
            model[c["id"]] = KNO[r]
    stats = {"results": 0, "legacy": 0, "logkind": 0, "states": {"Invalid": 0, "Valid": 0, "Trusted": 0}, "no_active": 0,
             "deltas": {"none": 0, "0": 0, "1": 0, "2": 0, "3+": 0}, "with_ops": 0, "extra_non_tolerated": 0, "extra_tolerated": 0,
             "legacy_states": {"Invalid": 0, "Valid": 0, "Trusted": 0}, "legacy_known_class": 0, "family": {}}
    distinct = set()
    for c in cases:
        r = impl[c["id"]]
        mi = dict(c)
        if r["r"] in ("panic", "crash"):
            ctx.report_violation(c, f"implementation panicked: {r.get('msg')}", mi)
            continue
        if c["k"] == "results":
            stats["results"] += 1
            stats["family"][c.get("fam", "corpus")] = stats["family"].get(c.get("fam", "corpus"), 0) + 1
            stats["states"][r["state"]] = stats["states"].get(r["state"], 0) + 1
            nd = c["deltas"]
            stats["deltas"]["none" if nd is None else str(len(nd)) if len(nd) < 3 else "3+"] += 1
            if r["dump"]["active"] is None:
                stats["no_active"] += 1
            elif any(r["dump"]["active"]) or r["dump"]["deltas"]:
                distinct.add(json.dumps([c["active"], c["deltas"], c["ops"]], sort_keys=True))
            if c["ops"]:
                stats["with_ops"] += 1
            # ---- oracle
            why = check_state(r["state"], r["dump"])
            if why:
                ctx.report_violation(c, why, mi)
            why = check_state(r["reader_state"], r["dump"])
            if why:
                ctx.report_violation(c, "through Reader::from_json with a validation_results object: " + why, mi)
            want = route(c)
            if canon_routing(r["dump"]) != canon_routing(want):
                ctx.report_violation(c, f"add_status routing: buckets {json.dumps(r['dump'])[:300]} expected {json.dumps(want)[:300]}", mi)
            if c.get("extra"):
                if tolerated(c["extra"][0]):
                    stats["extra_tolerated"] += 1
                    if ORDER.get(r["state_extra"], 9) > ORDER.get(r["state"], 0):
                        ctx.report_violation(c, f"adding a failure raised the state from {r['state']} to {r['state_extra']}", mi)
                else:
                    stats["extra_non_tolerated"] += 1
                    if r["state_extra"] != "Invalid":
                        ctx.report_violation(c, f"after adding the non-tolerated failure {c['extra'][0]!r} the state is {r['state_extra']}", mi)
            # ---- correspondence
            if c["id"] in model:
                ms, mrs, mex, mdump = model[c["id"]]
                iv = (r["state"], r["reader_state"], r["state_extra"])
                if iv != (ms, mrs, mex) or (mdump is not None and mdump != r["dump"]):
                    ctx.disagreements.append({"case": c, "impl": [iv, r["dump"]], "model": [(ms, mrs, mex), mdump]})
        elif c["k"] == "legacy":
            stats["legacy"] += 1
            if r["r"] != "ok":
                ctx.report_violation(c, f"Reader::from_json failed: {r}", mi)
                continue
            stats["legacy_states"][r["state"]] += 1
            known = c["status"] is None or all(x == UNTRUSTED for x in c["status"])
            mi["known_class"] = known
            stats["legacy_known_class"] += 1 if known else 0
            # oracle: without a results object no success code is available, so nothing supports Valid or Trusted
            if r["state"] != "Invalid":
                if c["status"] and any(not tolerated(x) for x in c["status"]):
                    ctx.report_violation(c, f"legacy fallback: state {r['state']} with a non-tolerated failure in the status list", mi)
                elif r["state"] == "Trusted" and c["status"]:
                    ctx.report_violation(c, f"legacy fallback: state Trusted although failures {c['status'][:3]} are listed", mi)
                else:
                    ctx.report_violation(c, f"legacy fallback: state {r['state']} with no evidence that the claim signature validated", mi)
            if c["id"] in model and model[c["id"]] != r["state"]:
                ctx.disagreements.append({"case": c, "impl": r["state"], "model": model[c["id"]]})
        else:
            stats["logkind"] += 1
            if c["id"] in model and model[c["id"]] != r["kind"]:
                ctx.disagreements.append({"case": c, "impl": r["kind"], "model": model[c["id"]]})
            # oracle: the codes the decision looks for must be filed where it looks
            if c["code"] in (VALIDATED, INSIDE, TRUSTED_CODE) and r["kind"] != 0:
                ctx.report_violation(c, f"log_kind files {c['code']} as kind {r['kind']}, not success", mi)
            if c["code"] == UNTRUSTED and r["kind"] != 2:
                ctx.report_violation(c, f"log_kind files {c['code']} as kind {r['kind']}, not failure", mi)
    return stats, len(distinct)


def build_cases(ctx, nrand, nclass, nlegacy):
    f = getattr(ctx, "facts", None)
    if f is None:
        try:
            facts(ctx)
            f = ctx.facts
        except TieBroken:
            # the source no longer parses (already reported by the facts step): generate from the pinned codes
            f = {"consts": {"A": VALIDATED, "B": INSIDE, "C": TRUSTED_CODE, "D": UNTRUSTED, "E": "general.error",
                            "F": "assertion.dataHash.mismatch", "G": "timeStamp.untrusted"},
                 "success_table": [VALIDATED, INSIDE, TRUSTED_CODE], "informational_table": ["timeStamp.untrusted"]}
    pool = sorted(set(f["consts"].values()))
    succ, info = set(f["success_table"]), set(f["informational_table"])
    natural = lambda c: 0 if c in succ else 1 if c in info else 2
    cases = corpus()
    fam = class_family()
    total_class = len(fam)
    if nclass is not None and nclass < len(fam):
        # stratified: half of the sample has both claim-signature success codes in the active manifest's success list
        def good(c):
            s = [x[0] for x in c["active"][0]] if c["active"] else []
            return VALIDATED in s and INSIDE in s
        g, ng = [c for c in fam if good(c)], [c for c in fam if not good(c)]
        fam = ctx.rng.sample(g, min(len(g), nclass // 2)) + ctx.rng.sample(ng, nclass - min(len(g), nclass // 2))
    cases += fam
    cases += [gen_random(ctx.rng, pool, natural) for _ in range(nrand)]
    cases += legacy_cases(ctx.rng, pool, nlegacy)
    cases += [{"k": "logkind", "code": c} for c in pool + UNKNOWN + [TOL_PREFIX + "a"]]
    return cases, total_class


def run(ctx):
    if not getattr(ctx, "no_build", False):
        common.build_harness()
    exhaustive = False
    if ctx.replay:
        cases = [ctx.replay["case"]] if "case" in ctx.replay else [d["case"] for d in ctx.replay.get("disagreements", [])]
        total_class = 0
    else:
        cases, total_class = build_cases(ctx, 500 if ctx.quick() else 8000, 3000 if ctx.quick() else None, 150 if ctx.quick() else 2000)
        exhaustive = not ctx.quick()
    stats, distinct = evaluate(ctx, cases)
    ctx.coverage.update({
        "evaluations": len(cases), "distinct_nontrivial": distinct,
        "rule": "corpus + pairwise-complete enumeration over the 8 code classes (validated, insideValidity, trusted, untrusted, cawg.*, "
                "other failure, informational, other success) placed in the success/informational/failure lists of the active manifest and of "
                "0-2 ingredient deltas (quick: a seeded sample of it) + seeded random placements/add_status sequences over every known code and "
                "unknown/near-miss codes + legacy status lists + log_kind of every code; non-trivial = a results object with an active manifest "
                "holding at least one status; distinct by (placement, ops)",
        "class_family_size": total_class, "class_family_complete": exhaustive,
        "distribution": stats, "traces_validated_against_impl": len(cases),
        "samples": [{k: v for k, v in c.items() if k != "id"} for c in cases[:2] + cases[len(cases) // 2: len(cases) // 2 + 2]],
    })


def search(ctx):
    """tie broken and nothing found yet: the whole class family and more random cases, oracle only"""
    common.build_harness()
    ctx.facts = None
    cases, _ = build_cases(ctx, 20000, None, 2000)
    evaluate(ctx, cases, with_model=False)
    ctx.coverage["search_evaluations"] = len(cases)
