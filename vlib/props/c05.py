"""C05 — signer trust decisions follow the configured trust policy."""
import json, os, re
from .. import common, x509gen as X
from ..common import TieBroken
from . import _certfacts, _certcases as K, c06 as P
from ._certcases import ee_ext, CUSTOM_EKU

PROP_FILE = "Properties/C05.v"
TRUSTED = ["path building is an oracle, not proved: the model takes `chains_to` as a parameter; the run instantiates it with "
           "`openssl verify -x509_strict -partial_chain` (openssl 3.5 CLI), an implementation independent of the SDK's call into its vendored OpenSSL",
           "certificate features for the EKU rule are read from `openssl x509 -text` (independent of x509-parser)",
           "hooks: cose_sign::verif_cose_sign_unchecked (skips the pre-signing profile gate), verif_hooks::c06 (passes a DER TSTInfo)",
           "the allow-list / PEM parsing of the trust settings is re-implemented in python for the oracle"]
ASSUMPTIONS = ["default feature set (OpenSSL back end of check_certificate_trust); rust_native_crypto back end not exercised",
               "trust_anchors_only and passthrough are not reachable from Settings: exercised through the public CertificateTrustPolicy / Verifier API",
               "a signing time reaches check_certificate_trust only through a TSTInfo handed in by a hook (no TSA in the sandbox)",
               "of the CryptoLibraryError branches only `a supplied certificate OpenSSL cannot load` is generated (unloadable anchors / end-entity: model only)"]

SC = "signingCredential."
T_INSIDE = 1700000000      # 2023-11-14, inside VALID
T_EXPIRED_OK = 1590000000  # 2020-05-20, inside EXPIRED and inside VALID
T_BEFORE = 1500000000      # 2017, before everything


def facts(ctx):
    _certfacts.write(ctx)


# ------------------------------------------------------------------ hierarchies

EE_VARIANTS = {
    "ok": {}, "docsign": {"extendedKeyUsage": "1.3.6.1.5.5.7.3.36"}, "eku_absent": {"extendedKeyUsage": None},
    "eku_other": {"extendedKeyUsage": "serverAuth"}, "eku_custom": {"extendedKeyUsage": CUSTOM_EKU},
}
NONCA_EXT = ["basicConstraints=critical,CA:FALSE", "keyUsage=critical,digitalSignature,keyCertSign", "subjectKeyIdentifier=hash",
             "authorityKeyIdentifier=keyid:always"]
PATHLEN0_EXT = ["basicConstraints=critical,CA:TRUE,pathlen:0", "keyUsage=critical,keyCertSign,cRLSign", "subjectKeyIdentifier=hash",
                "authorityKeyIdentifier=keyid:always"]


def hierarchy(tag, depth, kinds, ee_kind="p256", ee_variant="ok", ee_validity=None, ca_variant=None, wrong_issuer=False):
    """cas: top-down list of CA specs actually presented; ee: the end-entity spec"""
    cas = []
    if depth == 0:
        ee = {"cn": f"EE {tag}", "key": [ee_kind, "ee-" + tag], "issuer": None, "ext": ee_ext(**EE_VARIANTS[ee_variant])}
    else:
        r = K.root(tag, kinds[0])
        if ca_variant == "pathlen0":
            r["ext"] = PATHLEN0_EXT
        cas.append(r)
        parent = r
        for i in range(1, depth):
            it = K.inter(parent, f"{tag}i{i}", kinds[i % len(kinds)])
            if i == depth - 1:
                if ca_variant == "nonca":
                    it["ext"] = NONCA_EXT
                elif ca_variant == "expired_inter":
                    it["validity"] = X.EXPIRED
            cas.append(it)
            parent = it
        issuer = parent
        if wrong_issuer:
            issuer = dict(parent)
            issuer["key"] = [parent["key"][0], parent["key"][1] + "-twin"]     # same name, another key
            if issuer.get("issuer") is None:
                pass
        ee = K.leaf(issuer, tag, ee_kind, ext=ee_ext(**EE_VARIANTS[ee_variant]))
    if ee_validity:
        ee["validity"] = ee_validity
    return {"tag": tag, "depth": depth, "ee": ee, "cas": cas, "ee_variant": ee_variant, "ca_variant": ca_variant,
            "wrong_issuer": wrong_issuer, "ee_validity": ee_validity}


UNRELATED = K.root("unrelated", "p256")
UNRELATED2 = K.root("unrelated2", "rsa2048")


def present(h, how):
    up = [K.pem_of(s) for s in reversed(h["cas"])]        # issuer of EE first ... root last
    if how == "full":
        return up
    if how == "noroot":
        return up[:-1]
    if how == "reversed":
        return list(reversed(up))
    if how == "missing":
        return up[1:]
    if how == "eeonly":
        return []
    if how == "extra":
        return up + [K.pem_of(UNRELATED)]
    raise ValueError(how)


def anchor_pems(h, which):
    if which == "none":
        return []
    if which == "root":
        return [K.pem_of(h["cas"][0])] if h["cas"] else [K.pem_of(h["ee"])]
    if which == "mid":
        return [K.pem_of(h["cas"][-1])] if h["cas"] else [K.pem_of(h["ee"])]
    if which == "ee":
        return [K.pem_of(h["ee"])]
    if which == "unrelated":
        return [K.pem_of(UNRELATED)]
    if which == "root+unrelated":
        return [K.pem_of(UNRELATED2)] + anchor_pems(h, "root")
    raise ValueError(which)


def allow_text(h, how):
    ee = K.pem_of(h["ee"])
    if how == "none":
        return None
    if how == "pem":
        return ee
    if how == "hash":
        return X.b64sha256_of_pem(ee) + "\n"
    if how == "other_hash":
        return X.b64sha256_of_pem(K.pem_of(UNRELATED)) + "\n"
    if how == "issuer_pem":       # the issuer on the allow list must not make the end-entity trusted
        return K.pem_of(h["cas"][-1]) if h["cas"] else K.pem_of(UNRELATED)
    if how == "mixed":
        return "# private credential store\n" + X.b64sha256_of_pem(K.pem_of(UNRELATED)) + "\n" + ee + "not a hash\n"
    raise ValueError(how)


def allow_set(text):
    """independent reading of add_end_entity_credentials: 44-char base64 lines outside PEM blocks + hashes of the PEM blocks"""
    import base64
    out = set()
    if not text:
        return out
    inside = False
    for line in text.splitlines():
        if "-----BEGIN" in line:
            inside = True
        if "-----END" in line:
            inside = False
        if not inside and len(line) == 44:
            try:
                base64.b64decode(line, validate=True)
                out.add(line)
            except Exception:
                pass
    for m in re.finditer(r"-----BEGIN CERTIFICATE-----.*?-----END CERTIFICATE-----", text, re.S):
        out.add(X.b64sha256_of_pem(m.group(0)))
    return out


def build_case(h, how="full", anchor="root", place="system", allow="none", trust_config=None, verify_trust=True,
               anchors_only=False, passthrough=False, variant=None, signing_time=None, e2e=True, junk_chain=False):
    ee_pem = K.pem_of(h["ee"])
    chain = [ee_pem] + present(h, how)
    if junk_chain:          # a certificate OpenSSL cannot load, among the certificates supplied in the manifest
        chain.append(X.read(P.junk_pem_path()))
    a = anchor_pems(h, anchor)
    sys_a, usr_a = [], []
    if place == "system":
        sys_a = a
    elif place == "user":
        usr_a = a
    elif place == "user+sysunrelated":
        sys_a, usr_a = [K.pem_of(UNRELATED2)], a
    elif place == "both":
        sys_a, usr_a = a, a
    al = allow_text(h, allow)
    trust = {}
    if sys_a:
        trust["trust_anchors"] = "\n".join(sys_a)
    if usr_a:
        trust["user_anchors"] = "\n".join(usr_a)
    if al:
        trust["allowed_list"] = al
    if trust_config:
        trust["trust_config"] = trust_config
    variant = variant or ("trust" if verify_trust else "profile")
    direct = {"trust_anchors": trust.get("trust_anchors"), "user_anchors": trust.get("user_anchors"), "allowed_list": al,
              "trust_config": trust_config, "anchors_only": anchors_only, "passthrough": passthrough, "variant": variant,
              "tst": X.tst_info_der(signing_time).hex() if signing_time is not None else None, "signing_time": signing_time}
    now = K.now()
    ee_path = X.cert(h["ee"])
    # ---- independent facts for the oracle
    allowed = X.b64sha256_of_pem(ee_pem) in allow_set(al)
    chains_sys = X.openssl_verify(sys_a, ee_pem, chain[1:], signing_time)
    chains_usr = X.openssl_verify(usr_a, ee_pem, chain[1:], signing_time)
    viol, unspec = P.classify(ee_path, signing_time if signing_time is not None else now, trust_config)
    eku_ok = not any(v.startswith("eku_") for v in viol)
    return {"name": f"{h['tag']}/{how}{'+junk' if junk_chain else ''}/{anchor}@{place}/allow={allow}", "h": {k: h[k] for k in ("tag", "depth", "ee_variant", "ca_variant", "wrong_issuer")},
            "how": how, "anchor": anchor, "place": place, "allow": allow, "verify_trust": verify_trust,
            "chain": chain, "key": X.read(X.key(*h["ee"]["key"])), "alg": X.SIGN_ALG[h["ee"]["key"][0]],
            "e2e": bool(e2e and signing_time is None and not anchors_only and not passthrough and variant != "ignore"),
            "settings": {"trust": trust, "verify": {"verify_trust": verify_trust, "verify_after_sign": False}},
            "direct": direct, "now": now, "n_sys": len(sys_a), "n_usr": len(usr_a), "junk_chain": junk_chain,
            "allowed": allowed, "chains_sys": chains_sys, "chains_usr": chains_usr, "eku_ok": eku_ok, "viol": viol,
            "model": K.model_features(ee_path), "trust_config": trust_config}


# ------------------------------------------------------------------ case families

KINDSETS = [["p256"], ["rsa2048", "p256"], ["ed25519"], ["p384", "p256", "rsa2048"], ["p256", "rsa2048", "p384"]]
EE_KINDS = ["p256", "rsa2048", "ed25519", "p384", "p521"]


def core_cases():
    out = []
    H = {}
    for d in range(4):
        H[d] = hierarchy(f"c{d}", d, KINDSETS[d % len(KINDSETS)], EE_KINDS[d % len(EE_KINDS)])
    for d in range(4):
        h = H[d]
        out.append(build_case(h, "full", "root", "system"))
        out.append(build_case(h, "full", "root", "user"))
        out.append(build_case(h, "full", "none", "system"))
        out.append(build_case(h, "full", "unrelated", "system", allow="pem" if d % 2 else "hash"))
    # anchors-only / passthrough / variants (public API only)
    out.append(build_case(H[2], "full", "root", "user", anchors_only=True))
    out.append(build_case(H[2], "full", "root", "user+sysunrelated", anchors_only=True))
    out.append(build_case(H[2], "full", "root", "user+sysunrelated"))
    out.append(build_case(H[2], "full", "root", "both", anchors_only=True))
    out.append(build_case(H[1], "full", "none", "system", passthrough=True))
    # CertificateTrustPolicy::passthrough() starts from an empty EKU set: documentSigning alone is then not accepted by the profile step
    out.append(build_case(hierarchy("eku-docsign", 1, ["p256"], ee_variant="docsign"), "full", "none", "system", passthrough=True))
    out.append(build_case(H[1], "full", "root", "system", variant="ignore"))
    out.append(build_case(H[1], "full", "root", "system", verify_trust=False))
    out.append(build_case(H[1], "full", "unrelated", "system", verify_trust=False, allow="pem"))
    # partial chains, order, gaps
    out.append(build_case(H[2], "noroot", "mid", "system"))
    out.append(build_case(H[3], "noroot", "root", "system"))
    out.append(build_case(H[3], "reversed", "root", "user"))
    out.append(build_case(H[3], "missing", "root", "system"))
    out.append(build_case(H[2], "eeonly", "root", "system"))
    out.append(build_case(H[2], "eeonly", "mid", "user"))
    out.append(build_case(H[2], "extra", "root", "system"))
    out.append(build_case(H[1], "full", "ee", "system"))
    out.append(build_case(H[0], "full", "ee", "user"))
    out.append(build_case(H[2], "full", "root+unrelated", "system"))
    # allow-list forms
    out.append(build_case(H[2], "full", "none", "system", allow="other_hash"))
    out.append(build_case(H[2], "full", "none", "system", allow="issuer_pem"))
    out.append(build_case(H[2], "full", "unrelated", "user", allow="mixed"))
    # wrong issuer / bad CAs
    out.append(build_case(hierarchy("wi1", 1, ["p256"], wrong_issuer=True), "full", "root", "system"))
    out.append(build_case(hierarchy("wi2", 2, ["rsa2048", "p256"], "rsa2048", wrong_issuer=True), "full", "root", "user"))
    out.append(build_case(hierarchy("nonca", 2, ["p256"], ca_variant="nonca"), "full", "root", "system"))
    out.append(build_case(hierarchy("pl0", 3, ["p256"], ca_variant="pathlen0"), "full", "root", "system"))
    # EKU present / absent / other / configured
    for v in ("docsign", "eku_absent", "eku_other", "eku_custom"):
        h = hierarchy("eku-" + v, 1, ["p256"], ee_variant=v)
        out.append(build_case(h, "full", "root", "system"))
    h = hierarchy("eku-eku_custom", 1, ["p256"], ee_variant="eku_custom")
    out.append(build_case(h, "full", "root", "user", trust_config="// custom\n" + CUSTOM_EKU + "\n"))
    out.append(build_case(hierarchy("eku-eku_other", 1, ["p256"], ee_variant="eku_other"), "full", "none", "system", allow="pem"))
    # validity windows: no signing time => NO_CHECK_TIME for the chain; with a signing time => checked at that time
    hx = hierarchy("expee", 2, ["p256"], ee_validity=X.EXPIRED)
    out.append(build_case(hx, "full", "root", "system"))
    out.append(build_case(hx, "full", "root", "system", signing_time=T_EXPIRED_OK))
    out.append(build_case(hx, "full", "root", "system", signing_time=T_INSIDE))
    hi = hierarchy("expint", 3, ["p256"], ca_variant="expired_inter")
    out.append(build_case(hi, "full", "root", "system"))
    out.append(build_case(hi, "full", "root", "user", signing_time=T_INSIDE))
    out.append(build_case(hi, "full", "root", "user", signing_time=T_EXPIRED_OK))
    out.append(build_case(H[2], "full", "root", "system", signing_time=T_INSIDE))
    out.append(build_case(H[2], "full", "root", "system", signing_time=T_BEFORE))
    out.append(build_case(hierarchy("futee", 1, ["p256"], ee_validity=X.FUTURE), "full", "root", "system"))
    # a certificate OpenSSL cannot load among the supplied ones: CryptoLibraryError => untrusted (unless allow-listed)
    out.append(build_case(H[2], "full", "root", "system", junk_chain=True, e2e=False))
    out.append(build_case(H[2], "full", "root", "user", junk_chain=True, allow="hash", e2e=False))
    return out


def random_case(rng, i):
    d = rng.choice([0, 1, 1, 2, 2, 3, 3])
    kinds = rng.choice(KINDSETS)
    ee_kind = rng.choice(EE_KINDS)
    r = rng.random()
    kw = {}
    if r < 0.15:
        kw["ee_variant"] = rng.choice(list(EE_VARIANTS))
    elif r < 0.25 and d >= 1:
        kw["wrong_issuer"] = True
    elif r < 0.35 and d >= 2:
        kw["ca_variant"] = rng.choice(["nonca", "expired_inter", "pathlen0"])
    elif r < 0.42:
        kw["ee_validity"] = rng.choice([X.EXPIRED, X.FUTURE])
    tag = "r%d-%s-%s-%s" % (d, "".join(k[0] + k[-1] for k in kinds), ee_kind, "-".join(f"{k}={v if not isinstance(v, tuple) else v[1][:4]}" for k, v in sorted(kw.items())))
    h = hierarchy(tag, d, kinds, ee_kind, **kw)
    how = rng.choice(["full", "full", "noroot", "reversed", "missing", "eeonly", "extra"])
    anchor = rng.choice(["root", "root", "mid", "ee", "unrelated", "none", "root+unrelated"])
    place = rng.choice(["system", "user", "user+sysunrelated", "both"])
    allow = rng.choice(["none"] * 7 + ["pem", "hash", "other_hash", "issuer_pem", "mixed"])
    tc = "// extra\n" + CUSTOM_EKU + "\n" if rng.random() < 0.2 else None
    vt = rng.random() < 0.85
    ao = rng.random() < 0.25
    pt = rng.random() < 0.04
    st = rng.choice([None, None, None, T_INSIDE, T_EXPIRED_OK, T_BEFORE])
    var = "ignore" if rng.random() < 0.04 else None
    return build_case(h, how, anchor, place, allow, tc, vt, ao, pt, var, st)


def corpus():
    p = os.path.join(common.VERIF, "corpus", "C05.jsonl")
    if not os.path.exists(p):
        return []
    return [json.loads(l) for l in open(p) if l.strip()]


# ------------------------------------------------------------------ model

def model_expr(c):
    d = c["direct"]
    tst = "(Some (%d)%%Z)" % d["signing_time"] if d["signing_time"] is not None else "None"
    sys_ids = "[" + "; ".join(str(1 + i) for i in range(c["n_sys"])) + "]%N"
    usr_ids = "[" + "; ".join(str(101 + i) for i in range(c["n_usr"])) + "]%N"
    n_chain = len(c["chain"]) - 1
    chain_ids = "[" + "; ".join(("666" if c.get("junk_chain") and i == n_chain - 1 else str(20 + i)) for i in range(n_chain)) + "]%N"
    allowed = "[900; 7; 901]%N" if c["allowed"] else ("[900]%N" if d["allowed_list"] else "[]")
    pol = (f"{{| system_anchors := {sys_ids}; user_anchors := {usr_ids}; allowed := {allowed}; additional_ekus := {K.coq_ekus(c['trust_config'], not d['passthrough'])}; "
           f"passthrough := {K.b(d['passthrough'])}; anchors_only := {K.b(d['anchors_only'])} |}}")
    ver = {"trust": "VerifyTrustPolicy N p", "profile": "VerifyCertificateProfileOnly N p", "ignore": "IgnoreProfileAndTrustPolicy N"}[d["variant"]]
    return (f"let chains := fun (a : list N) (_ : N) (_ : list N) (_ : option Z) => match a with x :: _ => if (x <? 100)%N then {K.b(c['chains_sys'])} else {K.b(c['chains_usr'])} | [] => false end in "
            f"let feats := fun (_ : N) => {K.coq_cert(c['model'])} in let p := {pol} in "
            f"(check_certificate_trust N (fun x => x) (fun x => negb (x =? 666)%N) chains p {chain_ids} 7%N {tst}, "
            f"credential_log N (fun x => x) (fun x => negb (x =? 666)%N) chains feats ({ver}) (7%N :: {chain_ids}) {tst} ({c['now']})%Z)")


def model_out(term):
    """-> (trust string as the harness prints it, [codes in log order])"""
    tr, (prof, verd) = term
    if tr[0] == "inl":
        trust = tr[1]
    else:
        trust = "Err:" + {"NotTrusted": "CertificateNotTrusted", "CryptoLibraryError": "CryptoLibraryError"}[tr[1]]
    codes = [K.CODE[k] for k in prof] + [SC + ("trusted" if v == "Trusted" else "untrusted") for v in verd]
    return trust, codes


# ------------------------------------------------------------------ evaluation

def evaluate(ctx, cases, with_model=True):
    slim = [{k: c[k] for k in ("id", "chain", "key", "alg", "e2e", "settings", "direct")} for c in cases]
    impl = K.run_cases("c05", slim)
    model = None
    if with_model:
        model = common.coq_eval("C05", K.IMPORTS, [model_expr(c) for c in cases], shard_size=12, timeout=1800)
    stats = {"verdicts": {}, "anchor_types": {}, "e2e_states": {}, "depth": {}, "presentation": {}, "anchor": {}, "allow": {},
             "trust_off": 0, "anchors_only": 0, "passthrough": 0, "with_signing_time": 0, "eku_not_accepted": 0, "e2e_read": 0,
             "justified": 0, "unjustified": 0}
    distinct = set()
    for idx, c in enumerate(cases):
        r = impl[c["id"]]
        d = c["direct"]
        mi = {k: c[k] for k in ("name", "how", "anchor", "place", "allow", "verify_trust", "allowed", "chains_sys", "chains_usr", "eku_ok", "h")}
        mi.update(anchors_only=d["anchors_only"], passthrough=d["passthrough"], variant=d["variant"], signing_time=d["signing_time"])
        rep = dict(c)
        rep.pop("model", None)
        if r.get("r") != "ok":
            if r.get("r") in ("panic", "crash"):
                ctx.report_violation(rep, f"implementation panicked: {r.get('msg')}", mi)
            else:
                ctx.disagreements.append({"case": c["name"], "impl": r, "model": "harness could not load the credential"})
            continue
        rd = r["direct"]
        vlog = rd["verify"]["log"]
        vcodes = [x[1] for x in vlog if x[1].startswith(SC)]
        trusted = any(x[1] == SC + "trusted" and x[0] == "Success" for x in vlog)
        untrusted = any(x[1] == SC + "untrusted" and x[0] == "Failure" for x in vlog)
        cred_fail = any(x[1] in P.SC_FAIL for x in vlog)
        just_sys = c["chains_sys"]
        just_usr = c["chains_usr"] and not d["anchors_only"]
        justified = d["passthrough"] or c["allowed"] or just_sys or just_usr
        stats["justified" if justified else "unjustified"] += 1
        for key, val in (("depth", str(c["h"]["depth"])), ("presentation", c["how"]), ("anchor", c["anchor"] + "@" + c["place"]), ("allow", c["allow"])):
            stats[key][val] = stats[key].get(val, 0) + 1
        stats["trust_off"] += d["variant"] != "trust"
        stats["anchors_only"] += bool(d["anchors_only"])
        stats["passthrough"] += bool(d["passthrough"])
        stats["with_signing_time"] += d["signing_time"] is not None
        stats["eku_not_accepted"] += not c["eku_ok"]
        stats["anchor_types"][rd["trust"]] = stats["anchor_types"].get(rd["trust"], 0) + 1
        vkey = "trusted" if trusted else "untrusted" if untrusted else "none"
        stats["verdicts"][vkey] = stats["verdicts"].get(vkey, 0) + 1
        distinct.add((c["name"], d["anchors_only"], d["passthrough"], d["variant"], d["signing_time"], c["trust_config"]))
        signed = not rd["verify"]["res"].startswith("SignErr")
        # ---- oracle: the property text, on Verifier::verify_signature (public API) ...
        if signed:
            if d["variant"] != "trust":
                if trusted or untrusted:
                    ctx.report_violation(rep, f"trust verification disabled ({d['variant']}) but a trust verdict was issued: {vcodes}", mi)
            else:
                if trusted and untrusted or not (trusted or untrusted):
                    ctx.report_violation(rep, f"expected exactly one trust verdict, got {vcodes}", mi)
                elif trusted and not justified:
                    ctx.report_violation(rep, "reported trusted although the certificate is not allow-listed and does not chain to a permitted anchor "
                                              f"(openssl verify: system={c['chains_sys']} user={c['chains_usr']}, anchors_only={d['anchors_only']})", mi)
                if trusted and not c["eku_ok"] and not cred_fail:
                    ctx.report_violation(rep, f"EKU set not accepted, yet trusted and no signingCredential.invalid: {vcodes}", mi)
            if d["anchors_only"] and rd["trust"] == "User":
                ctx.report_violation(rep, "trust-anchors-only mode accepted a user anchor", mi)
        # ---- ... and on the Reader (settings path)
        e2 = r.get("e2e")
        e2ok = isinstance(e2, dict) and "state" in e2
        if e2ok:
            stats["e2e_read"] += 1
            stats["e2e_states"][e2["state"]] = stats["e2e_states"].get(e2["state"], 0) + 1
            et = SC + "trusted" in e2["success"]
            eu = SC + "untrusted" in e2["failure"]
            ejust = c["allowed"] or c["chains_sys"] or c["chains_usr"]
            if not c["verify_trust"]:
                if et or eu:
                    ctx.report_violation(rep, f"verify_trust=false but the Reader reports a trust verdict (success {e2['success']}, failure {e2['failure']})", mi)
                if e2["state"] == "Trusted":
                    ctx.report_violation(rep, "verify_trust=false but the state is Trusted", mi)
            else:
                if et == eu:
                    ctx.report_violation(rep, f"Reader: expected exactly one of signingCredential.trusted / untrusted (success {e2['success']}, failure {e2['failure']})", mi)
                elif et and not ejust:
                    ctx.report_violation(rep, f"Reader reports signingCredential.trusted (state {e2['state']}) although the certificate is not allow-listed and "
                                              f"does not chain to a configured anchor (openssl verify: system={c['chains_sys']} user={c['chains_usr']})", mi)
                elif e2["state"] == "Trusted" and (not et or not ejust):
                    ctx.report_violation(rep, "state Trusted without a justified signingCredential.trusted", mi)
                elif not c["eku_ok"] and et and not any(k in P.SC_FAIL for k in e2["failure"]):
                    ctx.report_violation(rep, f"EKU set not accepted, yet trusted and no signingCredential.invalid (state {e2['state']})", mi)
        # ---- correspondence
        if model is not None:
            mt, mcodes = model_out(model[idx])
            if mt != rd["trust"]:
                ctx.disagreements.append({"case": c["name"], "impl": {"check_certificate_trust": rd["trust"]}, "model": mt,
                                          "flags": {k: mi[k] for k in ("anchors_only", "passthrough", "signing_time", "chains_sys", "chains_usr", "allowed")}})
            elif signed and vcodes != mcodes:
                ctx.disagreements.append({"case": c["name"], "impl": {"verify_signature_log": vcodes}, "model": mcodes})
            elif e2ok:
                ecodes = sorted([k for k in e2["failure"] if k.startswith(SC)] + [k for k in e2["success"] if k.startswith(SC)])
                if ecodes != sorted(mcodes):
                    ctx.disagreements.append({"case": c["name"], "impl": {"reader_codes": ecodes, "state": e2["state"]}, "model": sorted(mcodes)})
    return stats, len(distinct)


def run(ctx):
    if not getattr(ctx, "no_build", False):
        common.build_harness()
    if ctx.replay:
        cases = [ctx.replay["case"]] if "case" in ctx.replay else []
        for c in cases:
            c["model"] = P.model_from_pem(c["chain"][0])
    else:
        cases = []
        for cc in corpus():
            cc["model"] = P.model_from_pem(cc["chain"][0])
            cases.append(cc)
        cases += core_cases()
        n = 25 if ctx.quick() else 300
        seen = set(c["name"] for c in cases)
        for i in range(n):
            c = random_case(ctx.rng, i)
            cases.append(c)
    for i, c in enumerate(cases):
        c["id"] = i
    stats, distinct = evaluate(ctx, cases)
    ctx.coverage.update({
        "evaluations": len(cases), "distinct_nontrivial": distinct,
        "rule": "openssl-generated hierarchies (depth 0-3; P-256/P-384/P-521/RSA-2048/Ed25519 keys; EKU present/absent/other/custom; validity windows; "
                "wrong issuer; non-CA / expired / pathlen-violating intermediates) x presentation (full, no root, reversed, missing intermediate, "
                "end-entity only, extra certificate) x trust configuration (anchor = root / issuer / end-entity / unrelated / none, placed as system "
                "or user anchors; allow list by PEM / hash / other; trust_config; verify_trust; anchors-only; passthrough; signing time): a fixed core "
                "family + seeded combinations; each case through check_certificate_trust, Verifier::verify_signature and (settings-reachable "
                "configurations) a signed PNG read back; non-trivial = every case, distinct by all of the above",
        "distribution": stats,
        "samples": [{k: (v if k not in ("chain", "key", "model", "settings", "direct") else "...") for k, v in c.items()} for c in cases[:2] + cases[40:42]],
    })


def search(ctx):
    common.build_harness()
    cases = core_cases() + [random_case(ctx.rng, i) for i in range(250)]
    for i, c in enumerate(cases):
        c["id"] = i
    evaluate(ctx, cases, with_model=False)
    ctx.coverage["search_evaluations"] = len(cases)
