"""C15 — embeddable signing returns bytes of exactly the placeholder size."""
import json, os, re
from .. import common
from ..common import TieBroken

PROP_FILE = "Properties/C15.v"
TRUSTED = ["K (everything but the exclusion list) is assumed equal in placeholder and signed manifest: checked by the run "
           "(observed growth = model's CBOR growth)", "CBOR head sizes as in RFC 8949 (serde_cbor/ciborium observed by run)"]
ASSUMPTIONS = ["asset fixture earth_apollo17.jpg / sample1.png; exclusion offsets limited to the asset size (no >4 GiB assets)"]


def facts(ctx):
    t = common.strip_tests(common.src("sdk/src/builder.rs"))
    ph = common.fn_body(t, r"pub fn placeholder\s*\(", "Builder::placeholder")
    m = common.fact(r"for _ in 0\.\.(\d+)\s*\{\s*ph\.add_exclusion\(HashRange::new\((\d+)u64,\s*(\d+)u64\)\)", ph, "dummy exclusions of placeholder()")
    se = common.fn_body(t, r"pub fn sign_embeddable\s*\(", "Builder::sign_embeddable")
    if "placeholder_jumbf_len" not in se or "resize(len" not in se:
        raise TieBroken("srcfacts: sign_embeddable no longer pads to placeholder_jumbf_len")
    blk = common.fact(r"if let Some\(len\) = placeholder_jumbf_len \{(.*?)\n        \}\n", se, "padding block of sign_embeddable").group(1)
    rejects = bool(re.search(r"if\s+jumbf\.len\(\)\s*>\s*len[^{]*\{\s*return\s+Err", blk))
    v = ("(* generated from sdk/src/builder.rs on every run — do not edit *)\nFrom Coq Require Import NArith.\nOpen Scope N_scope.\n"
         f"Definition dummy_count : nat := {int(m.group(1))}.\nDefinition dummy_start : N := {int(m.group(2))}.\nDefinition dummy_len : N := {int(m.group(3))}.\n"
         f"Definition rejects_longer : bool := {'true' if rejects else 'false'}.\n")
    common.write_if_changed(os.path.join(common.COQ, "Generated", "C15_facts.v"), v)
    ctx.facts = {"dummy": [int(m.group(1)), int(m.group(2)), int(m.group(3))], "rejects_longer": rejects}


ASSETS = [("image/jpeg", "earth_apollo17.jpg", 2, 240000), ("image/png", "sample1.png", 33, 200000)]


def gen_case(rng, i):
    fmt, fx, at, limit = rng.choice(ASSETS)
    k = rng.choice([0, 0, 1, 2, 3, 4, 5, 8, 9, 10, 11, 12])
    ex = []
    pos = 10000          # beyond the embedded placeholder; disjoint, increasing (the data hasher rejects overlaps)
    for _ in range(k):
        cls = rng.random()
        gap = rng.randrange(1, 24) if cls < 0.4 else rng.randrange(24, 3000) if cls < 0.7 else rng.randrange(3000, 30000)
        s = pos + gap
        l = rng.choice([1, 2, 23, 24, 255, 256, 300])
        if s + l >= limit:
            break
        ex.append([s, l])
        pos = s + l
    if rng.random() < 0.3 and at >= 2:
        ex = [[0, 1]] + ex       # a small-offset range before the placeholder (CBOR 1-byte class)
    return {"id": i, "format": fmt, "fixture": fx, "embed_at": at, "excl": ex,
            "title": "t" * rng.choice([1, 5, 23, 24, 25, 200, 300]), "alg": rng.choice(["ed25519", "es256", "ps256"]),
            "reserve": rng.choice([0, 0, 1, 13, 300, 2000])}


def chead(n):
    return 1 if n < 24 else 2 if n < 256 else 3 if n < 65536 else 5 if n < (1 << 32) else 9


def excls_size(ex):
    return chead(len(ex)) + sum(1 + 6 + chead(s) + 7 + chead(l) for s, l in ex)


def boundary_cases(rng, plen_guess=3516):
    """exclusion lists whose CBOR size is dummy size + d for every d in -10..+10 (the padding / rejection boundary)"""
    out = []
    dummy = excls_size([[0, 2]] * 10)
    for fmt, fx, at, limit in ASSETS[:1]:
        for d in range(-10, 11):
            for _try in range(400):
                k = rng.randrange(5, 11)
                ex, pos = [], 10000
                for _ in range(k):
                    gap = rng.choice([rng.randrange(1, 200), rng.randrange(200, 60000)])
                    s = pos + gap
                    l = rng.choice([1, 5, 23, 24, 100, 255, 256, 300])
                    if s + l >= limit:
                        break
                    ex.append([s, l])
                    pos = s + l
                if rng.random() < 0.5:
                    ex = [[0, 1]] + ex
                if excls_size([[at, plen_guess]] + ex) == dummy + d:
                    out.append({"format": fmt, "fixture": fx, "embed_at": at, "excl": ex, "title": "t", "alg": "ed25519", "reserve": 0, "family": f"boundary{d:+d}"})
                    break
    return out


def segment_cases(impl_probe, step=7):
    """JPEG: manifest definitions whose placeholder sits around the 64000-byte APP11 segment boundary"""
    out = []
    p0 = impl_probe.get("placeholder_len")
    if not p0:
        return out
    for target in range(63940, 64240, step):
        tl = target - p0 + 1
        if tl > 0:
            out.append({"format": "image/jpeg", "fixture": "earth_apollo17.jpg", "embed_at": 2, "excl": [[100000, 5]],
                        "title": "t" * tl, "alg": "ed25519", "reserve": 0, "family": "segment"})
    return out


def corpus():
    p = os.path.join(common.VERIF, "corpus", "C15.jsonl")
    return [json.loads(l) for l in open(p) if l.strip()] if os.path.exists(p) else []


def evaluate(ctx, cases, with_model=True):
    impl = common.run_harness("c15", cases, jobs=16)
    exprs = []
    for c in cases:
        r = impl[c["id"]]
        plen = r.get("placeholder_len", 0)
        ex = "[" + "; ".join(f"({s}, {l})" for s, l in ([[c["embed_at"], plen]] + c["excl"])) + "]"
        exprs.append(f"(workflow rejects_longer dms 0 {ex}, excls_size {ex}, excls_size dms)")
    model = common.coq_eval("C15", "From C2PA Require Import Model.Embeddable Generated.C15_facts.\nFrom Coq Require Import NArith List.\nImport ListNotations.\nOpen Scope N_scope.\nDefinition dms := dummy_list dummy_count dummy_start dummy_len.", exprs) if with_model else None
    stats = {"ok_same": 0, "err_sign": 0, "longer": 0, "other": 0, "n_excl": {}}
    distinct = set()
    for idx, c in enumerate(cases):
        r = impl[c["id"]]
        stats["n_excl"][str(len(c["excl"]))] = stats["n_excl"].get(str(len(c["excl"])), 0) + 1
        distinct.add(json.dumps([c["format"], c["excl"], c["title"], c["alg"], c["reserve"]]))
        # ---- oracle: same length (and reads back Valid/Trusted) or an error
        if r["r"] in ("panic", "crash"):
            ctx.report_violation(c, f"panic/crash: {r.get('msg')}")
            cls = "panic"
        elif r["r"] == "ok":
            if r["signed_len"] != r["placeholder_len"]:
                stats["longer"] += 1
                cls = "longer"
                ctx.report_violation(c, f"sign_embeddable returned {r['signed_len']} bytes for a {r['placeholder_len']}-byte placeholder")
            else:
                stats["ok_same"] += 1
                cls = "ok"
                rb = r.get("readback", {})
                if rb.get("state") not in ("Valid", "Trusted"):
                    ctx.report_violation(c, f"patched asset does not read back Valid: {json.dumps(rb)[:300]}")
        elif r["r"] == "err" and r.get("stage") == "sign":
            stats["err_sign"] += 1
            cls = "err"
        else:
            stats["other"] += 1          # an error before signing (e.g. overlapping exclusions rejected by the hasher): allowed by the property
            cls = "other"
        # ---- correspondence
        if model is not None and cls in ("ok", "err", "longer"):
            wf, sz, dsz = model[idx]
            if wf == "SErr":
                mcls = "err"
            else:
                mcls = "ok" if sz <= dsz else "longer"
            growth_ok = True
            if cls == "longer":
                growth_ok = (r["signed_len"] - r["placeholder_len"]) == sz - dsz
            if mcls != cls or not growth_ok:
                ctx.disagreements.append({"case": c, "impl": [cls, r.get("signed_len"), r.get("placeholder_len")], "model": [mcls, sz, dsz]})
    return stats, len(distinct)


def run(ctx):
    if not getattr(ctx, "no_build", False):
        common.build_harness()
    if ctx.replay:
        cases = [ctx.replay["case"]] if "case" in ctx.replay else [d["case"] for d in ctx.replay.get("disagreements", [])]
    else:
        cases = corpus() + boundary_cases(ctx.rng) + [gen_case(ctx.rng, 0) for _ in range(40 if ctx.quick() else 1200)]
        probe = common.run_harness("c15", [{"id": 0, "format": "image/jpeg", "fixture": "earth_apollo17.jpg", "embed_at": 2, "excl": [], "title": "t", "alg": "ed25519", "reserve": 0}])[0]
        cases += segment_cases(probe, step=(9 if ctx.quick() else 1))
    for i, c in enumerate(cases):
        c["id"] = i
    stats, distinct = evaluate(ctx, cases)
    ctx.coverage.update({"evaluations": len(cases), "distinct_nontrivial": distinct,
                         "rule": "corpus + seeded placeholder workflows (format x 0..12 extra exclusions in 4 CBOR size classes x title length x signer alg x extra reserve); "
                                 "distinct by (format, exclusions, title, alg, reserve); every case has at least the placeholder exclusion",
                         "distribution": stats, "traces_validated_against_impl": len(cases), "samples": cases[:3]})


def search(ctx):
    common.build_harness()
    cases = [gen_case(ctx.rng, 0) for _ in range(300)] + boundary_cases(ctx.rng)
    probe = common.run_harness("c15", [{"id": 0, "format": "image/jpeg", "fixture": "earth_apollo17.jpg", "embed_at": 2, "excl": [], "title": "t", "alg": "ed25519", "reserve": 0}])[0]
    cases += segment_cases(probe, step=2)
    for c in cases[:300]:
        c["excl"] += [[ctx.rng.randrange(0, 200000), 1] for _ in range(ctx.rng.randrange(0, 6))]
    for i, c in enumerate(cases):
        c["id"] = i
    evaluate(ctx, cases, with_model=False)
