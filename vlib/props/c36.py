"""C36 — time-stamps are used only when they match the signature."""
import json, os, re, time
from .. import common
from ..common import TieBroken, coq_list
from . import _tsocsp as P

PROP_FILE = "Properties/C36.v"
TRUSTED = ["ASN.1/CMS/CBOR decoding, SHA-2, signature validation, certificate path building are oracles of the model "
           "(Section variables of Model/Timestamp.v); the correspondence run feeds the model the generator's ground truth about them",
           "openssl 3.5 CLI (ts / dgst / x509) produces the tokens and certificates; the crafted-token DER builder in harness/src/c36.rs",
           "add-only hook cose_sign::verif_cose_sign_unchecked (shared with C05/C06) skips the pre-signing certificate gate so "
           "that expired / not-yet-valid credentials can sign",
           "the time-stamp assertion route (store.rs, svi.timestamps) is modelled and proved but not exercised by the run "
           "(the Builder only creates such assertions through a network TSA)"]
ASSUMPTIONS = ["system clock between 2026-01-01 and 2029-12-31 (the generated validity windows are absolute dates)",
               "debug-profile harness"]

CODES = {"timeStamp.malformed": "TsMalformed", "timeStamp.mismatch": "TsMismatch", "timeStamp.outsideValidity": "TsOutsideValidity",
         "timeStamp.untrusted": "TsUntrusted", "timeStamp.validated": "TsValidated", "timeStamp.trusted": "TsTrusted"}
FAILURE_CODES = ("timeStamp.malformed", "timeStamp.mismatch", "timeStamp.outsideValidity", "timeStamp.untrusted")
CODE_NUM = {"MALFORMED": 0, "MISMATCH": 1, "OUTSIDE_VALIDITY": 2, "UNTRUSTED": 3, "VALIDATED": 4, "TRUSTED": 5}


# ------------------------------------------------------------------ facts (tie to the source)

def facts(ctx):
    v = common.strip_tests(common.src("sdk/src/crypto/time_stamp/verify.rs"))
    body = common.fn_body(v, r"pub fn verify_time_stamp\s*\(", "verify_time_stamp")
    seq = re.findall(r"validation_status\(TIMESTAMP_([A-Z_]+)\)", body)
    if not seq or any(s not in CODE_NUM for s in seq):
        raise TieBroken(f"srcfacts: unexpected status constants in verify_time_stamp: {seq}")
    for must, what in ((r"signing_time\s*>=\s*not_before\.saturating_sub\(accuracy_margin\)\s*&&\s*signing_time\s*<=\s*not_after\.saturating_add\(accuracy_margin\)",
                        "TSA validity window with accuracy margin"),
                       (r"digest\.as_ref\(\)\s*==\s*mi\.hashed_message\.to_bytes\(\)", "imprint comparison"),
                       (r"signed_message_digest\s*!=\s*digest\.as_ref\(\)", "message-digest attribute comparison"),
                       (r"validate_timestamp_sig\(&sig_alg,\s*&hash_alg,\s*&sig_val,\s*&tbs,\s*&signing_key_der\)\.is_err\(\)", "CMS signature check"),
                       (r"adjusted_ctp\.clear_ekus\(\);\s*adjusted_ctp\.add_valid_ekus\(TIMESTAMP_OID_STR\.as_bytes\(\)\)", "TSA EKU restriction"),
                       (r"let has_time_stamping_eku =\s*x509_parser::certificate::X509Certificate::from_der\(&ordered_cert_ders\[0\]\).*?eku\.value\.time_stamping\).*?\.unwrap_or\(false\);\s*if !has_time_stamping_eku \{",
                        "explicit id-kp-timeStamping requirement (fix a6060c320)"),
                       (r"None => \{[^}]*?\"timestamp signer certificate not found\"[^}]*?\.validation_status\(TIMESTAMP_UNTRUSTED\)[^}]*?last_err = TimeStampError::Untrusted;\s*continue;",
                        "report of a missing signer certificate (fix 5b12435f8)"),
                       (r"Some\(&tst\),?\s*\)\s*\.is_err\(\)", "TSA profile checked at the token time"),
                       (r"Some\(signing_time\),?\s*\)\s*\.is_err\(\)", "TSA trust checked at the token time"),
                       (r"if let Some\(gt\) = timestamp_to_generalized_time\(signed_signing_time\)\s*\{[^}]*signing_time\s*=[^}]*tst\.gen_time\s*=\s*gt;", "signing-time attribute replaces genTime")):
        if not re.search(must, body, re.S):
            raise TieBroken(f"srcfacts: verify_time_stamp no longer contains the {what}")
    acc = common.fn_body(v, r"fn tst_accuracy_seconds\s*\(", "tst_accuracy_seconds")
    m = common.fact(r"secs\s*\.saturating_mul\(([\d_]+)\)\s*\.saturating_add\(millis\.saturating_mul\(([\d_]+)\)\)\s*\.saturating_add\(micros\);.*?"
                    r"total_micros\.saturating_add\(([\d_]+)\)\s*/\s*([\d_]+)", acc, "accuracy arithmetic")
    per_sec, per_ms, ceil_add, div = (common.rust_int(g) for g in m.groups())
    if div != per_sec:
        raise TieBroken("srcfacts: accuracy divisor differs from the seconds multiplier")
    # has_allowed_eku: which EKUs are accepted before the configured list is consulted
    tp = common.strip_tests(common.src("sdk/src/crypto/cose/certificate_trust_policy.rs"))
    hb = common.fn_body(tp, r"fn has_allowed_eku", "has_allowed_eku")
    always = {k: bool(re.search(r"if eku\.%s\s*\{\s*return Some" % k, hb)) for k in ("email_protection", "time_stamping", "ocsp_signing")}
    # sigtst.rs: what is time-stamped, and the single-token rule
    st = common.strip_tests(common.src("sdk/src/crypto/cose/sigtst.rs"))
    vb = common.fn_body(st, r"fn validate_cose_tst_info\s*\(", "validate_cose_tst_info")
    if not re.search(r"TimeStampStorage::V1_sigTst\s*=>\s*data\s*,", vb):
        raise TieBroken("srcfacts: sigTst (v1) no longer time-stamps the claim data")
    if not re.search(r"TimeStampStorage::V2_sigTst2_CTT\s*=>\s*\{\s*let sig_data = ByteBuf::from\(sign1\.signature\.clone\(\)\);\s*coset::cbor::into_writer\(&sig_data", vb):
        raise TieBroken("srcfacts: sigTst2 (v2) no longer time-stamps the CBOR byte string of the signature")
    pb = common.fn_body(st, r"fn parse_and_validate_sigtst\s*\(", "parse_and_validate_sigtst")
    m = common.fact(r"tst_container\.tst_tokens\.len\(\)\s*>\s*(\d+)", pb, "single token rule")
    max_tokens = int(m.group(1))
    if "cose_countersign_data(data, p_header)" not in pb:
        raise TieBroken("srcfacts: tokens are no longer verified against the countersign structure")
    gb = common.fn_body(st, r"fn get_cose_tst_info\s*\(", "get_cose_tst_info")
    if not (gb.find('"sigTst2"') >= 0 and gb.find('"sigTst"') >= 0 and "find_map" in gb):
        raise TieBroken("srcfacts: get_cose_tst_info no longer takes the first sigTst2/sigTst header")
    # verify_cose: override, else header; errors dropped
    cv = common.strip_tests(common.src("sdk/src/cose_validator.rs"))
    cb = common.fn_body(cv, r"fn verify_cose\s*\(", "verify_cose")
    if not re.search(r"match tst_info \{\s*Some\(tst_info\) => Some\(tst_info\.clone\(\)\),\s*None => \{.*?validate_cose_tst_info\(.*?\.ok\(\)", cb, re.S):
        raise TieBroken("srcfacts: verify_cose time-stamp selection changed")
    s1 = common.strip_tests(common.src("sdk/src/crypto/cose/sign1.rs"))
    sb = common.fn_body(s1, r"fn signing_time_from_sign1\s*\(", "signing_time_from_sign1")
    if "CertificateTrustPolicy::passthrough()" not in sb or "validate_cose_tst_info(sign1, data, &local_ctp, &mut local_log, verify_trust)" not in sb:
        raise TieBroken("srcfacts: signing_time_from_sign1 changed")
    # validity at the time-stamp time or now
    cp = common.strip_tests(common.src("sdk/src/crypto/cose/certificate_profile.rs"))
    # (fix 85312f708 moved the body into check_certificate_profile_inner behind a logging wrapper)
    pb2 = common.fn_body(cp, r"fn check_certificate_profile_inner\s*\(" if "fn check_certificate_profile_inner" in cp
                         else r"pub fn check_certificate_profile\s*\(", "check_certificate_profile")
    if not re.search(r"if let Some\(tst_info\) = _tst_info_opt \{.*?tst_info\.gen_time\.clone\(\)\.into\(\);\s*if !signcert\.validity\(\)\.is_valid_at\(.*?"
                     r"\} else \{.*?SystemTime::now\(\).*?if !signcert\.validity\(\)\.is_valid_at\(", pb2, re.S):
        raise TieBroken("srcfacts: the validity-at-signing-time rule of check_certificate_profile changed")
    # store.rs: time-stamp assertions are verified against the raw signature
    sr = common.src("sdk/src/store.rs")
    if not re.search(r"verify_time_stamp\(\s*time_stamp_token,\s*&sign1\.signature,\s*&self\.ctp,\s*&mut tmp_log,[^)]*rc\.version\(\) != 1,\s*\)", sr, re.S):
        raise TieBroken("srcfacts: store.rs no longer verifies time-stamp assertions against the signature bytes")
    out = ("(* generated from sdk/src/crypto/time_stamp/verify.rs, cose/sigtst.rs, cose/certificate_trust_policy.rs on every run — do not edit *)\n"
           "From Coq Require Import NArith ZArith List.\nImport ListNotations.\n"
           "(* 0 malformed, 1 mismatch, 2 outsideValidity, 3 untrusted, 4 validated, 5 trusted: order of appearance in verify_time_stamp *)\n"
           f"Definition VERIFY_TS_STATUS_SEQ : list N := [{'; '.join(str(CODE_NUM[s]) for s in seq)}]%N.\n"
           f"Definition ACC_MICROS_PER_SEC : Z := {per_sec}%Z.\nDefinition ACC_MICROS_PER_MILLI : Z := {per_ms}%Z.\n"
           f"Definition ACC_CEIL_ADD : Z := {ceil_add}%Z.\n"
           f"Definition EKU_EMAIL_ALWAYS : bool := {str(always['email_protection']).lower()}.\n"
           f"Definition EKU_TIMESTAMP_ALWAYS : bool := {str(always['time_stamping']).lower()}.\n"
           f"Definition EKU_OCSP_ALWAYS : bool := {str(always['ocsp_signing']).lower()}.\n"
           f"Definition MAX_TOKENS : N := {max_tokens}%N.\n")
    common.write_if_changed(os.path.join(common.COQ, "Generated", "C36_facts.v"), out)
    ctx.facts = {"status_seq": seq, "always": always, "max_tokens": max_tokens}


# ------------------------------------------------------------------ cases

NOW_ASSUMED = (P.ep("20260101000000Z"), P.ep("20291231000000Z"))
CA_WINDOW = (P.ep("20200101000000Z"), P.ep("20450101000000Z"))
GEN_TIMES = ["20230601120000Z", "20231231235959Z", "20240101000000Z", "20240601120000Z", "20241231235959Z", "20250101000000Z",
             "20250101000001Z", "20250531235959Z", "20250601000001Z", "20250715120000Z", "20260301120000Z", "20300601120000Z",
             "20310101000000Z", "20310115120000Z", "20320601120000Z", "20221231235959Z"]
_mat = {}


def material():
    if not _mat:
        _mat["creds"] = {k: P.cred(k) for k in ("valid", "expired", "notyet")}
        _mat["creds"]["fixture_expired"] = P.fixture_expired_cred()
        _mat["tsas"] = {k: P.tsa(k) for k in P.TSA_DEFS}
        # the expired signing credential acting as its own time-stamp authority (F-TSA-EKU at full strength)
        c = _mat["creds"]["expired"]
        isr, ser = P.issuer_and_serial(c["spec"])
        _mat["tsas"]["self"] = {"kind": "self", "cert": c["chain"][0], "chain": c["chain"][1:], "key": c["key"], "nb": c["nb"], "na": c["na"],
                                "trusted": True, "eku_ok": False, "key_kind": "ec", "der": P.der_hex(c["spec"]),
                                "chain_der": [P.der_hex(P.INTER)], "sid_issuer": isr.hex(), "sid_serial": ser.hex()}
        _mat["anchors"] = P.anchors()
    return _mat


def mk_case(cred, token=None, claim_v=2, vtt=None, name="", vtrust=None):
    m = material()
    c = m["creds"][cred]
    d = {"name": name, "cred_kind": cred, "cred": {"chain": c["chain"], "key": c["key"], "alg": c["alg"]}, "cred_nb": c["nb"], "cred_na": c["na"],
         "anchors": m["anchors"], "claim_v": claim_v, "token": None}
    if vtt is not None:
        d["verify_timestamp_trust"] = vtt
    if vtrust is not None:
        d["verify_trust"] = vtrust           # false: Verifier::VerifyCertificateProfileOnly (no path validation of the signing credential)
    if token is not None:
        t = m["tsas"][token["tsa_kind"]]
        tok = {"mode": "craft", "msg": "right", "corrupt": "none", "attrs": True, "hash": "sha256", "embed": "all", "signing_time_attr": None,
               "accuracy": None, "gen_time": "20240601120000Z", "wrong_key": False, "hash_label": None, "signer_digest": "sha256"}
        tok.update(token)
        tok.update({"tsa": {"cert": t["cert"], "chain": t["chain"], "key": t["key"]}, "tsa_der": t["der"], "tsa_chain_der": t["chain_der"],
                    "sid_issuer": t["sid_issuer"], "sid_serial": t["sid_serial"], "tsa_key_kind": t["key_kind"],
                    "tsa_nb": t["nb"], "tsa_na": t["na"], "tsa_trusted": t["trusted"], "tsa_eku_ts": t["eku_ok"]})
        if tok["wrong_key"]:
            tok["sign_key"] = m["tsas"]["untrusted" if token["tsa_kind"] != "untrusted" else "ok"]["key"]
        d["token"] = tok
    return d


def corpus():
    p = os.path.join(common.VERIF, "corpus", "C36.jsonl")
    if not os.path.exists(p):
        return []
    out = []
    for l in open(p):
        if l.strip():
            r = json.loads(l)
            out.append(mk_case(r["cred"], r.get("token"), r.get("claim_v", 2), r.get("vtt"), r.get("name", "corpus"), r.get("vtrust")))
    return out


def structured():
    """the quantifier of the property, family by family"""
    out = []
    for cred in ("valid", "expired", "notyet", "fixture_expired"):
        out.append(mk_case(cred, None, name="no-token"))
    for cred in ("valid", "expired", "notyet"):
        # local openssl TSA: right message / different message / corrupted signature / altered TSTInfo / untrusted / out-of-window
        for tsa, msg, cor in (("ok", "right", "none"), ("ok", "other", "none"), ("ok", "right", "sig"), ("ok", "right", "tstinfo"),
                              ("ec", "right", "none"), ("untrusted", "right", "none"), ("old", "right", "none"), ("future", "right", "none")):
            out.append(mk_case(cred, {"mode": "openssl", "tsa_kind": tsa, "msg": msg, "corrupt": cor}, name=f"openssl-{tsa}-{msg}-{cor}"))
        # crafted tokens: genTime inside / outside the credential's window, right and wrong binding
        for g in ("20240601120000Z", "20250715120000Z", "20320601120000Z"):
            out.append(mk_case(cred, {"tsa_kind": "ok", "gen_time": g}, name=f"craft-ok-{g}"))
            out.append(mk_case(cred, {"tsa_kind": "ok", "gen_time": g, "msg": "other"}, name=f"craft-other-{g}"))
            out.append(mk_case(cred, {"tsa_kind": "ok", "gen_time": g, "corrupt": "sig"}, name=f"craft-sig-{g}"))
    e = "expired"
    for kw in ({"tsa_kind": "ok", "corrupt": "imprint"}, {"tsa_kind": "ok", "corrupt": "tstinfo"}, {"tsa_kind": "ok", "wrong_key": True},
               {"tsa_kind": "ok", "attrs": False}, {"tsa_kind": "ok", "attrs": False, "corrupt": "tstinfo"}, {"tsa_kind": "ok", "attrs": False, "msg": "other"},
               {"tsa_kind": "ok", "embed": "leaf"}, {"tsa_kind": "ok", "embed": "chain_only"}, {"tsa_kind": "ok", "embed": "none"},
               {"tsa_kind": "ok", "hash": "sha384"}, {"tsa_kind": "ok", "hash": "sha512"}, {"tsa_kind": "ec"},
               # messageImprint algorithm vs SignerInfo digest algorithm: right imprint under another signer digest; an imprint
               # whose *label* is not the algorithm its value was computed with (unsupported label, supported label)
               {"tsa_kind": "ok", "hash": "sha256", "signer_digest": "sha384"}, {"tsa_kind": "ok", "hash": "sha512", "signer_digest": "sha384"},
               {"tsa_kind": "ok", "hash": "sha256", "hash_label": "sha3-256"}, {"tsa_kind": "ok", "hash": "sha256", "hash_label": "sha384"},
               {"tsa_kind": "ok", "hash": "sha384", "hash_label": "sha256"}, {"tsa_kind": "ok", "hash": "sha384", "hash_label": "sha256", "signer_digest": "sha384"},
               {"tsa_kind": "ok", "hash": "sha256", "hash_label": "sha3-256", "attrs": False}, {"tsa_kind": "ec", "corrupt": "sig"},
               {"tsa_kind": "untrusted"}, {"tsa_kind": "badeku"}, {"tsa_kind": "self"}, {"tsa_kind": "self", "msg": "other"},
               {"tsa_kind": "old"}, {"tsa_kind": "old", "gen_time": "20250715120000Z"}, {"tsa_kind": "old", "gen_time": "20221231235959Z"},
               {"tsa_kind": "old", "gen_time": "20250601000001Z", "accuracy": 1}, {"tsa_kind": "old", "gen_time": "20250601000001Z", "accuracy": 100000000},
               {"tsa_kind": "future", "gen_time": "20240601120000Z"}, {"tsa_kind": "future", "gen_time": "20300601120000Z"},
               {"tsa_kind": "ok", "signing_time_attr": P.utc(P.ep("20240601120000Z"))}, {"tsa_kind": "ok", "signing_time_attr": P.utc(P.ep("20250601120000Z"))},
               {"tsa_kind": "ok", "gen_time": "20250715120000Z", "signing_time_attr": P.utc(P.ep("20240601120000Z"))},
               {"tsa_kind": "ok", "gen_time": "20240101000000Z"}, {"tsa_kind": "ok", "gen_time": "20231231235959Z"},
               {"tsa_kind": "ok", "gen_time": "20250101000000Z"}, {"tsa_kind": "ok", "gen_time": "20250101000001Z"}):
        out.append(mk_case(e, kw, name="craft-" + "-".join(f"{k}={v}" for k, v in kw.items())))
    # trust verification of the TSA switched off; legacy (v1) claims: sigTst over the claim data, no TSA trust
    for kw in ({"tsa_kind": "untrusted"}, {"tsa_kind": "ok", "msg": "other"}, {"tsa_kind": "badeku"}, {"tsa_kind": "ok"}):
        out.append(mk_case(e, kw, vtt=False, name="vtt-off"))
        out.append(mk_case(e, kw, claim_v=1, name="v1"))
    # signing-credential trust switched off: only the certificate profile (validity at the signing time) decides
    for kw in ({"tsa_kind": "ok"}, {"tsa_kind": "ok", "gen_time": "20250715120000Z"}, {"tsa_kind": "ok", "gen_time": "20231231235959Z"},
               {"tsa_kind": "ok", "msg": "other"}, {"tsa_kind": "ok", "corrupt": "sig"}, {"mode": "openssl", "tsa_kind": "ok"}):
        out.append(mk_case(e, kw, vtrust=False, name="trust-off"))
        out.append(mk_case("notyet", kw, vtrust=False, name="trust-off"))
    out.append(mk_case(e, None, vtrust=False, name="trust-off-no-token"))
    # a token dated shortly after the TSA certificate expired, inside the (not yet valid) credential's period
    for vtt in (None, False):
        out.append(mk_case("notyet", {"tsa_kind": "future", "gen_time": "20310115120000Z"}, vtt=vtt, name="tsa-expired-2-weeks"))
        out.append(mk_case("notyet", {"tsa_kind": "future", "gen_time": "20301231235959Z"}, vtt=vtt, name="tsa-valid-last-second"))
    out.append(mk_case(e, {"tsa_kind": "ok", "corrupt": "truncate"}, claim_v=1, name="v1-truncated"))
    out.append(mk_case(e, {"tsa_kind": "ok", "corrupt": "truncate"}, claim_v=2, name="v2-truncated"))
    out.append(mk_case("fixture_expired", {"tsa_kind": "ok", "gen_time": "20220202180000Z"}, name="fixture-expired-in-window"))
    out.append(mk_case("fixture_expired", {"tsa_kind": "ok", "gen_time": "20220202180000Z", "msg": "other"}, name="fixture-expired-other"))
    return out


def gen_case(rng):
    cred = rng.choice(["valid", "expired", "expired", "expired", "notyet"])
    r = rng.random()
    if r < 0.04:
        return mk_case(cred, None, name="rnd-none")
    tsa = rng.choice(["ok", "ok", "ok", "ec", "old", "future", "untrusted", "badeku", "self"])
    if r < 0.22 and tsa not in ("badeku", "self"):
        tok = {"mode": "openssl", "tsa_kind": tsa, "msg": rng.choice(["right", "right", "other"]), "corrupt": rng.choice(["none", "none", "sig", "tstinfo"])}
        return mk_case(cred, tok, claim_v=rng.choice([2, 2, 1]), vtt=rng.choice([None, None, False]), name="rnd-openssl",
                       vtrust=rng.choice([None, None, None, False]))
    tok = {"tsa_kind": tsa, "gen_time": rng.choice(GEN_TIMES), "msg": rng.choice(["right", "right", "right", "other"]),
           "corrupt": rng.choice(["none", "none", "none", "none", "sig", "imprint", "tstinfo"]), "attrs": rng.random() < 0.75,
           "hash": rng.choice(["sha256", "sha256", "sha384", "sha512"]), "embed": rng.choice(["all", "all", "all", "leaf", "chain_only", "none"]),
           "accuracy": rng.choice([None, None, 1, 86400, 100000000]), "wrong_key": rng.random() < 0.08}
    if rng.random() < 0.15:
        tok["hash_label"] = rng.choice(["sha256", "sha384", "sha512", "sha3-256"])
    if tsa in ("ok", "old", "future", "untrusted", "badeku") and rng.random() < 0.15:      # RSA keys only
        tok["signer_digest"] = rng.choice(["sha384", "sha512"])
    if tok["attrs"] and rng.random() < 0.3:
        tok["signing_time_attr"] = P.utc(P.ep(rng.choice([tok["gen_time"]] + GEN_TIMES)))
    return mk_case(cred, tok, claim_v=rng.choice([2, 2, 2, 1]), vtt=rng.choice([None, None, None, False]), name="rnd-craft",
                   vtrust=rng.choice([None, None, None, False]))


# ------------------------------------------------------------------ ground truth of a case (from its recipe only)

def truth(c, now):
    """what the generator knows about the token, independent of the SDK and of the Coq model"""
    t = c["token"]
    g = {"present": t is not None, "cred_valid_now": c["cred_nb"] <= now <= c["cred_na"]}
    if t is None:
        return g
    openssl = t["mode"] == "openssl"
    g["parses"] = t["corrupt"] != "truncate"
    label_ok = openssl or t.get("hash_label") in (None, t["hash"])      # the imprint names the algorithm its value was computed with
    g["imprint_ok"] = t["msg"] == "right" and label_ok and not (t["corrupt"] == "imprint" or (openssl and t["corrupt"] == "tstinfo"))
    g["signer_cert_embedded"] = openssl or t["embed"] in ("all", "leaf")
    g["cms_ok"] = (g["parses"] and t["corrupt"] not in ("sig", "tstinfo", "imprint" if openssl else "-") and not t.get("wrong_key")
                   and g["signer_cert_embedded"])
    if not openssl and t["corrupt"] == "imprint":
        g["cms_ok"] = g["cms_ok"]          # crafted: the imprint is wrong *before* signing, the CMS signature is fine
    gen = now if openssl else P.ep(t["gen_time"])
    attr = None
    if not openssl and t["attrs"] and t.get("signing_time_attr"):
        a = t["signing_time_attr"]
        attr = P.ep(("20" + a) if len(a) == 13 else a)
    if openssl:
        attr = None                          # openssl adds signingTime = genTime
    g["gen"], g["attr"] = gen, attr
    acc = 1 if openssl else (t["accuracy"] or 0)
    g["acc"] = acc
    times = [gen] + ([attr] if attr is not None else [])
    g["in_tsa_window"] = [t["tsa_nb"] - acc <= x <= t["tsa_na"] + acc for x in times]
    g["in_cred_window"] = [c["cred_nb"] <= x <= c["cred_na"] for x in times]
    g["tsa_trusted_chain"] = t["tsa_trusted"] and (openssl or t["embed"] in ("all",))   # 'leaf': the issuing CA is not embedded
    g["tsa_eku_ts"] = t["tsa_eku_ts"]
    return g


# ------------------------------------------------------------------ the same case as a term of Model/Timestamp.v

IMPORTS = ("From Coq Require Import List NArith ZArith Bool.\nFrom C2PA Require Import Base.Bytes Model.Timestamp.\n"
           "Import ListNotations.\nOpen Scope Z_scope.")
HASH = {"sha256": "Sha256", "sha384": "Sha384", "sha512": "Sha512"}
KEY_ID = {"ok": 11, "ec": 12, "old": 13, "future": 14, "untrusted": 15, "badeku": 16, "self": 17}
CD, SIG, PH = "[5]%N", "[9; 9]%N", "[1]%N"


def b(x):
    return "true" if x else "false"


def coq_eku(ts):
    return ("{| eku_any := false; eku_server_auth := false; eku_client_auth := false; eku_code_signing := false; "
            f"eku_email_protection := {b(not ts)}; eku_time_stamping := {b(ts)}; eku_ocsp_signing := false; "
            "eku_other_nonempty := false; eku_other_allowed := false |}")


def model_expr(c, now):
    """(v_expired, v_untrusted, v_accepted, v_log, genTime used, SignatureInfo.time) of the model for this case"""
    g = truth(c, now)
    t = c["token"]
    v1 = c["claim_v"] == 1
    vt = (c.get("verify_timestamp_trust") is not False) and not v1
    chain_ok = c["cred_kind"] != "fixture_expired"
    lo, hi = max(CA_WINDOW[0], c["cred_nb"]), min(CA_WINDOW[1], c["cred_na"])
    if c.get("verify_trust") is False:
        trust_fn = "fun _ => true"
    else:
        trust_fn = f"fun o => match o with None => {b(chain_ok)} | Some t => {b(chain_ok)} && ({lo} <=? t) && (t <? {hi}) end"
    cred = (f"{{| cr_not_before := {c['cred_nb']}; cr_not_after := {c['cred_na']}; cr_profile_rest := {b(chain_ok)}; "
            f"cr_trusted := {trust_fn} |}}")
    trusted = "(fun _ _ => true)"
    if t is None:
        hs = "[]"
    else:
        st = "V1_sigTst" if v1 else "V2_sigTst2"
        msg = f"(toy_countersign ({CD if v1 else 'toy_bstr ' + SIG}) {PH})"
        openssl = t["mode"] == "openssl"
        h = HASH["sha256" if openssl else t["hash"]]
        label = None if openssl else t.get("hash_label")
        sd = HASH["sha256" if openssl else t.get("signer_digest", "sha256")]
        bound_msg = t["msg"] == "right" and not (t["corrupt"] == "imprint" or (openssl and t["corrupt"] == "tstinfo"))
        imprint = f"(toyH {h} {msg})" if bound_msg else f"(toyH {h} ({msg} ++ [90]%N))"
        label_term = f"Some {h}" if label is None else ("None" if label not in HASH else f"Some {HASH[label]}")
        acc = "Some (1, 0, 0)" if openssl else ("None" if t["accuracy"] is None else f"Some ({t['accuracy']}, 0, 0)")
        tst = f"{{| ti_imprint_alg := {label_term}; ti_imprint := {imprint}; ti_gen_time := {g['gen']}; ti_accuracy := {acc} |}}"
        key = KEY_ID[t["tsa_kind"]]
        cert = (f"{{| tc_key := {key}%N; tc_not_before := {t['tsa_nb']}; tc_not_after := {t['tsa_na']}; tc_v3 := true; tc_is_ca := false; "
                f"tc_eku := Some ({coq_eku(t['tsa_eku_ts'])}); tc_x509_ok := true |}}")
        altered = t["corrupt"] == "tstinfo" or (openssl and t["corrupt"] == "imprint")
        content = "[43]%N" if altered else "[42]%N"
        attrs_on = openssl or t["attrs"]
        sign_key = 99 if t.get("wrong_key") else key
        if attrs_on:
            enc = "[77; 1]%N"
            st_attr = g["gen"] if openssl else g["attr"]
            attrs = (f"Some {{| sa_signing_time := {('Some (%d)' % st_attr) if st_attr is not None else 'None'}; "
                     f"sa_digest := DaValue (toyH {sd} [42]%N); sa_encoding := Some {enc} |}}")
            signed = enc
        else:
            attrs, signed = "None", "[42]%N"
        sig = f"(({sign_key} :: {signed})%N)" if t["corrupt"] != "sig" else f"(({sign_key} :: 0 :: {signed})%N)"
        embedded = g["signer_cert_embedded"]
        signer = (f"{{| si_cert := {('Some (' + cert + ')') if embedded else 'None'}; si_digest := DoAlg {sd}; si_attrs := {attrs}; "
                  f"si_key_ok := true; si_signature := {sig} |}}")
        certs = "None" if (not openssl and t["embed"] == "none") else "Some true"
        tk = (f"{{| tk_signed_data := {b(g['parses'])}; tk_certs := {certs}; tk_tst := Some ({tst}); tk_content := Some {content}; "
              f"tk_signers := [{signer}] |}}")
        hs = f"[({st}, Some [{tk}])]"
        tlo, thi = max(CA_WINDOW[0], t["tsa_nb"]), min(CA_WINDOW[1], t["tsa_na"])
        trusted = f"(fun _ t => {b(g['tsa_trusted_chain'])} && ({tlo} <=? t) && (t <? {thi}))"
    args = f"toyH toyVerify (fun _ => None) {trusted} toy_countersign toy_bstr"
    return (f"let v := verify_cose {args} ({cred}) None {hs} {CD} {SIG} {PH} {b(vt)} {now} in "
            f"(v_expired v, v_untrusted v, v_accepted v, v_log v, option_map ti_gen_time (v_time v), v_invalid v, "
            f"reported_time {args} {hs} {CD} {SIG} {PH})")


def model_view(term):
    exp, untr, acc, log, used, inv, shown = term
    codes, leak = [], []
    for it in (log if isinstance(log, list) else []):
        if it[0] == "LTs":
            codes.append(it[1])
        else:
            leak.append(it[1])
    opt = lambda o: None if o == "None" else int(o[1])
    return {"expired": exp == "true" or "CredExpired" in leak, "untrusted": untr == "true", "invalid": inv == "true" or "CredInvalid" in leak,
            "codes": sorted(codes), "used": opt(used), "shown": opt(shown)}


def impl_view(r):
    from datetime import datetime
    f = r.get("failure", [])
    codes = sorted(CODES[x] for x in r.get("failure", []) + r.get("success", []) + r.get("informational", []) if x in CODES)
    shown = None
    if r.get("sig_time"):
        shown = int(datetime.fromisoformat(r["sig_time"]).timestamp())
    return {"expired": "signingCredential.expired" in f, "untrusted": "signingCredential.untrusted" in f,
            "invalid": "signingCredential.invalid" in f, "codes": codes, "shown": shown}


# ------------------------------------------------------------------ oracle: the property text on the implementation's answer

def accepted(r):
    """the signing credential is accepted: no signingCredential.* failure and the claim signature validated"""
    f = r.get("failure", [])
    return r.get("r") == "ok" and not any(x.startswith("signingCredential.") for x in f) and "claimSignature.validated" in r.get("success", [])


def oracle(ctx, c, r, now, stats):
    g = truth(c, now)
    mi = {k: v for k, v in c.items() if k not in ("cred", "anchors")}
    mi["token"] = None if c["token"] is None else {k: v for k, v in c["token"].items() if k not in ("tsa", "tsa_der", "tsa_chain_der", "sign_key")}
    mi["truth"] = g
    if r["r"] in ("panic", "crash"):
        ctx.report_violation(c, f"implementation panicked: {r.get('msg')}", mi)
        return
    if r["r"] != "ok":
        # no manifest was produced / read: nothing is reported Valid.  Expected only for a response that does not parse (v2 signing).
        stats["no_report"] += 1
        if not (g["present"] and not g.get("parses", True)) and r.get("stage") != "read":
            ctx.report_violation(c, f"signing failed unexpectedly at {r.get('stage')}: {r.get('kind')} {r.get('detail')}", mi)
        return
    all_codes = r["failure"] + r["success"] + r["informational"]
    state_ok = r["state"] in ("Valid", "Trusted")
    acc = accepted(r)
    if g["present"]:
        usable = g["imprint_ok"] and g["cms_ok"]
        if not usable:
            stats["unusable"] += 1
            # sentence 1: not used as the signing time, a time-stamp failure is reported
            if r.get("sig_time") is not None:
                ctx.report_violation(c, f"signing time {r['sig_time']} taken from a token whose imprint/CMS signature does not check", mi)
            if "timeStamp.validated" in all_codes or "timeStamp.trusted" in all_codes:
                ctx.report_violation(c, "timeStamp.validated/trusted reported for a token whose imprint/CMS signature does not check", mi)
            if not any(x in all_codes for x in FAILURE_CODES):
                ctx.report_violation(c, "no time-stamp failure code reported for a token that does not verify", mi)
        else:
            stats["usable"] += 1
    if not g["cred_valid_now"]:
        stats["cred_not_valid_now"] += 1
        if acc or state_ok:
            stats["outside_accepted"] += 1
            # sentence 2: only through a matching, valid time-stamp that places signing inside the validity period
            v1 = c["claim_v"] == 1
            vt = (c.get("verify_timestamp_trust") is not False) and not v1
            why = None
            if not g["present"]:
                why = "without any time-stamp"
            elif not (g["imprint_ok"] and g["cms_ok"]):
                why = "although the token does not match / verify"
            elif not any(g["in_cred_window"]):
                why = "although the token time is outside the credential's validity period"
            elif not any(g["in_tsa_window"]):
                why = "although the token time is outside the TSA certificate's validity"
            elif vt and not g["tsa_trusted_chain"]:
                why = "although the TSA certificate is not trusted"
            elif vt and not g["tsa_eku_ts"]:
                why = "although the token is signed by a certificate without id-kp-timeStamping (not a TSA certificate)"
            if why:
                ctx.report_violation(c, f"credential outside its validity now is accepted {why} (state {r['state']})", mi)


def evaluate(ctx, cases, with_model=True):
    now = int(time.time())
    if not NOW_ASSUMED[0] <= now <= NOW_ASSUMED[1]:
        ctx.assumptions.append(f"clock {now} outside the assumed range: expired/not-yet-valid classes are no longer what the generator intends")
    slim = []
    for c in cases:
        s = {k: c[k] for k in ("id", "cred", "anchors", "claim_v", "token") if k in c}
        for k in ("verify_timestamp_trust", "verify_trust"):
            if k in c:
                s[k] = c[k]
        slim.append(s)
    impl = common.run_harness("c36", slim, jobs=12)
    model = None
    if with_model:
        model = common.coq_eval("C36", IMPORTS, [model_expr(c, now) for c in cases], shard_size=60)
    stats = {"usable": 0, "unusable": 0, "no_report": 0, "cred_not_valid_now": 0, "outside_accepted": 0, "kinds": {}, "modes": {}, "creds": {},
             "codes": {}, "states": {}, "sig_time_shown": 0}
    distinct = set()
    for i, c in enumerate(cases):
        r = impl[c["id"]]
        t = c["token"]
        stats["creds"][c["cred_kind"]] = stats["creds"].get(c["cred_kind"], 0) + 1
        k = "none" if t is None else f"{t['mode']}/{t['tsa_kind']}/{t['msg']}/{t['corrupt']}"
        stats["kinds"][k] = stats["kinds"].get(k, 0) + 1
        stats["modes"]["none" if t is None else t["mode"]] = stats["modes"].get("none" if t is None else t["mode"], 0) + 1
        if r.get("r") == "ok":
            stats["states"][r["state"]] = stats["states"].get(r["state"], 0) + 1
            for x in r["failure"] + r["success"] + r["informational"]:
                if x.startswith("timeStamp.") or x.startswith("signingCredential."):
                    stats["codes"][x] = stats["codes"].get(x, 0) + 1
            if r.get("sig_time"):
                stats["sig_time_shown"] += 1
        if t is not None:
            distinct.add(json.dumps([c["cred_kind"], c["claim_v"], c.get("verify_timestamp_trust"), c.get("verify_trust"),
                                     {k: v for k, v in t.items() if k not in ("tsa", "tsa_der", "tsa_chain_der", "sign_key")}], sort_keys=True))
        oracle(ctx, c, r, now, stats)
        if model is not None and r.get("r") == "ok":
            mv, iv = model_view(model[i]), impl_view(r)
            g = truth(c, now)
            if t is not None and t["mode"] == "openssl":
                # the local TSA stamps its own clock: compare against the time it reported, within the run
                for v in (mv,):
                    if v["shown"] is not None and iv["shown"] is not None and abs(v["shown"] - iv["shown"]) < 3600:
                        v["shown"] = iv["shown"]
            cmp_m = {k: mv[k] for k in ("expired", "untrusted", "invalid", "codes", "shown")}
            if cmp_m != iv:
                ctx.disagreements.append({"case": {k: v for k, v in c.items() if k not in ("cred", "anchors")} | {"token": None if t is None else {k: v for k, v in t.items() if k not in ("tsa", "tsa_der", "tsa_chain_der", "sign_key")}},
                                          "impl": iv, "model": cmp_m})
    return stats, len(distinct)


def run(ctx):
    if not getattr(ctx, "no_build", False):
        common.build_harness()
    if ctx.replay:
        cases = [ctx.replay["case"]] if "case" in ctx.replay else [d["case"] for d in ctx.replay.get("disagreements", [])]
        cases = [mk_case(c["cred_kind"], None if c["token"] is None else {k: v for k, v in c["token"].items() if not k.startswith("tsa_") or k == "tsa_kind"},
                         c["claim_v"], c.get("verify_timestamp_trust"), c.get("name", "replay"), c.get("verify_trust")) for c in cases]
    else:
        cases = corpus() + structured()
        cases += [gen_case(ctx.rng) for _ in range(60 if ctx.quick() else 1400)]
    for i, c in enumerate(cases):
        c["id"] = i
    stats, distinct = evaluate(ctx, cases)
    ctx.coverage.update({
        "evaluations": len(cases), "distinct_nontrivial": distinct,
        "rule": "corpus + structured families (local `openssl ts` TSA: right / different message, corrupted signature, altered TSTInfo, untrusted, "
                "expired, not-yet-valid, wrong-EKU TSA; crafted tokens: genTime inside / outside / on the bounds of the credential and TSA windows, "
                "signed attributes on/off, signing-time attribute, accuracy, hash algorithm, embedded certificates, wrong key) x credentials "
                "valid / expired / not-yet-valid / fixture-expired x claim v1 / v2 x TSA trust on / off, + seeded random recipes; "
                "non-trivial = has a token; distinct by recipe",
        "distribution": stats,
        "traces_validated_against_impl": len(cases),
        "samples": [{k: v for k, v in c.items() if k not in ("cred", "anchors", "token")} |
                    {"token": None if c["token"] is None else {k: v for k, v in c["token"].items() if k in ("mode", "tsa_kind", "msg", "corrupt", "gen_time", "attrs", "embed")}}
                    for c in cases[4:6] + cases[len(cases) // 2: len(cases) // 2 + 2]],
    })


def search(ctx):
    common.build_harness()
    cases = structured() + [gen_case(ctx.rng) for _ in range(900)]
    for i, c in enumerate(cases):
        c["id"] = i
    evaluate(ctx, cases, with_model=False)
    ctx.coverage["search_evaluations"] = len(cases)
