"""C31 — the C API never crashes or double-frees on handle misuse."""
import hashlib, json, os, re
from .. import common
from ..common import TieBroken

PROP_FILE = "Properties/C31.v"
TRUSTED = ["bodies of the exported functions are opaque: the model takes 'failed / succeeded and tracked these addresses' from the run",
           "the allocator is an oracle (addresses observed in the run are replayed into the model); heap safety of the bodies is observed (glibc MALLOC_CHECK_, valgrind in thorough), not proved",
           "Mutex poisoning of the registry is not modelled (no panic occurs while the lock is held)",
           "hook c2pa_c_ffi/src/cimpl/utils.rs verif_registry_snapshot (read-only view of the registry)"]
ASSUMPTIONS = ["single-threaded call histories (the last-error slot is thread-local); 64-bit usize; glibc allocator",
               "C strings, byte buffers and user contexts handed to the API are valid when non-NULL (cstr_or_return reads them without any registry check)"]

FILES = ["c2pa_c_ffi/src/c_api.rs", "c2pa_c_ffi/src/c2pa_stream.rs"]
UTILS = "c2pa_c_ffi/src/cimpl/utils.rs"
MACROS = "c2pa_c_ffi/src/cimpl/macros.rs"

# sha256 of the whitespace-normalised text of the items the Coq model transcribes by hand
# (Model/Registry.v, Model/FfiGuards.v).  A change here means the transcription must be re-read.
PINNED_FILE = os.path.join(os.path.dirname(os.path.abspath(__file__)), "c31_pinned.json")

# ------------------------------------------------------------------ translator: source -> guard table


def _norm(s):
    s = re.sub(r"//[^\n]*", "", s)
    return re.sub(r"\s+", " ", s).strip()


def _cfg_test_stripped(t):
    """drop `#[cfg(test)] { .. }` blocks inside functions (cimpl_free prints diagnostics in test builds)"""
    out, i = [], 0
    for m in re.finditer(r"#\[cfg\(test\)\]\s*\{", t):
        if m.start() < i:
            continue
        depth, j = 0, m.end() - 1
        while j < len(t):
            if t[j] == "{":
                depth += 1
            elif t[j] == "}":
                depth -= 1
                if depth == 0:
                    break
            j += 1
        out.append(t[i:m.start()])
        i = j + 1
    out.append(t[i:])
    return "".join(out)


def pinned_items():
    u = common.strip_tests(common.src(UTILS))
    m = common.strip_tests(common.src(MACROS))
    items = {}
    for fn in ("track", "validate", "untrack", "free"):
        items[f"utils.rs fn {fn}"] = common.fn_body(u, r"fn\s+" + fn + r"\s*\(\s*&self", f"PointerRegistry::{fn}")
    items["utils.rs fn cimpl_free"] = _cfg_test_stripped(common.fn_body(u, r"pub\s+extern\s+\"C\"\s+fn\s+cimpl_free\s*\(", "cimpl_free"))
    items["utils.rs fn is_safe_buffer_size"] = common.fn_body(u, r"fn\s+is_safe_buffer_size\s*\(", "is_safe_buffer_size")
    items["utils.rs fn safe_slice_from_raw_parts"] = common.fn_body(u, r"fn\s+safe_slice_from_raw_parts\s*\(", "safe_slice_from_raw_parts")
    for mac in ("deref_or_return", "deref_mut_or_return", "untrack_or_return", "ptr_or_return", "cstr_or_return",
                "bytes_or_return", "ok_or_return", "box_tracked"):
        items[f"macros.rs {mac}"] = common.fn_body(m, r"macro_rules!\s+" + mac + r"\s*\{", f"macro {mac}")
    return {k: hashlib.sha256(_norm(v).encode()).hexdigest()[:16] for k, v in items.items()}


def _split_top(s):
    parts, depth, cur = [], 0, ""
    for ch in s:
        if ch in "(<[":
            depth += 1
        elif ch in ")>]":
            depth -= 1
        if ch == "," and depth == 0:
            parts.append(cur)
            cur = ""
        else:
            cur += ch
    if cur.strip():
        parts.append(cur)
    return [p.strip() for p in parts if p.strip()]


def _fns(text, pattern):
    """yield (name, params_text, ret_text, body) for every function whose header matches"""
    for m in re.finditer(pattern, text):
        name = m.group(1)
        i = m.end()        # just after '('
        depth, j = 1, i
        while depth:
            if text[j] == "(":
                depth += 1
            elif text[j] == ")":
                depth -= 1
            j += 1
        params = text[i:j - 1]
        k = text.find("{", j)
        ret = text[j:k].strip()
        ret = ret[2:].strip() if ret.startswith("->") else ""
        body = common.fn_body(text[m.start():], r"fn\s+" + name + r"\b", name)
        yield name, params, ret, body


G_DEREF = re.compile(r"\b(deref_mut_or_return|deref_or_return)(?:_null|_int|_zero|_false)?!\(\s*([\w.]+)\s*,\s*(\w+)")
G_UNTRACK = re.compile(r"\buntrack_or_return(?:_null|_int)?!\(\s*([\w.]+)\s*,\s*(\w+)")
G_CSTR = re.compile(r"\bcstr_or_return(?:_null|_int)?!\(\s*([\w.]+)\s*[,)]")
G_CSTROPT = re.compile(r"\bcstr_option!\(\s*([\w.]+)\s*\)")
G_CSTRARR = re.compile(r"\bcstr_array_or_return(?:_null|_int)?!\(\s*([\w.]+)\s*[,)]")
G_PTR = re.compile(r"\bptr_or_return(?:_null|_int)?!\(\s*([\w.]+)\s*[,)]")
G_BYTES = re.compile(r"\bbytes_or_return(?:_null|_int)?!\(\s*([\w.]+)\s*,\s*([\w.]+)\s*,")
G_NULLRET = re.compile(r"\bif\s+(\w+)\.is_null\(\)\s*\{\s*return\b\s*([^;}]*);\s*\}")
G_NULLOK = re.compile(r"\bif\s+!\s*(\w+)\.is_null\(\)\s*\{")
G_NULLOR = re.compile(r"\bif\s+[^{};]*\b(\w+)\.is_null\(\)[^{};]*\{")
G_ALIAS = re.compile(r"\blet\s+(?:mut\s+)?(\w+)\s*=\s*(\w+)\s+as\s+\*")
RAW = [re.compile(r"&mut\s*\(?\s*\*\s*\(?(\w+)\b"), re.compile(r"&\s*\(?\s*\*\s*\(?(\w+)\b"),
       re.compile(r"(?<![\w)\]])\*\s*(\w+)\s*=[^=]"), re.compile(r"(?<![\w)\]])\*\s*(\w+)\.add\("),
       re.compile(r"\(\s*\*\s*(\w+)\s*\)\s*\.")]
OWN = [re.compile(r"\bVec::from_raw_parts\(\s*(\w+)"), re.compile(r"\bBox::from_raw\(\s*(\w+)"), re.compile(r"\bCString::from_raw\(\s*(\w+)")]
FREE_BODY = re.compile(r"^\{\s*cimpl_free!?\(\s*(\w+)(?:\s+as\s+[^)]*)?\)\s*;?\s*\}$")


def translate():
    """returns (types, fns, free_fns, maxstr); fns: name -> dict(params=[(pname, kind, tname)], guards=[tuple], ret=kind)"""
    texts = {f: _cfg_test_stripped(common.strip_tests(common.src(f))) for f in FILES}
    utils = common.strip_tests(common.src(UTILS))
    macros = common.strip_tests(common.src(MACROS))
    maxstr = common.rust_int(common.fact(r"pub\s+const\s+MAX_CSTRING_LEN\s*:\s*usize\s*=\s*([^;]+);", macros, "MAX_CSTRING_LEN").group(1))
    # registry types: every T used by a deref/untrack guard, plus the two that utils.rs tracks itself
    tnames = set()
    for t in texts.values():
        tnames |= {m.group(3) for m in G_DEREF.finditer(t)} | {m.group(2) for m in G_UNTRACK.finditer(t)}
    if "TypeId::of::<CString>()" not in utils or "TypeId::of::<Box<[u8]>>()" not in utils:
        raise TieBroken("srcfacts: to_c_string / to_c_bytes no longer track as CString / Box<[u8]>")
    tnames |= {"CString", "Bytes"}
    types = {n: i + 1 for i, n in enumerate(sorted(tnames))}
    fns, free_fns = {}, {}
    for fpath, text in texts.items():
        helpers = {}
        for name, params, ret, body in _fns(text, r"(?m)^unsafe\s+fn\s+(\w+)\s*\("):
            helpers[name] = _one(name, params, ret, body, types, {}, helper=True)
        for name, params, ret, body in _fns(text, r"pub\s+(?:unsafe\s+)?extern\s+\"C\"\s+fn\s+(\w+)\s*\("):
            m = FREE_BODY.match(_norm(body))
            if m:
                free_fns[name] = "int" if ret else "void"
                continue
            fns[name] = _one(name, params, ret, body, types, helpers)
    if len(fns) < 40 or len(free_fns) < 5:
        raise TieBroken(f"srcfacts: only {len(fns)} exported functions / {len(free_fns)} free functions recognised")
    return types, fns, free_fns, maxstr


def _one(name, params, ret, body, types, helpers, helper=False):
    ps = []
    for p in _split_top(params):
        pn, _, ty = p.partition(":")
        ps.append([pn.strip(), _norm(ty)])
    names = [p[0] for p in ps]
    idx = {n: i for i, n in enumerate(names)}
    body_n = body
    alias = {}
    for m in G_ALIAS.finditer(body_n):
        if m.group(2) in idx:
            alias[m.group(1)] = m.group(2)
    events = []   # (pos, guard tuple)

    def pidx(expr, where):
        e = alias.get(expr, expr)
        if e in idx:
            return idx[e]
        if "." in e and e.split(".")[0] in idx:         # field of a struct parameter: pseudo-parameter
            if e not in idx:
                idx[e] = len(ps)
                ps.append([e, "*const c_char (field)"])
            return idx[e]
        if helper:
            return None
        raise TieBroken(f"srcfacts: {name}: guard on `{expr}` ({where}) is not a parameter")

    checked_at = {}   # param index -> position of the first validating guard
    for m in G_DEREF.finditer(body_n):
        i = pidx(m.group(2), "deref")
        if i is None:
            continue
        if m.group(3) not in types:
            raise TieBroken(f"srcfacts: {name}: unknown registry type {m.group(3)}")
        events.append((m.start(), ("GDeref", i, types[m.group(3)])))
        checked_at.setdefault(i, m.start())
    for m in G_UNTRACK.finditer(body_n):
        i = pidx(m.group(1), "untrack")
        events.append((m.start(), ("GUntrack", i, types[m.group(2)])))
        checked_at.setdefault(i, m.start())
    for m in G_CSTR.finditer(body_n):
        i = pidx(m.group(1), "cstr")
        if i is not None:
            events.append((m.start(), ("GCstr", i)))
            checked_at.setdefault(i, m.start())
    opt = set()
    for rx in (G_CSTROPT, G_CSTRARR):
        for m in rx.finditer(body_n):
            i = pidx(m.group(1), "optional string")
            if i is not None:
                opt.add(i)
    for m in G_PTR.finditer(body_n):
        i = pidx(m.group(1), "ptr")
        if i is not None:
            events.append((m.start(), ("GPtr", i)))
            checked_at.setdefault(i, m.start())
    for m in G_BYTES.finditer(body_n):
        i, l = pidx(m.group(1), "bytes"), pidx(m.group(2), "bytes len")
        events.append((m.start(), ("GBytes", i, l)))
        checked_at.setdefault(i, m.start())
    nullok_at = {}
    for m in G_NULLRET.finditer(body_n):
        e = alias.get(m.group(1), m.group(1))
        if e in idx:
            if m.group(2).strip():
                events.append((m.start(), ("GPtrSilent", idx[e])))
            nullok_at.setdefault(idx[e], m.start())
    for rx in (G_NULLOK, G_NULLOR):
        for m in rx.finditer(body_n):
            e = alias.get(m.group(1), m.group(1))
            if e in idx:
                nullok_at.setdefault(idx[e], m.start())

    def is_ptr_ty(ty):
        return ty.startswith("*") or ty.startswith("&")

    def handle_type(ty):
        m = re.match(r"^\*(?:mut|const)\s+(\w+)$", ty)
        return types.get(m.group(1)) if m else None

    raw_seen = set()
    for kind, rxs in (("raw", RAW), ("own", OWN)):
        for rx in rxs:
            for m in rx.finditer(body_n):
                e = alias.get(m.group(1), m.group(1))
                if e not in idx or idx[e] >= len(names):
                    continue
                i = idx[e]
                ty = ps[i][1]
                if not ty.startswith("*"):
                    continue
                if i in checked_at and checked_at[i] < m.start():
                    continue
                if (i, kind) in raw_seen:
                    continue
                raw_seen.add((i, kind))
                guarded_null = i in nullok_at and nullok_at[i] < m.start()
                ht = handle_type(ty)
                if kind == "own":
                    events.append((m.start(), ("GOwn", i)))
                elif ht is not None:
                    events.append((m.start(), ("GRawOpt" if guarded_null else "GRaw", i, ht)))
                elif not guarded_null:
                    events.append((m.start(), ("GMem", i)))
    # helpers called with a parameter passed through
    for hname, h in helpers.items():
        for m in re.finditer(r"\b" + hname + r"\(", body_n):
            depth, j = 1, m.end()
            while depth:
                if body_n[j] == "(":
                    depth += 1
                elif body_n[j] == ")":
                    depth -= 1
                j += 1
            args = _split_top(body_n[m.end():j - 1])
            for g in h["guards"]:
                if g[0] in ("GMem", "GRaw", "GRawOpt", "GOwn") and g[1] < len(args) and args[g[1]] in idx:
                    i = idx[args[g[1]]]
                    if i in checked_at and checked_at[i] < m.start():
                        continue
                    events.append((m.start(), (g[0], i) + tuple(g[2:])))
    # reference parameters are dereferenced by the first field access, with no NULL test possible
    for i, (pn, ty) in enumerate(ps[:len(names)]):
        if ty.startswith("&"):
            events.append((-1, ("GMem", i)))
    events.sort(key=lambda e: e[0])
    guards = [g for _, g in events]
    # parameter kinds (from the signature; optional-ness from how NULL is treated)
    kinds = []
    gset = {(g[0], g[1]) for g in guards}
    for i, (pn, ty) in enumerate(ps):
        ht = handle_type(ty)
        if ht is not None:
            kinds.append(("PHandle", ht))
        elif i >= len(names) or re.match(r"^\*(?:mut|const)\s+c_char$", ty):
            kinds.append(("PStrOpt",) if i in opt or ("GCstr", i) not in gset else ("PStr",))
        elif re.match(r"^\*const\s+\*const\s+c_char$", ty):
            kinds.append(("PStrOpt",) if i in opt else ("PMem",))
        elif ("GBytes", i) in gset:
            kinds.append(("PBytes",))
        elif ty.startswith("&"):
            kinds.append(("PMem",))
        elif ty.startswith("*"):
            derefd = any(g[1] == i for g in guards) or i in nullok_at
            if re.match(r"^\*(?:mut|const)\s+(c_void|StreamContext|\(\))$", ty) and not derefd:
                kinds.append(("PVal",))
            elif ("GPtr", i) in gset:
                kinds.append(("POut",))
            elif ("GMem", i) in gset or ("GOwn", i) in gset:
                kinds.append(("PMem",))
            elif ("GPtrSilent", i) in gset:
                kinds.append(("POut",))
            else:
                kinds.append(("POutOpt",))
        else:
            kinds.append(("PVal",))
    rk = "void" if not ret else "ptr" if ret.startswith("*") else "bool" if ret == "bool" else "int"
    return {"params": [(p[0], k, p[1]) for p, k in zip(ps, kinds)], "nreal": len(names), "guards": guards, "ret": rk}


def _g(g):
    return "(" + " ".join([g[0]] + [str(x) for x in g[1:]]) + ")"


def _k(k):
    return "(PHandle %d)" % k[1] if k[0] == "PHandle" else k[0]


def facts(ctx):
    got = pinned_items()
    want = json.load(open(PINNED_FILE))
    for k, v in want.items():
        if got.get(k) != v:
            ctx.tie_errors.append(f"srcfacts: {k} changed (model transcription pinned to {v}, source is {got.get(k)})")
    types, fns, free_fns, maxstr = translate()
    lines = ["(* generated from c2pa_c_ffi/src/{c_api.rs,c2pa_stream.rs,cimpl/macros.rs} on every run — do not edit *)",
             "From Coq Require Import NArith List String.", "From C2PA Require Import Model.Registry Model.FfiGuards.",
             "Import ListNotations.", "Open Scope string_scope.", "Open Scope N_scope.",
             f"Definition MAX_CSTRING_LEN : N := {maxstr}."]
    for n, i in sorted(types.items(), key=lambda kv: kv[1]):
        lines.append(f"Definition T_{n} : tid := {i}.")
    lines.append("Definition api_table : list (string * fspec) := [")
    rows = []
    for name in sorted(fns):
        f = fns[name]
        rows.append(f'  ("{name}", F [{"; ".join(_k(p[1]) for p in f["params"])}] [{"; ".join(_g(g) for g in f["guards"])}])')
    lines.append(";\n".join(rows))
    lines.append("].")
    lines.append("Definition free_fns : list string := [" + "; ".join(f'"{n}"' for n in sorted(free_fns)) + "].")
    lines.append("Definition api (name : string) (args : list N) (b : body) : call :=\n"
                 "  match find_fn name api_table with Some f => CApi (f_guards f) args b | None => CApi [] args b end.")
    common.write_if_changed(os.path.join(common.COQ, "Generated", "C31_facts.v"), "\n".join(lines) + "\n")
    ctx.facts = {"types": types, "fns": fns, "free_fns": free_fns, "maxstr": maxstr}
