"""C31 — the C API never crashes or double-frees on handle misuse."""
import hashlib, json, os, re
from .. import common
from ..common import TieBroken

PROP_FILE = "Properties/C31.v"
TRUSTED = ["bodies of the exported functions are opaque: the model takes 'failed / succeeded and tracked these addresses' from the run",
           "the allocator is an oracle (addresses observed in the run are replayed into the model); heap safety of the bodies is observed (glibc MALLOC_CHECK_, valgrind in thorough), not proved",
           "Mutex poisoning of the registry is not modelled (no panic occurs while the lock is held)",
           "hook c2pa_c_ffi/src/cimpl/utils.rs verif_registry_snapshot (read-only view of the registry)"]
ASSUMPTIONS = ["single-threaded call histories (the last-error slot is thread-local); 64-bit usize; glibc allocator",
               "C strings, byte buffers and user contexts handed to the API are valid when non-NULL (cstr_or_return reads them without any registry check)"]

FILES = ["c2pa_c_ffi/src/c_api.rs", "c2pa_c_ffi/src/c2pa_stream.rs"]
UTILS = "c2pa_c_ffi/src/cimpl/utils.rs"
MACROS = "c2pa_c_ffi/src/cimpl/macros.rs"

# sha256 of the whitespace-normalised text of the items the Coq model transcribes by hand
# (Model/Registry.v, Model/FfiGuards.v).  A change here means the transcription must be re-read.
PINNED_FILE = os.path.join(os.path.dirname(os.path.abspath(__file__)), "c31_pinned.json")

# ------------------------------------------------------------------ translator: source -> guard table


def _norm(s):
    s = re.sub(r"//[^\n]*", "", s)
    return re.sub(r"\s+", " ", s).strip()


def _cfg_test_stripped(t):
    """drop `#[cfg(test)] { .. }` blocks inside functions (cimpl_free prints diagnostics in test builds)"""
    out, i = [], 0
    for m in re.finditer(r"#\[cfg\(test\)\]\s*\{", t):
        if m.start() < i:
            continue
        depth, j = 0, m.end() - 1
        while j < len(t):
            if t[j] == "{":
                depth += 1
            elif t[j] == "}":
                depth -= 1
                if depth == 0:
                    break
            j += 1
        out.append(t[i:m.start()])
        i = j + 1
    out.append(t[i:])
    return "".join(out)


def pinned_items():
    u = common.strip_tests(common.src(UTILS))
    m = common.strip_tests(common.src(MACROS))
    items = {}
    for fn in ("track", "validate", "untrack", "free"):
        items[f"utils.rs fn {fn}"] = common.fn_body(u, r"fn\s+" + fn + r"\s*\(\s*&self", f"PointerRegistry::{fn}")
    items["utils.rs fn cimpl_free"] = _cfg_test_stripped(common.fn_body(u, r"pub\s+extern\s+\"C\"\s+fn\s+cimpl_free\s*\(", "cimpl_free"))
    items["utils.rs fn is_safe_buffer_size"] = common.fn_body(u, r"fn\s+is_safe_buffer_size\s*\(", "is_safe_buffer_size")
    items["utils.rs fn safe_slice_from_raw_parts"] = common.fn_body(u, r"fn\s+safe_slice_from_raw_parts\s*\(", "safe_slice_from_raw_parts")
    for mac in ("deref_or_return", "deref_mut_or_return", "untrack_or_return", "ptr_or_return", "cstr_or_return",
                "bytes_or_return", "ok_or_return", "box_tracked"):
        items[f"macros.rs {mac}"] = common.fn_body(m, r"macro_rules!\s+" + mac + r"\s*\{", f"macro {mac}")
    return {k: hashlib.sha256(_norm(v).encode()).hexdigest()[:16] for k, v in items.items()}


def _split_top(s):
    parts, depth, cur = [], 0, ""
    for ch in s:
        if ch in "(<[":
            depth += 1
        elif ch in ")>]":
            depth -= 1
        if ch == "," and depth == 0:
            parts.append(cur)
            cur = ""
        else:
            cur += ch
    if cur.strip():
        parts.append(cur)
    return [p.strip() for p in parts if p.strip()]


def _fns(text, pattern):
    """yield (name, params_text, ret_text, body) for every function whose header matches"""
    for m in re.finditer(pattern, text):
        name = m.group(1)
        i = m.end()        # just after '('
        depth, j = 1, i
        while depth:
            if text[j] == "(":
                depth += 1
            elif text[j] == ")":
                depth -= 1
            j += 1
        params = text[i:j - 1]
        k = text.find("{", j)
        ret = text[j:k].strip()
        ret = ret[2:].strip() if ret.startswith("->") else ""
        body = common.fn_body(text[m.start():], r"fn\s+" + name + r"\b", name)
        yield name, params, ret, body


G_DEREF = re.compile(r"\b(deref_mut_or_return|deref_or_return)(?:_null|_int|_zero|_false)?!\(\s*([\w.]+)\s*,\s*(\w+)")
G_UNTRACK = re.compile(r"\buntrack_or_return(?:_null|_int)?!\(\s*([\w.]+)\s*,\s*(\w+)")
G_CSTR = re.compile(r"\bcstr_or_return(?:_null|_int)?!\(\s*([\w.]+)\s*[,)]")
G_CSTROPT = re.compile(r"\bcstr_option!\(\s*([\w.]+)\s*\)")
G_CSTRARR = re.compile(r"\bcstr_array_or_return(?:_null|_int)?!\(\s*([\w.]+)\s*[,)]")
G_PTR = re.compile(r"\bptr_or_return(?:_null|_int)?!\(\s*([\w.]+)\s*[,)]")
G_BYTES = re.compile(r"\bbytes_or_return(?:_null|_int)?!\(\s*([\w.]+)\s*,\s*([\w.]+)\s*,")
G_NULLRET = re.compile(r"\bif\s+(\w+)\.is_null\(\)\s*\{\s*return\b\s*([^;}]*);\s*\}")
G_NULLOK = re.compile(r"\bif\s+!\s*(\w+)\.is_null\(\)\s*\{")
G_NULLOR = re.compile(r"\bif\s+[^{};]*\b(\w+)\.is_null\(\)[^{};]*\{")
G_ALIAS = re.compile(r"\blet\s+(?:mut\s+)?(\w+)\s*=\s*(\w+)\s+as\s+\*")
RAW = [re.compile(r"&mut\s*\(?\s*\*\s*\(?(\w+)\b"), re.compile(r"&\s*\(?\s*\*\s*\(?(\w+)\b"),
       re.compile(r"(?<![\w)\]])\*\s*(\w+)\s*=[^=]"), re.compile(r"(?<![\w)\]])\*\s*(\w+)\.add\("),
       re.compile(r"\(\s*\*\s*(\w+)\s*\)\s*\.")]
OWN = [re.compile(r"\bVec::from_raw_parts\(\s*(\w+)"), re.compile(r"\bBox::from_raw\(\s*(\w+)"), re.compile(r"\bCString::from_raw\(\s*(\w+)")]
FREE_BODY = re.compile(r"^\{\s*cimpl_free!?\(\s*(\w+)(?:\s+as\s+[^)]*)?\)\s*;?\s*\}$")


def translate():
    """returns (types, fns, free_fns, maxstr); fns: name -> dict(params=[(pname, kind, tname)], guards=[tuple], ret=kind)"""
    texts = {f: _cfg_test_stripped(common.strip_tests(common.src(f))) for f in FILES}
    utils = common.strip_tests(common.src(UTILS))
    macros = common.strip_tests(common.src(MACROS))
    maxstr = common.rust_int(common.fact(r"pub\s+const\s+MAX_CSTRING_LEN\s*:\s*usize\s*=\s*([^;]+);", macros, "MAX_CSTRING_LEN").group(1))
    # registry types: every T used by a deref/untrack guard, plus the two that utils.rs tracks itself
    tnames = set()
    for t in texts.values():
        tnames |= {m.group(3) for m in G_DEREF.finditer(t)} | {m.group(2) for m in G_UNTRACK.finditer(t)}
    if "TypeId::of::<CString>()" not in utils or "TypeId::of::<Box<[u8]>>()" not in utils:
        raise TieBroken("srcfacts: to_c_string / to_c_bytes no longer track as CString / Box<[u8]>")
    tnames |= {"CString", "Bytes"}
    types = {n: i + 1 for i, n in enumerate(sorted(tnames))}
    fns, free_fns = {}, {}
    for fpath, text in texts.items():
        helpers = {}
        for name, params, ret, body in _fns(text, r"(?m)^unsafe\s+fn\s+(\w+)\s*\("):
            helpers[name] = _one(name, params, ret, body, types, {}, helper=True)
        for name, params, ret, body in _fns(text, r"pub\s+(?:unsafe\s+)?extern\s+\"C\"\s+fn\s+(\w+)\s*\("):
            m = FREE_BODY.match(_norm(body))
            if m:
                free_fns[name] = "int" if ret else "void"
                continue
            fns[name] = _one(name, params, ret, body, types, helpers)
    if len(fns) < 40 or len(free_fns) < 5:
        raise TieBroken(f"srcfacts: only {len(fns)} exported functions / {len(free_fns)} free functions recognised")
    return types, fns, free_fns, maxstr


def _one(name, params, ret, body, types, helpers, helper=False):
    ps = []
    for p in _split_top(params):
        pn, _, ty = p.partition(":")
        ps.append([pn.strip(), _norm(ty)])
    names = [p[0] for p in ps]
    idx = {n: i for i, n in enumerate(names)}
    body_n = body
    alias = {}
    for m in G_ALIAS.finditer(body_n):
        if m.group(2) in idx:
            alias[m.group(1)] = m.group(2)
    events = []   # (pos, guard tuple)

    def pidx(expr, where):
        e = alias.get(expr, expr)
        if e in idx:
            return idx[e]
        if "." in e and e.split(".")[0] in idx:         # field of a struct parameter: pseudo-parameter
            if e not in idx:
                idx[e] = len(ps)
                ps.append([e, "*const c_char (field)"])
            return idx[e]
        if helper:
            return None
        raise TieBroken(f"srcfacts: {name}: guard on `{expr}` ({where}) is not a parameter")

    checked_at = {}   # param index -> position of the first guard on it
    validated_params = set()
    for m in G_DEREF.finditer(body_n):
        i = pidx(m.group(2), "deref")
        if i is None:
            continue
        if m.group(3) not in types:
            raise TieBroken(f"srcfacts: {name}: unknown registry type {m.group(3)}")
        events.append((m.start(), ("GDeref", i, types[m.group(3)])))      # GDerefOpt when behind `if !p.is_null()`, below
        checked_at.setdefault(i, m.start())
        validated_params.add(i)
    untracked_params = set()
    for m in G_UNTRACK.finditer(body_n):
        i = pidx(m.group(1), "untrack")
        events.append((m.start(), ("GUntrack", i, types[m.group(2)])))
        checked_at.setdefault(i, m.start())
        untracked_params.add(i)
        validated_params.add(i)
    for m in G_CSTR.finditer(body_n):
        i = pidx(m.group(1), "cstr")
        if i is not None:
            events.append((m.start(), ("GCstr", i)))
            checked_at.setdefault(i, m.start())
    opt = set()
    for rx in (G_CSTROPT, G_CSTRARR):
        for m in rx.finditer(body_n):
            i = pidx(m.group(1), "optional string")
            if i is not None:
                opt.add(i)
    for m in G_PTR.finditer(body_n):
        i = pidx(m.group(1), "ptr")
        if i is not None:
            events.append((m.start(), ("GPtr", i)))
            checked_at.setdefault(i, m.start())
    for m in G_BYTES.finditer(body_n):
        i, l = pidx(m.group(1), "bytes"), pidx(m.group(2), "bytes len")
        events.append((m.start(), ("GBytes", i, l)))
        checked_at.setdefault(i, m.start())
    nullok_at = {}
    for m in G_NULLRET.finditer(body_n):
        e = alias.get(m.group(1), m.group(1))
        if e in idx:
            if m.group(2).strip():
                events.append((m.start(), ("GPtrSilent", idx[e])))
            nullok_at.setdefault(idx[e], m.start())
    for rx in (G_NULLOK, G_NULLOR):
        for m in rx.finditer(body_n):
            e = alias.get(m.group(1), m.group(1))
            if e in idx:
                nullok_at.setdefault(idx[e], m.start())

    opt_handles = set()
    for n_, (pos, g) in enumerate(events):
        if g[0] == "GDeref" and g[1] in nullok_at and nullok_at[g[1]] < pos and not any(
                g2[0] in ("GPtr", "GDeref", "GUntrack") and g2[1] == g[1] and p2 < pos for p2, g2 in events):
            events[n_] = (pos, ("GDerefOpt",) + g[1:])
            opt_handles.add(g[1])

    def is_ptr_ty(ty):
        return ty.startswith("*") or ty.startswith("&")

    def handle_type(ty):
        m = re.match(r"^\*(?:mut|const)\s+(\w+)$", ty)
        return types.get(m.group(1)) if m else None

    raw_seen = set()
    for kind, rxs in (("raw", RAW), ("own", OWN)):
        for rx in rxs:
            for m in rx.finditer(body_n):
                e = alias.get(m.group(1), m.group(1))
                if e not in idx or idx[e] >= len(names):
                    continue
                i = idx[e]
                ty = ps[i][1]
                if not ty.startswith("*"):
                    continue
                ht0 = handle_type(ty)
                if i in checked_at and checked_at[i] < m.start():
                    # a NULL test is not a validation of a registry-typed pointer; Box::from_raw needs an untrack
                    ok = (i in validated_params) if ht0 is not None else True
                    if kind == "own":
                        ok = i in untracked_params
                    if ok:
                        continue
                if (i, kind) in raw_seen:
                    continue
                raw_seen.add((i, kind))
                guarded_null = i in nullok_at and nullok_at[i] < m.start()
                ht = handle_type(ty)
                if kind == "own":
                    events.append((m.start(), ("GOwn", i)))
                elif ht is not None:
                    events.append((m.start(), ("GRawOpt" if guarded_null else "GRaw", i, ht)))
                elif not guarded_null:
                    events.append((m.start(), ("GMem", i)))
    # helpers called with a parameter passed through
    for hname, h in helpers.items():
        for m in re.finditer(r"\b" + hname + r"\(", body_n):
            depth, j = 1, m.end()
            while depth:
                if body_n[j] == "(":
                    depth += 1
                elif body_n[j] == ")":
                    depth -= 1
                j += 1
            args = _split_top(body_n[m.end():j - 1])
            for g in h["guards"]:
                if g[0] in ("GMem", "GRaw", "GRawOpt", "GOwn") and g[1] < len(args) and args[g[1]] in idx:
                    i = idx[args[g[1]]]
                    if i in checked_at and checked_at[i] < m.start():
                        continue
                    events.append((m.start(), (g[0], i) + tuple(g[2:])))
    # reference parameters are dereferenced by the first field access, with no NULL test possible
    for i, (pn, ty) in enumerate(ps[:len(names)]):
        if ty.startswith("&"):
            events.append((-1, ("GMem", i)))
    events.sort(key=lambda e: e[0])
    guards = [g for _, g in events]
    # parameter kinds (from the signature; optional-ness from how NULL is treated)
    kinds = []
    gset = {(g[0], g[1]) for g in guards}
    for i, (pn, ty) in enumerate(ps):
        ht = handle_type(ty)
        if ht is not None:
            kinds.append(("PHandleOpt" if i in opt_handles else "PHandle", ht))
        elif i >= len(names) or re.match(r"^\*(?:mut|const)\s+c_char$", ty):
            kinds.append(("PStrOpt",) if i in opt or ("GCstr", i) not in gset else ("PStr",))
        elif re.match(r"^\*const\s+\*const\s+c_char$", ty):
            kinds.append(("PStrOpt",) if i in opt else ("PMem",))
        elif ("GBytes", i) in gset:
            kinds.append(("PBytes",))
        elif ty.startswith("&"):
            kinds.append(("PMem",))
        elif ty.startswith("*"):
            derefd = any(g[1] == i for g in guards) or i in nullok_at
            if re.match(r"^\*(?:mut|const)\s+(c_void|StreamContext|\(\))$", ty) and not derefd:
                kinds.append(("PVal",))
            elif ("GPtr", i) in gset:
                kinds.append(("POut",))
            elif ("GMem", i) in gset or ("GOwn", i) in gset:
                kinds.append(("PMem",))
            elif ("GPtrSilent", i) in gset:
                kinds.append(("POut",))
            else:
                kinds.append(("POutOpt",))
        else:
            kinds.append(("PVal",))
    rk = "void" if not ret else "ptr" if ret.startswith("*") else "bool" if ret == "bool" else "int"
    return {"params": [(p[0], k, p[1]) for p, k in zip(ps, kinds)], "nreal": len(names), "guards": guards, "ret": rk}


def _g(g):
    return "(" + " ".join([g[0]] + [str(x) for x in g[1:]]) + ")"


def _k(k):
    return "(%s %d)" % k if k[0] in ("PHandle", "PHandleOpt") else k[0]


def facts(ctx):
    got = pinned_items()
    want = json.load(open(PINNED_FILE))
    for k, v in want.items():
        if got.get(k) != v:
            ctx.tie_errors.append(f"srcfacts: {k} changed (model transcription pinned to {v}, source is {got.get(k)})")
    types, fns, free_fns, maxstr = translate()
    lines = ["(* generated from c2pa_c_ffi/src/{c_api.rs,c2pa_stream.rs,cimpl/macros.rs} on every run — do not edit *)",
             "From Coq Require Import NArith List String.", "From C2PA Require Import Model.Registry Model.FfiGuards.",
             "Import ListNotations.", "Open Scope string_scope.", "Open Scope N_scope.",
             f"Definition MAX_CSTRING_LEN : N := {maxstr}."]
    for n, i in sorted(types.items(), key=lambda kv: kv[1]):
        lines.append(f"Definition T_{n} : tid := {i}.")
    for name in sorted(fns):            # one constant per function: the correspondence run refers to these directly
        lines.append(f'Definition g_{name} : list guard := [{"; ".join(_g(g) for g in fns[name]["guards"])}].')
    lines.append("Definition api_table : list (string * fspec) := [")
    rows = []
    for name in sorted(fns):
        f = fns[name]
        rows.append(f'  ("{name}", F [{"; ".join(_k(p[1]) for p in f["params"])}] g_{name})')
    lines.append(";\n".join(rows))
    lines.append("].")
    lines.append("Definition free_fns : list string := [" + "; ".join(f'"{n}"' for n in sorted(free_fns)) + "].")
    lines.append("Definition api (name : string) (args : list N) (b : body) : call :=\n"
                 "  match find_fn name api_table with Some f => CApi (f_guards f) args b | None => CApi [] args b end.")
    common.write_if_changed(os.path.join(common.COQ, "Generated", "C31_facts.v"), "\n".join(lines) + "\n")
    ctx.facts = {"types": types, "fns": fns, "free_fns": free_fns, "maxstr": maxstr}


# ------------------------------------------------------------------ what the property text says (independent of the model)

HANDLE_RE = re.compile(r"^\*(?:mut|const)\s+(\w+)$")
# pointer parameters that must not be NULL, by declared type (user contexts and callbacks are pass-through values)
REQUIRED_PTR = re.compile(r"^(\*(?:mut|const)\s+(c_char|c_uchar|u8|usize|C2paHashType|C2paSignerInfo|\*const c_uchar)|&\s*\w+|\*const c_char \(field\))$")
# documented as optional in the doc comments of c_api.rs ("or NULL", "may be NULL", "can be NULL")
OPTIONAL = {("c2pa_signer_create", "tsa_url"), ("c2pa_signer_from_info", "signer_info.ta_url"),
            ("c2pa_builder_sign_data_hashed_embeddable", "asset"), ("c2pa_builder_placeholder", "manifest_bytes_ptr"),
            ("c2pa_builder_set_data_hash_exclusions", "exclusions_ptr"),
            ("c2pa_identity_signer_create", "referenced_assertions"), ("c2pa_identity_signer_create", "roles")}
CLS = {"NullParameter": "CNull", "WrongPointerType": "CWrongType", "UntrackedPointer": "CUntracked",
       "StringTooLong": "CStringTooLong", "InvalidBufferSize": "CBufSize"}
UNGUARDED = ("GRaw", "GRawOpt", "GMem", "GOwn")
# parameters still dereferenced without a registry check (the others were repaired by fix commit 8b6120a89)
KNOWN_SUSPECTS = {
    "F-FFI-STRARRAY": [["c2pa_free_string_array", "ptr"]],
}


def err_class(t):
    """class of the error the implementation reported for this op, or None"""
    m = t["msg"]
    if m.startswith("Other: "):
        m = m[7:]
    return CLS.get(m.split(":")[0].strip(), "CBody")


def impl_outcome(t):
    rk, ret, err = t["rk"], t["ret"], t["err"]
    if rk == "int":
        if ret is not None and ret < 0:
            return ("err", err_class(t) if err else "CSilent")
        return ("ok",)
    if rk == "ptr":
        return ("err", err_class(t)) if (ret == 0 and err) else ("ok",)
    if rk == "bool":
        return ("err", err_class(t)) if (ret is False and err) else ("ok",)
    return ("err", err_class(t)) if err else ("ok",)


def indicator_is_error(t):
    rk, ret = t["rk"], t["ret"]
    return {"int": lambda: ret < 0, "ptr": lambda: ret == 0, "bool": lambda: ret is False, "void": lambda: True}[rk]()


ALL_KNOWN = [tuple(x) for v in KNOWN_SUSPECTS.values() for x in v]


def known_raw(facts, fname):
    """indices of the parameters of fname that are on the known-unguarded list (the generator keeps those valid;
    a parameter that loses its guard later is NOT on this list and gets the full range of bad arguments)"""
    f = facts["fns"].get(fname)
    return {i for i, p in enumerate(f["params"]) if (fname, p[0]) in ALL_KNOWN} if f else set()


def suspects(case, facts):
    """ops that hand a non-live value to a parameter known to be dereferenced without a check"""
    out = []
    for op in case["ops"]:
        f = facts["fns"].get(op["f"])
        if not f:
            continue
        for i in sorted(known_raw(facts, op["f"])):
            g = ("GOwn" if f["params"][i][0] == "ptr" else "GRawOpt" if (op["f"], f["params"][i][0]) in OPTIONAL else "GRaw", i)
            if g[1] < len(op["a"]):
                a = op["a"][g[1]]
                live = ("op" in a and not a.get("off") and not a.get("stale")) or a.get("out") is True or (a.get("info") is not None and "info" in a)
                if g[0] == "GOwn" or not live:
                    if g[0] == "GRawOpt" and "null" in a:
                        continue
                    out.append([op["f"], f["params"][g[1]][0]])
    return out


# parameters the API documentation declares consumed ("is consumed by this call", "the pointer is INVALID after")
CONSUMES = {"c2pa_context_builder_set_signer": ["signer_ptr"], "c2pa_context_builder_set_http_resolver": ["resolver_ptr"],
            "c2pa_context_builder_build": ["builder"], "c2pa_reader_with_stream": ["reader"],
            "c2pa_reader_with_manifest_data_and_stream": ["reader"], "c2pa_reader_with_fragment": ["reader"],
            "c2pa_builder_with_definition": ["builder"], "c2pa_builder_with_archive": ["builder"],
            "c2pa_identity_signer_create": ["c2pa_signer_ptr", "identity_signer_ptr"]}


def oracle_case(ctx, case, res, facts, stats, seen):
    """The property, evaluated on what the implementation returned.  Liveness is derived from the history alone:
    a handle is live from the call that returned it until a free of it succeeds or a call documented as consuming
    it is made with valid arguments.  (When a consuming call is made with another argument invalid, the
    documentation does not say whether the handle was consumed: it is `unsure` until it is returned again.)"""
    mi0 = {"suspects": suspects(case, facts), "nops": len(case["ops"])}
    if res is None:
        return
    if res["r"] in ("crash", "panic"):
        mi = dict(mi0, crash=True)
        ctx.report_violation(case, f"the call sequence did not return ({res['r']}): {res.get('msg', '')[:200]}", mi)
        stats["crashes"] += 1
        return
    live = {a: t for a, t in res["start"]}
    unsure, released = set(), set()
    if live:
        ctx.report_violation(case, f"registry not empty before the sequence: {len(live)} entries", dict(mi0, leak=True))
    for k, t in enumerate(res["trace"]):
        f = t["f"]
        reg = {a: ty for a, ty in t["reg"]}
        args = [v for _, v in t["args"]]
        stats["ops"] += 1
        stats["fn"][f] = stats["fn"].get(f, 0) + 1

        def viol(why, **kw):
            ctx.report_violation(case, f"op {k} {f}: {why}", dict(mi0, f=f, step=k, **kw))
        if f in facts["free_fns"] or f == "cimpl_free":
            a = args[0]
            if a == 0:
                stats["kinds"]["free NULL (unspecified)"] += 1
            elif a in unsure:
                stats["kinds"]["free unsure (unspecified)"] += 1
                unsure.discard(a)
                released.add(a)
            elif a in live:
                stats["kinds"]["free live"] += 1
                if t["rk"] == "int" and t["ret"] != 0:
                    viol(f"free of a live handle ({live[a]}) returned {t['ret']}", param="ptr", kind="live")
                elif t["err"]:
                    viol(f"free of a live handle set an error: {t['msg']}", param="ptr", kind="live")
                del live[a]
                released.add(a)
            else:
                kind = "freed" if a in released else "foreign"
                stats["kinds"][f"free {kind}"] += 1
                if t["rk"] == "int" and t["ret"] != -1:
                    viol(f"free of a pointer that is not a live handle ({kind}) returned {t['ret']}, not -1", param="ptr", kind=kind)
                elif not t["err"] or not t["msg"]:
                    viol(f"free of a pointer that is not a live handle ({kind}) left no error message", param="ptr", kind=kind)
        elif f in facts["fns"]:
            spec = facts["fns"][f]
            bad, skip, hvals = [], False, []
            for i, (pname, _, ty) in enumerate(spec["params"]):
                if i >= len(args):
                    break
                v = args[i]
                m = HANDLE_RE.match(ty)
                T = m.group(1) if m and m.group(1) in facts["types"] else None
                if v == 0 and (f, pname) in OPTIONAL:
                    continue
                if T:
                    if v in unsure:
                        skip = True
                        continue
                    kind = None if live.get(v) == T else "null" if v == 0 else "wrong type" if v in live \
                        else "freed" if v in released else "foreign"
                    if kind is None and v in hvals and pname in CONSUMES.get(f, []):
                        kind = "freed"        # the same handle passed for two consumed parameters: gone after the first
                    hvals.append(v)
                    stats["kinds"]["arg " + (kind or "valid")] += 1
                    if kind:
                        bad.append((pname, kind))
                        stats["triples"].add((f, pname, kind))
                elif REQUIRED_PTR.match(ty) and v == 0:
                    stats["kinds"]["arg null (non-handle pointer)"] += 1
                    bad.append((pname, "null"))
                    stats["triples"].add((f, pname, "null"))
            if bad and not skip:
                pname, kind = bad[0]
                if not indicator_is_error(t):
                    viol(f"{kind} passed for `{pname}` but the call returned {t['ret']} (no error indicator)", param=pname, kind=kind)
                elif not t["err"] or not t["msg"]:
                    viol(f"{kind} passed for `{pname}`: error value returned but no error message is retrievable", param=pname, kind=kind)
                stats["rejected"] += 1
            for pname in CONSUMES.get(f, []):
                i = [p[0] for p in spec["params"]].index(pname)
                v = args[i] if i < len(args) else 0
                if v in live and live[v] == HANDLE_RE.match(spec["params"][i][2]).group(1):
                    del live[v]
                    if bad or skip:
                        unsure.add(v)
                    else:
                        released.add(v)
            for a, ty in t["outs"]:
                if ty == "untracked":
                    viol("returned a pointer that the registry does not track (c2pa_free cannot release it)", param="return", kind="untracked")
                    continue
                if a in released:
                    stats["reissued"] += 1
                if a in live:
                    viol(f"returned address {ty} is that of a handle that is still live", param="return", kind="alias")
                live[a] = ty
                unsure.discard(a)
                released.discard(a)
        # the registry is the implementation's own record of liveness: it must agree with the history
        for a, ty in live.items():
            if reg.get(a) != ty:
                viol(f"a live {ty} handle is no longer registered", param="registry", kind="lost")
                break
        else:
            for a in reg:
                if a not in live and a not in unsure:
                    viol(f"the registry still holds a {reg[a]} handle that was released or never returned", param="registry", kind="stale")
                    break
    if case.get("free_all", True) and res["end"] != 0:
        ctx.report_violation(case, f"{res['end']} handles still tracked after one c2pa_free per live handle", dict(mi0, leak=True))


# ------------------------------------------------------------------ correspondence with the Coq model

def model_expr(res, facts):
    ren = {0: 0}

    def r(a):
        if a not in ren:
            ren[a] = len(ren) + 10
        return ren[a]
    T = facts["types"]
    calls = []
    if res["start"]:
        calls.append("CApi [] [] (BOk [" + "; ".join(f"({r(a)}, {T.get(t, 0)})" for a, t in res["start"]) + "])")
    for t in res["trace"]:
        args = [r(v) if k == "p" else v for k, v in t["args"]]
        if t["f"] in facts["free_fns"] or t["f"] == "cimpl_free":
            calls.append(f"CFree {args[0]}")
            continue
        if impl_outcome(t)[0] == "ok":
            body = "(BOk [" + "; ".join(f"({r(a)}, {T.get(ty, 0)})" for a, ty in t["outs"] if ty != "untracked") + "])"
        else:
            body = "BErr"
        calls.append(f'CApi g_{t["f"]} [' + "; ".join(str(x) for x in args) + f"] {body}")
    return "run_obs MAX_CSTRING_LEN init [" + ";\n ".join(calls) + "]", ren, (1 if res["start"] else 0)


def compare(ctx, case, res, mo, ren, skip, facts, stats):
    T = facts["types"]
    mo = mo[skip:] if isinstance(mo, list) else []
    if len(mo) != len(res["trace"]):
        ctx.disagreements.append({"case": case, "impl": f"{len(res['trace'])} steps", "model": f"{len(mo)} steps"})
        return
    for k, (t, m) in enumerate(zip(res["trace"], mo)):
        mout, mev, mreg = m
        if mout == "OUB":
            stats["model_ub"] += 1
            return        # unvalidated dereference: the model claims nothing from here on
        mo_c = ("ok",) if mout == "OOk" else ("err", mout[1])
        io_c = impl_outcome(t)
        ireg = sorted((ren[a], T.get(ty, 0)) for a, ty in t["reg"])
        mreg = sorted((a, ty) for a, ty in (mreg or []))
        if mo_c != io_c or ireg != mreg:
            ctx.disagreements.append({"case": case, "step": k, "f": t["f"], "impl": [io_c, ireg], "model": [mo_c, mreg], "msg": t["msg"]})
            return
        stats["released_events"] += len(mev or [])


# ------------------------------------------------------------------ generation

def _fx(p):
    return open(os.path.join(common.REPO, "sdk/tests/fixtures/certs", p)).read()


STR = {
    "format": ["image/jpeg", "image/jpeg", "jpg", "application/x-unknown"], "manifest_json": ["{}", '{"title":"t"}', "not json"],
    "settings_str": ['{"verify":{"verify_after_sign":false}}', "{"], "path": ["verify.verify_after_sign", "no.such.key"],
    "value": ["true", "false", "nope"], "uri": ["thumb.jpg", "self#jumbf=x"], "remote_url": ["http://example.com/m.c2pa"],
    "base_path": ["/tmp"], "action_json": ['{"action":"c2pa.edited"}', "["], "ingredient_json": ['{"title":"i"}'],
    "ingredient_id": ["x"], "error_str": ["Other: from the caller", "plain"], "tsa_url": [None, "http://tsa.invalid/"],
    "data_hash": ['{"exclusions":[{"start":10,"length":20}],"name":"jumbf manifest","alg":"sha256","hash":"gWZNEOMHQNiULfA/tO5HD2awOwYDA3tnfUPApIr9csk=","pad":" "}'],
}
MAKES = {"C2paSettings": ["c2pa_settings_new"], "C2paContextBuilder": ["c2pa_context_builder_new"],
         "C2paContext": ["c2pa_context_new", "c2pa_context_builder_build"], "C2paReader": ["c2pa_reader_new", "c2pa_reader_from_context"],
         "C2paBuilder": ["c2pa_builder_from_json", "c2pa_builder_from_context"], "C2paSigner": ["c2pa_signer_from_info", "c2pa_signer_create"],
         "C2paHttpResolver": ["c2pa_http_resolver_create"], "C2paStream": ["c2pa_create_stream"],
         "CString": ["c2pa_version", "c2pa_error"], "Bytes": ["c2pa_ed25519_sign"]}
RETURNS = {"c2pa_version": "CString", "c2pa_error": "CString", "c2pa_settings_new": "C2paSettings", "c2pa_context_builder_new": "C2paContextBuilder",
           "c2pa_context_new": "C2paContext", "c2pa_context_builder_build": "C2paContext", "c2pa_reader_new": "C2paReader",
           "c2pa_reader_from_context": "C2paReader", "c2pa_reader_from_stream": "C2paReader", "c2pa_reader_with_stream": "C2paReader",
           "c2pa_reader_with_fragment": "C2paReader", "c2pa_reader_json": "CString", "c2pa_reader_detailed_json": "CString", "c2pa_reader_crjson": "CString",
           "c2pa_builder_from_json": "C2paBuilder", "c2pa_builder_from_context": "C2paBuilder", "c2pa_builder_from_archive": "C2paBuilder",
           "c2pa_builder_with_definition": "C2paBuilder", "c2pa_builder_with_archive": "C2paBuilder", "c2pa_signer_from_info": "C2paSigner",
           "c2pa_signer_create": "C2paSigner", "c2pa_identity_signer_create": "C2paSigner", "c2pa_http_resolver_create": "C2paHttpResolver",
           "c2pa_create_stream": "C2paStream", "c2pa_ed25519_sign": "Bytes"}
OUT_BYTES = {"c2pa_builder_sign", "c2pa_builder_sign_context", "c2pa_builder_data_hashed_placeholder", "c2pa_builder_placeholder",
             "c2pa_builder_sign_embeddable", "c2pa_builder_sign_data_hashed_embeddable", "c2pa_format_embeddable"}
SKIP = {"c2pa_load_settings", "c2pa_signer_from_settings", "c2pa_free_string_array", "c2pa_reader_from_manifest_data_and_stream",
        "c2pa_reader_with_manifest_data_and_stream", "c2pa_format_embeddable", "c2pa_builder_sign_context", "c2pa_builder_sign_embeddable",
        "c2pa_builder_placeholder"}
SLOW = {"c2pa_builder_sign": 0.08, "c2pa_reader_from_stream": 0.25, "c2pa_reader_with_stream": 0.3, "c2pa_builder_add_ingredient_from_stream": 0.2,
        "c2pa_builder_update_hash_from_stream": 0.3, "c2pa_builder_sign_data_hashed_embeddable": 0.3, "c2pa_reader_supported_mime_types": 0.15,
        "c2pa_builder_supported_mime_types": 0.15, "c2pa_reader_detailed_json": 0.5, "c2pa_reader_crjson": 0.5}
FREES = ["c2pa_free"] * 8 + ["c2pa_string_free", "c2pa_release_string", "c2pa_reader_free", "c2pa_builder_free", "c2pa_signer_free",
                              "c2pa_manifest_bytes_free", "c2pa_signature_free", "c2pa_release_stream"]
BAD_KINDS = ["null", "wrong", "freed", "foreign", "interior"]


class Gen:
    def __init__(self, rng, facts):
        self.rng, self.facts = rng, facts
        self.ops, self.objs = [], []
        self.certs, self.key = _fx("ed25519.pub"), _fx("ed25519.pem")

    # -- predicted objects
    def live(self, T=None, other=None):
        return [o for o in self.objs if o["st"] == "live" and (T is None or o["t"] == T) and (other is None or o["t"] != other)]

    def emit(self, f, a):
        self.ops.append({"f": f, "a": a})
        return len(self.ops) - 1

    def new_obj(self, i, T):
        o = {"ref": {"op": i, "j": 0}, "t": T, "st": "live"}
        self.objs.append(o)
        return o

    def make(self, T):
        f = self.rng.choice(MAKES[T])
        i = self.call(f, force_valid=True)
        return self.objs[-1] if self.objs and self.objs[-1]["ref"]["op"] == i else self.new_obj(i, T)

    def handle(self, T, kind):
        rng = self.rng
        if kind == "valid":
            c = self.live(T)
            return dict((rng.choice(c) if c and rng.random() < 0.8 else self.make(T))["ref"]), None
        if kind == "null":
            return {"null": True}, None
        if kind == "foreign":
            return {"foreign": rng.randrange(4)}, None
        if kind == "interior":
            c = self.live(T) or [self.make(T)]
            return dict(rng.choice(c)["ref"], off=8), None
        if kind == "wrong":
            c = self.live(other=T)
            o = rng.choice(c) if c else self.make("C2paSettings" if T != "C2paSettings" else "C2paContextBuilder")
            return dict(o["ref"]), None
        # freed: an address that was a handle and has been released (by free or by a consuming call)
        c = [o for o in self.objs if o["st"] != "live" and (o["t"] == T or rng.random() < 0.3)]
        if not c:
            o = self.make(T)
            self.emit("c2pa_free", [dict(o["ref"])])
            o["st"] = "freed"
            c = [o]
        return dict(rng.choice(c)["ref"], stale=1), None

    def string(self, f, pname, force_valid):
        rng = self.rng
        if not force_valid:
            x = rng.random()
            if x < 0.06 and pname != "tsa_url":
                return {"s": None}
            if x < 0.07:
                return {"slen": self.facts["maxstr"] + 1}
        if pname == "certs":
            return {"s": self.certs}
        if pname == "private_key":
            return {"s": self.key if force_valid or rng.random() < 0.8 else "not a key"}
        v = STR.get(pname, ["x"])
        return {"s": v[0] if force_valid else rng.choice(v)}

    def call(self, f, force_valid=False, bad=None):
        """emit one call of f; bad = (param index, kind) forces that parameter"""
        rng, spec = self.rng, self.facts["fns"][f]
        raw = known_raw(self.facts, f)
        args, kinds = [], []
        params = spec["params"][:spec["nreal"]]
        for i, (pname, pk, ty) in enumerate(params):
            m = HANDLE_RE.match(ty)
            T = m.group(1) if m and m.group(1) in self.facts["types"] else None
            if T:
                if bad and bad[0] == i:
                    kind = bad[1]
                elif force_valid or bad or i in raw:
                    kind = "null" if (i in raw and (f, pname) in OPTIONAL and rng.random() < 0.5) else "valid"
                else:
                    kind = rng.choices(["valid"] + BAD_KINDS, [66, 7, 9, 10, 4, 4])[0]
                a, _ = self.handle(T, kind)
                if kind == "valid" and (i in raw or any(a == x for x in args)):
                    # never alias two live &mut arguments; a parameter the source dereferences unchecked gets an
                    # object created immediately before the call, so that it is certainly live
                    a = dict(self.make(T)["ref"])
                args.append(a)
                kinds.append(kind)
            elif re.match(r"^\*(?:mut|const)\s+c_char$", ty):
                if bad and bad[0] == i:
                    args.append({"s": None} if bad[1] == "null" else {"slen": self.facts["maxstr"] + 1})
                else:
                    args.append(self.string(f, pname, force_valid or bool(bad)))
            elif pk[0] == "PBytes":
                if bad and bad[0] == i:
                    args.append({"bytes": None})
                else:
                    args.append({"bytes": "00010203"} if force_valid or bad or rng.random() < 0.9 else {"bytes": None})
            elif re.match(r"^\*mut\s+(\*const c_uchar|usize|C2paHashType)$", ty):
                if bad and bad[0] == i:
                    args.append({"out": False})
                else:
                    args.append({"out": True if (force_valid or bad or i in raw) else rng.random() < 0.9})
            elif ty.startswith("&") or "C2paSignerInfo" in ty:
                good = {"alg": "ed25519", "cert": "@cert", "key": "@key"}
                if bad and bad[0] == i:
                    args.append({"info": None})
                    continue
                if not (force_valid or bad) and rng.random() < 0.3:
                    good = rng.choice([{"alg": "BadAlg", "cert": "c", "key": "k"}, {"cert": "@cert", "key": "@key"}, {"alg": "ed25519", "key": "@key"}])
                args.append({"info": good})
            elif f == "c2pa_create_stream" and i == 0:
                args.append({"data": "jpeg" if force_valid else rng.choice(["jpeg", "jpeg", "empty", "junk"])})
            elif pname in ("len", "data_len", "manifest_size", "manifest_bytes_size"):
                args.append({"n": 4 if force_valid or bad or rng.random() < 0.85 else rng.choice([0, 1 << 63, (1 << 64) - 1])})
            elif pname == "alg":
                args.append({"n": 6})
            elif pname == "reserved_size":
                args.append({"n": 10000})
            elif ty.startswith("*"):
                args.append({"null": True} if rng.random() < 0.5 else {"foreign": 0})      # opaque user context: passed through
            else:
                args.append({"n": rng.randrange(3)})
        i = self.emit(f, args)
        all_valid = all(k == "valid" for k in kinds)
        # predicted effects (hints for later choices only; the harness resolves references to real addresses)
        if all_valid or not kinds:
            for g in spec["guards"]:
                if g[0] == "GUntrack":
                    for o in self.objs:
                        if o["ref"] == {k: v for k, v in args[g[1]].items() if k in ("op", "j")} and o["st"] == "live":
                            o["st"] = "consumed"
            if f in RETURNS:
                self.new_obj(i, RETURNS[f])
            elif f in OUT_BYTES and any(a.get("out") for a in args):
                self.new_obj(i, "Bytes")
        return i

    def free(self):
        rng = self.rng
        f = rng.choice(FREES)
        kind = rng.choices(["live", "freed", "foreign", "null", "interior"], [55, 27, 7, 4, 7])[0]
        live = self.live()
        dead = [o for o in self.objs if o["st"] != "live"]
        if kind == "live" and live:
            o = rng.choice(live)
            self.emit(f, [dict(o["ref"])])
            o["st"] = "freed"
        elif kind == "freed" and dead:
            self.emit(f, [dict(rng.choice(dead)["ref"], stale=1)])
        elif kind == "interior" and live:
            self.emit(f, [dict(rng.choice(live)["ref"], off=rng.choice([1, 8, 16]))])
        elif kind == "null":
            self.emit(f, [{"null": True}])
        else:
            self.emit(f, [{"foreign": rng.randrange(4)}])

    def sequence(self, n):
        rng = self.rng
        pool = [f for f in sorted(self.facts["fns"]) if f not in SKIP]
        while len(self.ops) < n:
            x = rng.random()
            if x < 0.30:
                self.free()
            elif x < 0.38:
                self.call("c2pa_error")
            else:
                f = rng.choice(pool)
                if rng.random() > SLOW.get(f, 1.0):
                    continue
                self.call(f)
        return {"ops": self.ops, "free_all": True}


def gen_random(rng, facts, n):
    return Gen(rng, facts).sequence(n)


def gen_systematic(rng, facts):
    """every (function, checked pointer parameter, bad kind), each as its own short sequence followed by a
    double-free probe of whatever the sequence created"""
    out = []
    for f in sorted(facts["fns"]):
        if f in SKIP:
            continue
        spec = facts["fns"][f]
        raw = known_raw(facts, f)
        for i, (pname, pk, ty) in enumerate(spec["params"][:spec["nreal"]]):
            if i in raw:
                continue
            m = HANDLE_RE.match(ty)
            if m and m.group(1) in facts["types"]:
                kinds = BAD_KINDS
            elif pk[0] in ("PStr", "PBytes", "POut"):
                kinds = ["null"] + (["toolong"] if pk[0] == "PStr" else [])
            else:
                continue
            for kind in kinds:
                if kind == "null" and (f, pname) in OPTIONAL:
                    continue
                g = Gen(rng, facts)
                g.call(f, bad=(i, kind))
                g.call("c2pa_error")
                for o in list(g.live())[:3]:          # free, then free again: the second must be an error
                    g.emit("c2pa_free", [dict(o["ref"])])
                    g.emit("c2pa_free", [dict(o["ref"], stale=1)])
                out.append({"ops": g.ops, "free_all": True, "sys": [f, pname, kind]})
    return out


def corpus():
    p = os.path.join(common.VERIF, "corpus", "C31.jsonl")
    if not os.path.exists(p):
        return []
    return [json.loads(l) for l in open(p) if l.strip()]


# ------------------------------------------------------------------ driver

IMPORTS = ("From Coq Require Import NArith List String.\nFrom C2PA Require Import Model.Registry Model.FfiGuards Generated.C31_facts.\n"
           "Import ListNotations.\nOpen Scope string_scope.\nOpen Scope N_scope.")
ENV = {"MALLOC_CHECK_": "3", "MALLOC_PERTURB_": "165"}


def evaluate(ctx, cases, with_model=True):
    facts = ctx.facts
    for c in cases:
        for op in c["ops"]:
            if op["f"] not in facts["fns"] and op["f"] not in facts["free_fns"] and op["f"] != "cimpl_free":
                raise TieBroken(f"exported function {op['f']} used by a case no longer exists in the source")
            if op["f"] in facts["fns"] and len(op["a"]) != facts["fns"][op["f"]]["nreal"] - (1 if op["f"] == "c2pa_free_string_array" and "arr" in op["a"][0] else 0):
                raise TieBroken(f"signature of {op['f']} changed: {facts['fns'][op['f']]['nreal']} parameters, case has {len(op['a'])}")
    normal = [c for c in cases if not suspects(c, facts)]
    iso = [c for c in cases if suspects(c, facts)]
    impl = common.run_harness("c31", normal, env=ENV)
    # a sequence that dies takes the rest of its shard with it, and the sequence that corrupted the heap may be an
    # earlier one of the same shard: re-run the dead and the unrun ones alone, so that each verdict is about one sequence
    redo = [c for c in normal if impl.get(c["id"], {"r": "crash"})["r"] in ("crash", "panic")]
    only_in_shard = []
    for c in redo[:300]:
        first = impl.get(c["id"])
        impl.update(common.run_harness("c31", [c], env=ENV))
        if first and first["r"] == "crash" and impl[c["id"]]["r"] == "ok":
            only_in_shard.append((c, first))
    for c in iso:                                   # a sequence that can take the process down runs alone
        impl.update(common.run_harness("c31", [c], env=ENV))
    stats = {"ops": 0, "crashes": 0, "rejected": 0, "reissued": 0, "reissued_same_call": 0, "model_ub": 0, "released_events": 0,
             "fn": {}, "kinds": {}, "triples": set(), "isolated_sequences": len(iso), "not_run": 0}

    class D(dict):
        def __missing__(self, k):
            return 0
    stats["kinds"] = D()
    done = []
    for c in cases:
        res = impl.get(c["id"])
        if res is None:
            stats["not_run"] += 1
            continue
        oracle_case(ctx, c, res, facts, stats, set())
        if res["r"] == "ok":
            done.append((c, res))
    if only_in_shard and not ctx.violations:
        c, first = only_in_shard[0]
        ctx.report_violation(c, "the harness process died at this sequence after running the preceding sequences of its shard "
                                f"(it completes when run alone): {first.get('msg', '')[:200]}", {"suspects": [], "crash": True, "shard_only": True})
    if with_model and done:
        exprs = [model_expr(res, facts) for _, res in done]
        mos = common.coq_eval("C31", IMPORTS, [e[0] for e in exprs], shard_size=max(8, min(60, len(exprs) // 16 + 1)))
        for (c, res), (_, ren, skip), mo in zip(done, exprs, mos):
            compare(ctx, c, res, mo, ren, skip, facts, stats)
    return stats


def valgrind_pass(ctx, cases, n=40, shards=8):
    """thorough tier: a sample of sequences under valgrind memcheck — invalid reads/writes/frees anywhere in the
    library and handles whose memory is never released (definite leaks) are errors (exit code 97)"""
    import shutil, subprocess
    if not shutil.which("valgrind"):
        ctx.assumptions.append("valgrind not installed: memcheck pass skipped")
        return
    ok = [c for c in cases if not suspects(c, ctx.facts) and not any("mime_types" in o["f"] for o in c["ops"])]
    sample = ctx.rng.sample(ok, min(n, len(ok)))
    cmd = ["valgrind", "-q", "--error-exitcode=97", "--leak-check=full", "--show-leak-kinds=definite", "--errors-for-leak-kinds=definite",
           common.HARNESS_BIN, "c31"]

    def launch(k, cs):
        path = os.path.join(common.CASES, f"c31_vg_{k}.jsonl")
        with open(path, "w") as f:
            for c in cs:
                f.write(json.dumps(c) + "\n")
        return subprocess.Popen(cmd + [path], stdout=subprocess.PIPE, stderr=subprocess.PIPE, text=True)
    procs = [(sample[k::shards], launch(k, sample[k::shards])) for k in range(shards) if sample[k::shards]]
    bad = []
    for cs, pr in procs:
        try:
            so, se = pr.communicate(timeout=2400)
        except subprocess.TimeoutExpired:
            pr.kill()
            continue
        if pr.returncode != 0:
            bad.append((cs, se))
    for cs, se in bad:
        for j, c in enumerate(cs):          # pinpoint: each sequence of a failing shard alone
            pr = launch(f"one_{j}", [c])
            so, se1 = pr.communicate(timeout=2400)
            if pr.returncode != 0:
                err = [l for l in se1.splitlines() if "==" in l and ("Invalid" in l or "lost" in l or "free" in l)][:2]
                ctx.report_violation(c, "valgrind memcheck: " + (" | ".join(err) or se1[-300:]), {"suspects": [], "valgrind": True, "crash": pr.returncode != 97})
                break
    ctx.coverage["valgrind_sequences"] = len(sample)


def build_cases(ctx, nrand, nlen, systematic=True):
    cases = corpus()
    if systematic:
        cases += gen_systematic(ctx.rng, ctx.facts)
    cases += [gen_random(ctx.rng, ctx.facts, ctx.rng.choice(nlen)) for _ in range(nrand)]
    for i, c in enumerate(cases):
        c["id"] = i
    return cases


def run(ctx):
    if not getattr(ctx, "facts", None):
        raise TieBroken("no guard table: the source could not be translated")
    if not getattr(ctx, "no_build", False):
        common.build_harness()
    if ctx.replay:
        cases = [ctx.replay["case"]] if "case" in ctx.replay else [d["case"] for d in ctx.replay.get("disagreements", [])]
        for i, c in enumerate(cases):
            c["id"] = i
    else:
        cases = build_cases(ctx, 70 if ctx.quick() else 1500, [12, 25, 40] if ctx.quick() else [10, 25, 40, 60, 90])
    stats = evaluate(ctx, cases)
    if not ctx.quick() and not ctx.replay:
        valgrind_pass(ctx, cases)
    triples = stats.pop("triples")
    stats["kinds"] = dict(stats["kinds"])
    stats["functions_called"] = len(stats["fn"])
    stats["fn"] = dict(sorted(stats["fn"].items(), key=lambda kv: -kv[1])[:12])
    ctx.coverage.update({
        "evaluations": stats["ops"], "distinct_nontrivial": len(triples),
        "rule": "corpus + one short sequence per (exported function, checked pointer parameter, bad kind in {NULL, wrong type, freed, "
                "foreign, interior pointer / NULL or over-long string / NULL buffer / NULL out-parameter}) each followed by free + second free, "
                "+ seeded random sequences (30% frees incl. stale/foreign/interior, 8% c2pa_error, rest API calls with 34% bad handle arguments); "
                "evaluations = API calls executed and compared; non-trivial = distinct (function, parameter, misuse kind) actually observed",
        "sequences": len(cases), "distribution": stats, "traces_validated_against_impl": len(cases) - stats["not_run"],
        "samples": [{"ops": [f"{o['f']}({json.dumps(o['a'])[:80]})" for o in c["ops"][:4]], "n_ops": len(c["ops"])} for c in cases[:2] + cases[-2:]],
    })


def search(ctx):
    """tie broken and nothing found yet: more and longer sequences, oracle only"""
    if not getattr(ctx, "facts", None):
        try:
            types, fns, free_fns, maxstr = translate()
            ctx.facts = {"types": types, "fns": fns, "free_fns": free_fns, "maxstr": maxstr}
        except TieBroken:
            return
    common.build_harness()
    cases = build_cases(ctx, 400, [20, 40, 80])
    stats = evaluate(ctx, cases, with_model=False)
    ctx.coverage["search_evaluations"] = stats["ops"]
