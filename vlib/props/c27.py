"""C27 — redirects never reach internal addresses or leak credentials."""
import ipaddress, json, os
from .. import common
from ..common import TieBroken
from . import httpres as H

PROP_FILE = "Properties/C27.v"
TRUSTED = ["std::net predicate semantics (is_private, is_loopback, ...) and IpAddr::from_str transcribed from the Rust standard "
           "library into Model/IpPreds.v / Model/IpClass.v (checked by correspondence on every block boundary +-1)",
           "url::Url::join + http::Uri parsing are observed through a hook (join table), not modelled",
           "http::HeaderName is canonical lower case; HeaderMap iteration order (observed)",
           "python ipaddress module + a WHATWG IPv4 number parser as the independent classifier"]
ASSUMPTIONS = ["the transport is a scripted mock under the real RedirectResolver (sync and async both run, must agree)",
               "DNS names that resolve to internal addresses are out of scope of this property (c2pa-rs issue 2430)"]

BLOCKS_V4 = ["0.0.0.0/8", "10.0.0.0/8", "100.64.0.0/10", "127.0.0.0/8", "169.254.0.0/16", "172.16.0.0/12", "192.0.2.0/24",
             "192.168.0.0/16", "198.51.100.0/24", "203.0.113.0/24", "224.0.0.0/4", "255.255.255.255/32", "240.0.0.0/4"]
V6_LITERALS = ["::", "::1", "::2", "ff00::", "ff02::1", "feff::1", "ffff:ffff:ffff:ffff:ffff:ffff:ffff:ffff", "fc00::", "fc00::1",
               "fbff:ffff::1", "fdff:ffff:ffff:ffff:ffff:ffff:ffff:ffff", "fe00::", "fe80::", "fe80::1", "fe7f:ffff::", "febf:ffff::1",
               "fec0::", "2001:db8::1", "2606:4700:4700::1111", "64:ff9b::7f00:1", "64:ff9b::127.0.0.1", "::ffff:0:0",
               "::fffe:7f00:1", "0:0:0:0:0:ffff:7f00:1", "::ffff:7f00:1", "::7f00:1", "::127.0.0.1", "1::", "0:0:0:0:0:0:0:1",
               "0:0:0:0:0:0:0:0", "FE80::1", "Fc00::A", "::FFFF:10.0.0.1", "::ffff:8.8.8.8", "::ffff:808:808", "::ffff:a9fe:a9fe",
               "::ffff:169.254.169.254", "::ffff:100.64.0.1", "::ffff:100.128.0.1", "2002:7f00:1::", "100::1"]
NAMES_GLOBAL = ["example.com", "cdn.example.net", "a.b.c.example.org", "xn--bcher-kva.example", "EXAMPLE.com", "example.com.",
                "localhost.example.com", "notlocalhost", "localhostx", "my-localhost", "localhost.."]
NAMES_LOCAL = ["localhost", "LOCALHOST", "LocalHost", "localhost.", "LOCALHOST.", "foo.localhost", "a.b.localhost", "Foo.LocalHost.",
               ".localhost", "x.localhost."]


def boundary_ints():
    out = set()
    for b in BLOCKS_V4:
        n = ipaddress.ip_network(b)
        lo, hi = int(n.network_address), int(n.broadcast_address)
        for v in (lo - 1, lo, lo + 1, hi - 1, hi, hi + 1):
            if 0 <= v < 2 ** 32:
                out.add(v)
    out.update(int(ipaddress.IPv4Address(x)) for x in ("8.8.8.8", "1.1.1.1", "169.254.169.254", "100.100.100.200", "192.0.0.1", "198.18.0.1"))
    return sorted(out)


BOUNDARY = boundary_ints()


def v4_notations(v, rng=None, every=False):
    a, b, c, d = (v >> 24) & 255, (v >> 16) & 255, (v >> 8) & 255, v & 255
    forms = [f"{a}.{b}.{c}.{d}",
             f"0{a:o}.0{b:o}.0{c:o}.0{d:o}",
             f"0x{a:x}.0x{b:x}.0x{c:x}.0x{d:x}",
             f"0X{a:X}.{b}.0{c:o}.{d}",
             str(v), f"0x{v:x}", f"0{v:o}",
             f"{a}.{(b << 16) | (c << 8) | d}",
             f"{a}.{b}.{(c << 8) | d}",
             f"{a}.0x{(b << 16) | (c << 8) | d:x}",
             f"{a:03d}.{b:03d}.{c:03d}.{d:03d}",
             f"{a}.{b}.{c}.{d}.",
             f"{a}.{b}.{c}.0x{d:x}",
             f"{a}.{b}.{c}.{d}..",
             f"{a}.{b}.{c}",
             f"{a}.{b}.{c}.{d}.1",
             f"{a}.{b}.{c}.{d + 256}"]
    if every:
        return forms
    return rng.choice(forms)


def pct(s, rng):
    return "".join(("%%%02X" % ord(ch)) if (ch.isalnum() and rng.random() < 0.5) else ch for ch in s)


def gen_host(rng, internal_bias=0.5):
    """a host token for a URL (not yet bracketed for IPv6)"""
    r = rng.random()
    if r < 0.45:
        v = rng.choice(BOUNDARY) if rng.random() < 0.85 else rng.randrange(2 ** 32)
        return v4_notations(v, rng) if rng.random() < 0.6 else str(ipaddress.IPv4Address(v))
    if r < 0.65:
        return "[" + rng.choice(V6_LITERALS) + "]"
    if r < 0.8:
        return rng.choice(NAMES_LOCAL)
    return rng.choice(NAMES_GLOBAL)


def gen_location(rng, benign):
    if benign:
        r = rng.random()
        host = rng.choice(["example.com", "cdn.example.net", "8.8.8.8", "[2606:4700:4700::1111]", "EXAMPLE.com", "93.184.216.34"])
        if r < 0.35:
            return rng.choice(["/next", "next", "../up", "?q=1", "/a/b/../c", "//" + host + "/p", "#frag", ""])
        return rng.choice(["http", "https", "HTTP"]) + "://" + host + rng.choice(["", ":8080", ":443"]) + rng.choice(["/", "/x?y=1", ""])
    host = gen_host(rng)
    r = rng.random()
    if r < 0.55:
        return rng.choice(["http", "https"]) + "://" + host + rng.choice(["", ":80", ":8080"]) + "/p"
    if r < 0.62:
        return "//" + host + "/p"
    if r < 0.69:
        return "http://user:pw@" + host + "/"
    if r < 0.74:
        return "http://" + host + "@example.com/"
    if r < 0.79:
        return "http://example.com@" + host + "/"
    if r < 0.83:
        return "http:\\\\" + host + "\\p"
    if r < 0.87:
        return rng.choice(["foo", "ftp", "ws", "gopher"]) + "://" + host + "/p"
    if r < 0.9:
        return "http://" + pct(host, rng) + "/"
    if r < 0.93:
        h = host
        k = rng.randrange(len(h) + 1)
        return "http://" + h[:k] + "\t" + h[k:] + "/"
    if r < 0.96:
        return rng.choice(["file:///etc/passwd", "data:text/plain,hi", "mailto:a@127.0.0.1", "javascript:alert(1)", "http://", "http:///x",
                           "http://[::1", "http://%EF%BC%91%EF%BC%92%EF%BC%97.0.0.1/", "http://127。0。0。1/", "http://①②⑦.0.0.1/"])
    return "http:/" + host + "/p"


HDR_NAMES = ["Authorization", "authorization", "AUTHORIZATION", "Cookie", "cookie", "Proxy-Authorization", "proxy-authorization", "Host",
             "host", "X-Api-Key", "Accept", "User-Agent", "X-Auth-Token", "authorization2", "cookie-x", "x-cookie", "Cookie2",
             "Content-Type", "proxy-authenticate", "www-authenticate"]


def gen_headers(rng):
    k = rng.choice([0, 1, 2, 3, 4, 6, 8])
    return [[rng.choice(HDR_NAMES), bytes(rng.choice(b"abcXYZ012 =;") for _ in range(rng.randrange(0, 9))).strip().hex()] for _ in range(k)]


def gen_chain(rng):
    L = rng.choice([0, 1, 1, 2, 2, 3, 4, 5, 8, 9, 10, 10, 11, 11, 12])
    script = []
    interesting_at = rng.randrange(L) if (L and rng.random() < 0.6) else -1
    for i in range(L):
        st = rng.choice([301, 302, 302, 303, 307, 308, 300, 304, 399])
        benign = not (i == interesting_at or rng.random() < 0.08)
        loc = gen_location(rng, benign)
        raw = loc.encode("utf-8")
        if any((x < 32 and x != 9) or x == 127 for x in raw):
            raw = b"/ctl"
        script.append([st, raw.hex()])
    r = rng.random()
    if r < 0.08:
        script.append("err")
    elif r < 0.2:
        script.append([rng.choice([300, 301, 304, 399]), None])
    elif r < 0.28:
        script.append([rng.choice([200, 299, 400, 404, 500]), b"http://127.0.0.1/".hex()])
    elif r < 0.34:
        script.append([302, "http://exé.com/".encode("latin-1").hex()])
    elif r < 0.8:
        script.append([rng.choice([200, 200, 204, 404, 500]), None])
    start = rng.choice(["http://example.com/start", "https://example.com:8443/a/b?c=d", "http://127.0.0.1:8080/local", "http://localhost/x",
                        "http://[::1]/", "https://cdn.example.net/", "http://10.0.0.5/", "http://user@example.com/"])
    allowed = None
    if rng.random() < 0.12:
        allowed = rng.sample(["example.com", "*.example.net", "127.0.0.1", "127.0.0.1:8080", "localhost", "http://", "8.8.8.8", "https://"], 3)
    return {"kind": "chain", "allowed": allowed, "allow_redirects": rng.random() > 0.15, "uri": start,
            "method": rng.choice(["GET", "GET", "POST", "HEAD"]), "headers": gen_headers(rng),
            "body": bytes(rng.randrange(256) for _ in range(rng.choice([0, 0, 3]))).hex(), "script": script}


def gen_hostcase(rng):
    host = gen_host(rng)
    if rng.random() < 0.15:
        host = rng.choice([".", "..", "0", "0x", "0x.", "1", "a", "1.a", "0xg", "00x1", "1.2.3.4.5", "256.1.1.1", "localhost.localhost",
                           "[::ffff:127.0.0.1].", "1e3", "0.0", "x.0x1", "0x1.x", "-1", "127.0.0.1x", "127.0.0.1%00", "[::1].",
                           "4294967296", "99999999999999999999", "[::ffff:7F00:1]", "[0000:0000:0000:0000:0000:ffff:7f00:0001]"])
    scheme = rng.choice(["http", "https", "foo", "HTTP"])
    return {"kind": "host", "uri": f"{scheme}://{rng.choice(['', '', 'u@', 'u:p@'])}{host}{rng.choice(['', ':80', ':8080'])}/x"}


def gen_ipstring(rng):
    r = rng.random()
    if r < 0.3:
        v = rng.choice(BOUNDARY) if rng.random() < 0.7 else rng.randrange(2 ** 32)
        return v4_notations(v, rng)
    if r < 0.5:
        return rng.choice(V6_LITERALS)
    # structured random IPv6-ish strings: mostly well-formed, then possibly one mutation
    hexd = "0123456789abcdefABCDEF"

    def grp():
        return "".join(rng.choice(hexd) for _ in range(rng.choice([1, 1, 2, 3, 4, 4]))) if rng.random() < 0.8 else rng.choice(["0", "ffff", "fe80", "fc00", "ff02"])
    v4tail = rng.random() < 0.25
    total = 6 if v4tail else 8
    if rng.random() < 0.6:
        keep = rng.randrange(0, total - 1)
        k = rng.randrange(keep + 1)
        s = ":".join(grp() for _ in range(k)) + "::" + ":".join(grp() for _ in range(keep - k))
        if v4tail:
            s += ("" if s.endswith(":") else ":") + str(ipaddress.IPv4Address(rng.choice(BOUNDARY)))
    else:
        s = ":".join(grp() for _ in range(total))
        if v4tail:
            s += ":" + str(ipaddress.IPv4Address(rng.choice(BOUNDARY)))
    if rng.random() < 0.2:
        s = rng.choice(["::ffff:", "0:0:0:0:0:ffff:", "::FFFF:", "::", "64:ff9b::", "::ffff:0:"]) + v4_notations(rng.choice(BOUNDARY), rng)
    if rng.random() < 0.3:
        k = rng.randrange(len(s) + 1)
        s = s[:k] + rng.choice(["g", ".", ":", "1.2.3.4", "0", "::", "12345", "%eth0", " ", ":1"]) + s[k + rng.choice([0, 0, 1]):]
    return s


def fixed_cases(quick, rng):
    """every block boundary +-1 as a bare host and as an IP string: canonical form always, every other notation in the
    thorough tier (three seeded ones per address in the quick tier); every IPv6 literal; every name"""
    out = []
    for v in BOUNDARY:
        fs = v4_notations(v, every=True)
        if quick:
            fs = fs[:1] + rng.sample(fs[1:], 3)
        for f in fs:
            out.append({"kind": "host", "uri": f"http://{f}/"})
            out.append({"kind": "ipparse", "s": f})
    for l in V6_LITERALS:
        out.append({"kind": "host", "uri": f"http://[{l}]/"})
        out.append({"kind": "ipparse", "s": l})
    for n in NAMES_GLOBAL + NAMES_LOCAL:
        out.append({"kind": "host", "uri": f"http://{n}/"})
    return out


def fixed_chains(quick):
    out = []
    hosts = []
    for v in BOUNDARY:
        fs = v4_notations(v, every=True)
        hosts += fs if not quick else fs[:1] + [fs[4 + v % 3]]
    hosts += ["[" + l + "]" for l in V6_LITERALS] + NAMES_GLOBAL + NAMES_LOCAL
    for h in hosts:
        out.append({"kind": "chain", "allowed": None, "allow_redirects": True, "uri": "http://example.com/s", "method": "GET",
                    "headers": [["Authorization", "61"], ["X-K", "62"]], "body": "",
                    "script": [[302, b"/hop1".hex()], [307, f"http://{h}/t".encode().hex()], [200, None]]})
    return out


def ctx_cases():
    return [dict(c, **{"async": a}) for a in (False, True) for c in _ctx_cases()]


def _ctx_cases():
    """the SDK's own default stack (Context::resolver(), real HTTP client) against a loopback server that redirects;
    also shows that the HTTP client itself does not follow redirects (the server must see exactly one request)"""
    locs = ["http://169.254.169.254/latest/meta-data/", "http://127.0.0.1:{port}/next", "/relative", "http://localhost:{port}/next",
            "http://[::1]:{port}/next", "http://[::ffff:127.0.0.1]:{port}/next", "http://2130706433:{port}/next", "http://0x7f.1:{port}/next",
            "http://10.0.0.1/", "http://192.168.1.1/", "http://100.64.0.1/", "http://[fe80::1]/", "http://[fd00::1]/"]
    return [{"kind": "ctx", "allowed": None, "allow_redirects": True, "location": l} for l in locs] + \
           [{"kind": "ctx", "allowed": None, "allow_redirects": False, "location": l} for l in ("http://127.0.0.1:{port}/next", "http://example.com/")]


def oracle_ctx(ctx, c, r, stats):
    if r["r"] == "no_loopback":
        stats["ctx_skipped"] = stats.get("ctx_skipped", 0) + 1
        return
    stats["ctx_runs"] = stats.get("ctx_runs", 0) + 1
    want = "RedirectTargetDisallowed" if c["allow_redirects"] else "RedirectDisallowed"
    if len(r["served"]) != 1:
        ctx.report_violation(c, f"default {'async' if c.get('async') else 'sync'} resolver stack: after the redirect to {c['location']!r} the local server saw {r['served']} "
                                "(the redirect to an internal address was followed, by the SDK or by the HTTP client itself)")
    elif not (r["r"] == "err" and r.get("kind") == want):
        ctx.report_violation(c, f"default {'async' if c.get('async') else 'sync'} resolver stack: redirect to {c['location']!r} ended with {r['r']}:{r.get('kind') or r.get('status')}, expected {want}")


def corpus():
    p = os.path.join(common.VERIF, "corpus", "C27.jsonl")
    if not os.path.exists(p):
        return []
    return [json.loads(l) for l in open(p) if l.strip()]


def facts(ctx):
    ctx.facts = H.gen_facts()


CRED = ("authorization", "cookie", "proxy-authorization", "host")


def oracle_chain(ctx, c, r, stats):
    """the property text on the recorded transport requests, independent of the model"""
    tr = r["trace"]
    if len(tr) > 11:
        ctx.report_violation(c, f"{len(tr) - 1} redirects were followed (limit 10)")
    if not c["allow_redirects"] and len(tr) > 1:
        ctx.report_violation(c, f"redirects are disabled but {len(tr) - 1} were followed")
    for i, q in enumerate(tr[1:], 1):
        why = H.host_must_block(q["host"])
        stats["hosts_seen"] += 1
        if why:
            ctx.report_violation(c, f"hop {i} was sent to {q['uri']!r} (host {q['host']!r}): {why}")
        if q["host"] is None:
            ctx.report_violation(c, f"hop {i} was sent to a URI without a host: {q['uri']!r}")
        bad = [n for n, _ in q["headers"] if n.lower() in CRED]
        if bad:
            ctx.report_violation(c, f"hop {i} to {q['uri']!r} carries {bad}")
    # a redirect that is neither followed nor reported: disabled redirects must be refused, not returned
    if not c["allow_redirects"] and r["r"] == "ok" and 300 <= r["status"] < 400 and tr:
        s = c["script"][len(tr) - 1] if len(tr) - 1 < len(c["script"]) else None
        if s and not isinstance(s, str) and s[1] is not None and all(32 <= b < 127 for b in bytes.fromhex(s[1])):
            ctx.report_violation(c, f"redirects are disabled but the {r['status']} redirect was returned as a success")


def evaluate(ctx, cases, with_model=True):
    impl = common.run_harness("c27", cases)
    stats = {"kinds": {}, "outcomes": {}, "chain_len": {}, "hosts_seen": 0, "host_blocked": 0, "host_global": 0,
             "ipparse_ok": 0, "ipparse_none": 0, "uri_err": 0, "oracle_must_block": 0}
    exprs, meta = [], []
    distinct = set()
    for c in cases:
        r = impl[c["id"]]
        k = c["kind"]
        stats["kinds"][k] = stats["kinds"].get(k, 0) + 1
        if r["r"] in ("panic", "crash"):
            ctx.report_violation(c, f"implementation panicked: {r.get('msg')}")
            continue
        if r["r"] in ("uri_err", "bad_case"):
            stats["uri_err"] += 1
            continue
        if k == "ctx":
            oracle_ctx(ctx, c, r, stats)
        elif k == "chain":
            key = r["r"] + ":" + str(r.get("kind") or r.get("status"))
            stats["outcomes"][key] = stats["outcomes"].get(key, 0) + 1
            n = len(r["trace"])
            stats["chain_len"][n] = stats["chain_len"].get(n, 0) + 1
            if not r.get("async_same", True):
                ctx.report_violation(c, "sync and async redirect resolvers behave differently on the same script")
            oracle_chain(ctx, c, r, stats)
            if c["script"]:
                distinct.add(json.dumps([c["script"], c["uri"], c["allow_redirects"], c["headers"]]))
            e, ids = H.chain_model_expr(c, r)
            exprs.append(e)
            meta.append((c, r, ids))
        elif k == "host":
            must = H.host_must_block(r["host"])
            if must:
                stats["oracle_must_block"] += 1
            stats["host_blocked" if r["non_global"] else "host_global"] += 1
            if must and not r["non_global"]:
                ctx.report_violation(c, f"host {r['host']!r} is accepted as a redirect target: {must}")
            distinct.add("h:" + str(r["host"]))
            exprs.append(f"host_is_non_global {H.copt(r['host'])}")
            meta.append((c, r, None))
        elif k == "ipparse":
            stats["ipparse_ok" if r["r"] == "ok" else "ipparse_none"] += 1
            if r["r"] == "ok":
                ip = ipaddress.IPv4Address(bytes(r["v4"])) if "v4" in r else ipaddress.IPv6Address(b"".join(g.to_bytes(2, "big") for g in r["v6"]))
                must = H.ip_must_block(ip)
                if must and not r["non_global"]:
                    ctx.report_violation(c, f"address {ip} is classified as global: {must}")
            distinct.add("i:" + c["s"])
            exprs.append(f"parse_ip_flat {H.cb(c['s'])}")
            meta.append((c, r, None))
    if with_model and exprs:
        model = common.coq_eval("C27", H.IMPORTS, exprs, shard_size=max(40, len(exprs) // 16 + 1))
        for (c, r, ids), mo in zip(meta, model):
            k = c["kind"]
            if k == "chain":
                a, b = H.chain_compare(c, r, mo, ids)
            elif k == "host":
                a, b = r["non_global"], (mo == "true")
            else:
                a = None if r["r"] != "ok" else (r.get("v4") or r.get("v6"), r["non_global"])
                b = None if mo == "None" else (H._lst(mo[1][0]), mo[1][1] == "true")
            if a != b:
                ctx.disagreements.append({"case": c, "impl": a, "model": b})
    return stats, len(distinct)


def run(ctx):
    if not getattr(ctx, "no_build", False):
        common.build_harness()
    if ctx.replay:
        cases = [ctx.replay["case"]] if "case" in ctx.replay else [d["case"] for d in ctx.replay.get("disagreements", [])]
    else:
        q = ctx.quick()
        cases = corpus() + ctx_cases() + fixed_cases(q, ctx.rng) + fixed_chains(q)
        cases += [gen_chain(ctx.rng) for _ in range(400 if q else 4000)]
        cases += [gen_hostcase(ctx.rng) for _ in range(500 if q else 3000)]
        cases += [{"kind": "ipparse", "s": gen_ipstring(ctx.rng)} for _ in range(500 if q else 4000)]
    for i, c in enumerate(cases):
        c["id"] = i
    stats, distinct = evaluate(ctx, cases)
    ctx.coverage.update({
        "evaluations": len(cases), "distinct_nontrivial": distinct,
        "rule": "corpus + every IPv4 block boundary +-1 in 17 notations (as bare host, as IP string, as redirect target) + IPv6/"
                "name tables + seeded redirect chains of length 0-12 (Location grammar: relative/absolute/userinfo/backslash/"
                "percent-encoded/tab/non-special schemes), header sets, host strings and IP-literal strings; "
                "non-trivial = chain with a script, host or IP string; distinct by content",
        "distribution": stats,
        "samples": [{k: (v if len(json.dumps(v)) < 300 else json.dumps(v)[:300] + "...") for k, v in c.items()}
                    for c in cases[:1] + cases[len(cases) // 2: len(cases) // 2 + 2] + cases[-1:]],
    })


def search(ctx):
    common.build_harness()
    cases = ctx_cases() + fixed_cases(False, ctx.rng) + fixed_chains(False)
    cases += [gen_chain(ctx.rng) for _ in range(8000)] + [gen_hostcase(ctx.rng) for _ in range(8000)]
    cases += [{"kind": "ipparse", "s": gen_ipstring(ctx.rng)} for _ in range(4000)]
    for i, c in enumerate(cases):
        c["id"] = i
    evaluate(ctx, cases, with_model=False)
    ctx.coverage["search_evaluations"] = len(cases)
