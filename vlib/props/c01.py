"""C01 — tamper evidence: signed asset content cannot change without detection."""
import hashlib, json, os, re, struct, zlib
from .. import common
from ..common import TieBroken, coq_bytes, coq_list

PROP_FILE = "Properties/C01.v"
TRUSTED = ["digest function abstract (H); the model run instantiates it with the identity and the check verifies "
           "sha256(signed bytes) = signed hash for every entry, so model verdict = byte equality of the protected stream",
           "handler box maps are inputs of the box-hash model (taken from the implementation per mutated file; C12 owns them)",
           "BMFF hash not modelled in Coq: oracle + direct verifier only",
           "JSON report compared through a 64-bit FNV digest of Reader::json() minus validation time"]
ASSUMPTIONS = ["one digest algorithm per assertion (sha256 in the run)", "files < 2^64 bytes (model), < 1 MiB (run)",
               "formats exercised: JPEG, PNG, GIF, MP4 (BMFF); other writable formats only through the shared data-hash path"]

GOOD = ("Valid", "Trusted")
MAXBUF = 268435456


# ------------------------------------------------------------------ facts

def facts(ctx):
    bh = common.strip_tests(common.src("sdk/src/assertions/box_hash.rs"))
    body = common.fn_body(bh, r"fn\s+verify_stream_hash_with_progress\s*<", "BoxHash::verify_stream_hash_with_progress")
    for needle, what in [('"PNGh"', "PNGh skip"), ("source_index += 1", "source index walk"), ("skip_c2pa || exclude", "skip rule"),
                         ("next_source_bm.range_start - inclusion.start()", "span arithmetic"),
                         ("name == &next_source_bm.names[0]", "first-name comparison")]:
        if needle not in body:
            raise TieBroken(f"srcfacts: box walk changed ({what}): the model in Model/Bind.v is out of date")
    common.fact(r'pub const C2PA_BOXHASH: &str = "C2PA";', bh, "C2PA_BOXHASH")
    after_loop = body[body.rfind("for bm in &self.boxes"):]
    exhaustion = bool(re.search(r"source_index\s*(!=|==|<|>|<=|>=)\s*source_bms\.len\(\)|source_bms\.len\(\)\s*(!=|==|<|>|<=|>=)\s*source_index|stream_len|seek\(SeekFrom::End", after_loop))
    cl = common.strip_tests(common.src("sdk/src/claim.rs"))
    vb = common.fn_body(cl, r"fn\s+verify_hash_binding\s*\(", "Claim::verify_hash_binding")
    for needle, what in [("if svi.update_manifest_label.is_some() {", "re-basing only under an update manifest"),
                         ("r.start() == range.start()", "rebase position"), ("range.length().saturating_sub(exclusions[pos].length())", "rebase growth"),
                         ("exclusion.start() > start_offset", "rebase shift"), ("if start_offset > 0", "rebase guard")]:
        if needle not in vb:
            raise TieBroken(f"srcfacts: update-manifest re-basing changed ({what}): Model/Bind.v is out of date")
    dh = common.strip_tests(common.src("sdk/src/assertions/data_hash.rs"))
    vd = common.fn_body(dh, r"fn\s+verify_stream_hash_with_progress\s*<", "DataHash::verify_stream_hash_with_progress")
    if "hash_stream_by_alg_with_progress(&curr_alg, reader, exclusions, true, progress)" not in re.sub(r"\s+", " ", vd) or "vec_compare(&self.hash, &computed)" not in vd:
        raise TieBroken("srcfacts: DataHash verification changed: Model/Bind.v is out of date")
    st = common.src("sdk/src/store.rs")
    m = re.search(r"bh\.generate_box_hash_from_stream_with_progress\(\s*&mut intermediate_stream,\s*pc\.alg\(\),\s*box_hash_handler,\s*(true|false),", st)
    if not m:
        raise TieBroken("srcfacts: cannot find the box-hash generation call in Store")
    v = ("(* generated from sdk/src/assertions/box_hash.rs, claim.rs, store.rs on every run — do not edit *)\n"
         f"Definition boxhash_checks_exhaustion : bool := {'true' if exhaustion else 'false'}.\n"
         f"Definition store_signs_minimal_form : bool := {m.group(1)}.\n")
    common.write_if_changed(os.path.join(common.COQ, "Generated", "C01_facts.v"), v)
    ctx.facts = {"boxhash_checks_exhaustion": exhaustion, "minimal_form": m.group(1)}


# ------------------------------------------------------------------ tiny assets built here (layout known)

def _chunk(t, d):
    return struct.pack(">I", len(d)) + t + d + struct.pack(">I", zlib.crc32(t + d) & 0xffffffff)


def tiny_png():
    ihdr = struct.pack(">IIBBBBB", 2, 2, 8, 2, 0, 0, 0)
    raw = b"".join(b"\x00" + bytes([i * 20 + 1, i * 20 + 2, i * 20 + 3, i * 20 + 4, i * 20 + 5, i * 20 + 6]) for i in range(2))
    return (b"\x89PNG\r\n\x1a\n" + _chunk(b"IHDR", ihdr) + _chunk(b"tEXt", b"Comment\x00verif")
            + _chunk(b"IDAT", zlib.compress(raw)) + _chunk(b"IEND", b""))


def tiny_jpeg():
    def seg(m, d):
        return bytes([0xFF, m]) + struct.pack(">H", len(d) + 2) + d
    app0 = seg(0xE0, b"JFIF\x00\x01\x01\x00\x00\x01\x00\x01\x00\x00")
    dqt = seg(0xDB, bytes([0]) + bytes([16] * 64))
    sof = seg(0xC0, bytes([8]) + struct.pack(">HH", 8, 8) + bytes([1, 1, 0x11, 0]))
    dht = seg(0xC4, bytes([0x00]) + bytes([1] + [0] * 15) + bytes([0]))
    sos = seg(0xDA, bytes([1, 1, 0x00, 0, 63, 0]))
    return b"\xFF\xD8" + app0 + dqt + sof + dht + sos + bytes([0x2A, 0x15, 0x55, 0x00, 0x7F]) + b"\xFF\xD9"


def tiny_gif():
    return (b"GIF89a" + struct.pack("<HHBBB", 2, 2, 0x80, 0, 0) + bytes([0, 0, 0, 255, 255, 255])
            + b"\x21\xF9\x04\x00\x00\x00\x00\x00" + b"\x2C" + struct.pack("<HHHHB", 0, 0, 2, 2, 0)
            + bytes([2, 2, 0x4C, 0x01, 0]) + b"\x3B")


def asset_recipes(quick):
    tiny = [("pngtiny", "hex:" + tiny_png().hex(), "image/png"), ("jpgtiny", "hex:" + tiny_jpeg().hex(), "image/jpeg"),
            ("giftiny", "hex:" + tiny_gif().hex(), "image/gif")]
    big = [("jpg", "fixture:earth_apollo17.jpg", "image/jpeg"), ("png", "fixture:sample1.png", "image/png"),
           ("gif", "fixture:sample1.gif", "image/gif"), ("mp4", "fixture:video1.mp4", "video/mp4")]
    out = []
    for name, src, fmt in tiny + big:
        kinds = ["bmff"] if fmt == "video/mp4" else ["data", "box"] + (["update"] if name in ("jpgtiny", "png") else [])
        for b in kinds:
            out.append({"name": f"{name}-{b}", "src": src, "format": fmt, "binding": b, "tiny": name.endswith("tiny")})
    return out


# ------------------------------------------------------------------ mutations

def apply_mut(f, m):
    k, pos = m["k"], m.get("pos", 0)
    if k == "set":
        return f[:pos] + bytes([m["val"]]) + f[pos + 1:] if pos < len(f) else f
    if k == "flip":
        return f[:pos] + bytes([f[pos] ^ (1 << m["bit"])]) + f[pos + 1:] if pos < len(f) else f
    if k == "insert":
        p = min(pos, len(f))
        return f[:p] + bytes.fromhex(m["hex"]) + f[p:]
    if k == "delete":
        p = min(pos, len(f))
        return f[:p] + f[min(len(f), p + m["n"]):]
    if k == "splice":
        p = min(pos, len(f))
        return f[:p] + bytes.fromhex(m["hex"]) + f[min(len(f), p + m["n"]):]
    if k == "append":
        return f + bytes.fromhex(m["hex"])
    if k == "truncate":
        return f[:max(0, len(f) - m["n"])]
    if k == "none":
        return f
    raise ValueError(k)


def bmff_top(f):
    out, p = [], 0
    while p + 8 <= len(f):
        size, typ = struct.unpack(">I4s", f[p:p + 8])
        hdr = 8
        if size == 1 and p + 16 <= len(f):
            size = struct.unpack(">Q", f[p + 8:p + 16])[0]
            hdr = 16
        elif size == 0:
            size = len(f) - p
        if size < hdr or p + size > len(f):
            break
        out.append((typ.decode("latin1"), p, size, f[p + hdr:p + hdr + 16]))
        p += size
    return out


C2PA_UUID = bytes([216, 254, 195, 214, 27, 14, 72, 60, 146, 151, 88, 40, 135, 126, 196, 129])


class Asset:
    def __init__(self, recipe, prep):
        self.recipe = {k: recipe[k] for k in ("name", "src", "format", "binding")}
        self.tiny = recipe["tiny"]
        self.kind = recipe["binding"]
        self.f = bytes.fromhex(prep["hex"])
        self.base_jh = prep["read"]["jh"]
        self.base_state = prep["read"]["state"]
        self.binding = prep["binding"][0] if prep["binding"] else None
        self.map = prep.get("map") if isinstance(prep.get("map"), list) else None
        n = len(self.f)
        self.excluded = []          # [start, end) ranges the signed assertion declares excluded (in the signed file)
        if self.kind == "update":
            # the active (update) manifest carries no hard binding: the parent's data hash applies, re-based to the
            # recomputed manifest store range, which is the C2PA entry of the handler map
            self.excluded = [(e["start"], e["start"] + e["len"]) for e in (self.map or []) if e["names"] == ["C2PA"]]
            if len(self.excluded) != 1:
                raise TieBroken("update asset: cannot locate the manifest store range")
        elif self.kind == "data":
            self.excluded = [(s, s + l) for s, l in (self.binding.get("exclusions") or [])]
        elif self.kind == "box":
            sig = self.binding["boxes"]
            for e, b in zip(self.map, sig):
                if b["names"] == ["C2PA"] or b.get("excluded"):
                    self.excluded.append((e["start"], e["start"] + e["len"]))
        else:
            xs = set(x["xpath"].lstrip("/") for x in self.binding["exclusions"] if "/" not in x["xpath"].lstrip("/"))
            for typ, p, size, head in bmff_top(self.f):
                if typ in xs and (typ != "uuid" or head == C2PA_UUID):
                    self.excluded.append((p, p + size))
        if self.map:
            self.bounds = sorted(set([e["start"] for e in self.map] + [e["start"] + e["len"] for e in self.map] + [n]))
            self.last_box_end = max(e["start"] + e["len"] for e in self.map)
        else:
            tops = bmff_top(self.f)
            self.bounds = sorted(set([p for _, p, _, _ in tops] + [p + s for _, p, s, _ in tops] + [n]))
            self.last_box_end = n
        for s, e in self.excluded:
            self.bounds = sorted(set(self.bounds + [s, e]))

    def in_excluded(self, p):
        return any(s <= p < e for s, e in self.excluded)

    def protected_equal(self, g):
        """the property's 'protected media content is byte-identical to what was signed' for the mutated file g"""
        f = self.f
        if self.kind == "data":
            if len(g) != len(f):
                return False
            prev = 0
            for s, e in sorted(self.excluded):
                if g[prev:s] != f[prev:s]:
                    return False
                prev = max(prev, e)
            return g[prev:] == f[prev:]
        # box / bmff / update manifest (exclusion re-based on the store found in the asset): the excluded region may
        # change, also in size; everything else must be identical and in order
        if g == f:
            return True
        for s, e in self.excluded:
            tail = len(f) - e
            if len(g) >= s + tail and g[:s] == f[:s] and (g[len(g) - tail:] == f[e:] if tail else True):
                return True
        return False


def _ins(pos, b, tag):
    return {"k": "insert", "pos": pos, "hex": bytes(b).hex(), "tag": tag}


def _spl(pos, n, b, tag):
    return {"k": "splice", "pos": pos, "n": n, "hex": bytes(b).hex(), "tag": tag}


def adjacent_mutations(a):
    """well-formed container structures inserted directly before / after the manifest region, duplicated manifest
    segments, and a grown / shrunk manifest region (container lengths and checksums kept consistent)"""
    f, fmt, out = a.f, a.recipe["format"], []
    junk = b"bytes that were never signed" + bytes(range(16))
    if fmt == "video/mp4":
        reg = next(((p, p + sz) for typ, p, sz, head in bmff_top(f) if typ == "uuid" and head == C2PA_UUID), None)
    else:
        reg = next(((e["start"], e["start"] + e["len"]) for e in (a.map or []) if e["names"] == ["C2PA"]), None)
    if not reg:
        return out
    s0, e0 = reg
    if fmt == "image/jpeg":
        segs, p = [], s0                                  # APP11 segments of the store: marker, length, "JP", En, Z, LBox, TBox
        while p + 4 <= e0 and f[p] == 0xFF and f[p + 1] == 0xEB:
            l = struct.unpack(">H", f[p + 2:p + 4])[0]
            segs.append((p, p + 2 + l)); p += 2 + l
        if segs:
            fs, ls = segs[0], segs[-1]
            en, z = f[fs[0] + 6:fs[0] + 8], struct.unpack(">I", f[ls[0] + 8:ls[0] + 12])[0]
            box = f[fs[0] + 12:fs[0] + 20]

            def seg(en_, z_, body):
                pl = b"JP" + en_ + struct.pack(">I", z_) + box + body
                return b"\xff\xeb" + struct.pack(">H", len(pl) + 2) + pl
            out.append(_ins(e0, seg(en, z + 1, junk), "jpeg continuation segment after the store"))
            out.append(_ins(e0, seg(en, z + 1, junk) + seg(en, z + 2, junk), "two continuation segments after the store"))
            out.append(_ins(e0, seg(en, z + 2, junk), "continuation segment with a skipped sequence number"))
            out.append(_ins(s0, seg(en, 0, junk), "jpeg segment of the same box instance before the store"))
            other = struct.pack(">H", (struct.unpack(">H", en)[0] + 1) & 0xFFFF)
            fake = b"JP" + other + struct.pack(">I", 1) + struct.pack(">I4s", 8 + len(junk), b"free") + junk
            fakeseg = b"\xff\xeb" + struct.pack(">H", len(fake) + 2) + fake
            out.append(_ins(e0, fakeseg, "APP11 segment of another box instance after the store"))
            out.append(_ins(s0, fakeseg, "APP11 segment of another box instance before the store"))
            out.append(_ins(e0, f[ls[0]:ls[1]], "last store segment duplicated"))
            out.append(_ins(e0, b"\xff\xfe" + struct.pack(">H", len(junk) + 2) + junk, "COM segment after the store"))
            l = struct.unpack(">H", f[ls[0] + 2:ls[0] + 4])[0]
            if l + 8 < 65536:
                out.append(_spl(ls[0] + 2, ls[1] - ls[0] - 2, struct.pack(">H", l + 8) + f[ls[0] + 4:ls[1]] + junk[:8], "last store segment grown by 8 bytes"))
            out.append(_spl(ls[0] + 2, ls[1] - ls[0] - 2, struct.pack(">H", l - 1) + f[ls[0] + 4:ls[1] - 1], "last store segment shrunk by 1 byte"))
    elif fmt == "image/png":
        ln = struct.unpack(">I", f[s0:s0 + 4])[0]
        typ, data = f[s0 + 4:s0 + 8], f[s0 + 8:s0 + 8 + ln]
        out.append(_ins(e0, _chunk(typ, junk), "second manifest chunk after the store chunk"))
        out.append(_ins(s0, _chunk(typ, junk), "second manifest chunk before the store chunk"))
        out.append(_ins(e0, f[s0:e0], "store chunk duplicated"))
        out.append(_ins(e0, _chunk(b"tEXt", b"Comment\0" + junk), "tEXt chunk after the store chunk"))
        out.append(_ins(s0, _chunk(b"tEXt", b"Comment\0" + junk), "tEXt chunk before the store chunk"))
        out.append(_spl(s0, e0 - s0, _chunk(typ, data + junk[:8]), "store chunk grown by 8 bytes"))
        out.append(_spl(s0, e0 - s0, _chunk(typ, data[:-1]), "store chunk shrunk by 1 byte"))
    elif fmt == "image/gif":
        hdr = f[s0:s0 + 14]                                # 21 FF 0B + 11 bytes application identifier / auth code
        blk = hdr + bytes([len(junk)]) + junk + b"\0"
        out.append(_ins(e0, blk, "second manifest application extension after the store block"))
        out.append(_ins(s0, blk, "second manifest application extension before the store block"))
        out.append(_ins(e0, f[s0:e0], "store block duplicated"))
        out.append(_ins(e0, b"\x21\xfe" + bytes([len(junk)]) + junk + b"\0", "comment extension after the store block"))
        out.append(_ins(s0, b"\x21\xfe" + bytes([len(junk)]) + junk + b"\0", "comment extension before the store block"))
        if f[e0 - 1] == 0:
            out.append(_ins(e0 - 1, bytes([8]) + junk[:8], "store block grown by one 8-byte sub-block"))
    elif fmt == "video/mp4":
        free = struct.pack(">I4s", 8 + len(junk), b"free") + junk
        out.append(_ins(e0, free, "free box after the manifest box"))
        out.append(_ins(s0, free, "free box before the manifest box"))
        out.append(_ins(e0, f[s0:e0], "manifest box duplicated"))
        sz = struct.unpack(">I", f[s0:s0 + 4])[0]
        if sz == e0 - s0:
            out.append(_spl(s0, e0 - s0, struct.pack(">I", sz + 8) + f[s0 + 4:e0] + junk[:8], "manifest box grown by 8 bytes"))
    return out


def gen_mutations(a, rng, quick):
    f, n = a.f, len(a.f)
    muts = []

    def at(p):
        if 0 <= p < n:
            muts.append({"k": "flip", "pos": p, "bit": 0})
            muts.append({"k": "flip", "pos": p, "bit": 7})
            if f[p] != 0:
                muts.append({"k": "set", "pos": p, "val": 0})
    bounds = a.bounds
    nb = 12 if quick else 200
    if not a.tiny and len(bounds) > nb:
        keep = set(bounds[:4] + bounds[-3:] + [x for s, e in a.excluded for x in (s, e)])
        rest = [b for b in bounds if b not in keep]
        bounds = sorted(keep | set(rng.sample(rest, max(0, min(len(rest), nb - len(keep))))))
    if a.tiny and not quick:
        for p in range(n):
            at(p)
    else:
        for b in bounds:
            for d in (-2, -1, 0, 1, 2):
                at(b + d)
        for _ in range((60 if a.tiny else 25) if quick else 1000):
            at(rng.randrange(n))
    ib = bounds if len(bounds) <= 10 or not quick else sorted(rng.sample(bounds, 10))
    for b in ib:
        muts.append({"k": "insert", "pos": b, "hex": "00"})
        if b < n:
            muts.append({"k": "delete", "pos": b, "n": 1})
        if b >= 1:
            muts.append({"k": "insert", "pos": b, "hex": f[b - 1:b].hex()})       # duplicate the preceding byte
    for s, e in a.excluded:                      # length changes inside the excluded region
        mid = (s + e) // 2
        muts.append({"k": "insert", "pos": mid, "hex": "00"})
        muts.append({"k": "delete", "pos": mid, "n": 1})
    last = bytes(f[-12:])
    for hx in ("00", "00" * 25, last.hex()):
        muts.append({"k": "append", "hex": hx})
    if a.map:                                    # a copy of the last handler box, appended (a whole extra box)
        e = a.map[-1]
        muts.append({"k": "append", "hex": f[e["start"]:e["start"] + e["len"]].hex()[:4096]})
    for k in (1, 12, n - a.last_box_end if n > a.last_box_end else 3):
        muts.append({"k": "truncate", "n": k})
    muts.extend(adjacent_mutations(a))
    muts.append({"k": "none"})
    seen, out = set(), []
    for m in muts:
        key = json.dumps(m, sort_keys=True)
        if key not in seen:
            seen.add(key)
            out.append(m)
    return out


# ------------------------------------------------------------------ model (tiny assets)

NAME_IDS = {"PNGh": 1, "C2PA": 2}


def name_id(s):
    if s not in NAME_IDS:
        NAME_IDS[s] = len(NAME_IDS) + 1
    return NAME_IDS[s]


def coq_mut(m, f):
    k, pos = m["k"], m.get("pos", 0)
    if k in ("set", "flip"):
        v = m["val"] if k == "set" else f[pos] ^ (1 << m["bit"])
        return f"(m_set base {pos} {v})"
    if k == "insert":
        return f"(m_ins base {min(pos, len(f))} {coq_bytes(bytes.fromhex(m['hex']))})"
    if k == "delete":
        return f"(m_del base {min(pos, len(f))} {m['n']})"
    if k == "splice":
        p = min(pos, len(f))
        return f"(m_ins (m_del base {p} {min(m['n'], len(f) - p)}) {p} {coq_bytes(bytes.fromhex(m['hex']))})"
    if k == "append":
        return f"(base ++ {coq_bytes(bytes.fromhex(m['hex']))})"
    if k == "truncate":
        return f"(firstn {max(0, len(f) - m['n'])} base)"
    return "base"


PRELUDE = """From C2PA Require Import Base.Bytes Model.RangeHash Model.Bind.
From Coq Require Import NArith List.
Import ListNotations.
Open Scope N_scope.
Definition m_set (f : bytes) (p : nat) (v : N) : bytes := firstn p f ++ v :: skipn (S p) f.
Definition m_ins (f : bytes) (p : nat) (x : bytes) : bytes := firstn p f ++ x ++ skipn p f.
Definition m_del (f : bytes) (p n : nat) : bytes := firstn p f ++ skipn (p + n) f.
Definition hid (x : bytes) : bytes := x.
"""


def model_eval(ctx, a, cases, impl):
    """model verdict of the signed assertion's verifier on each mutated tiny file vs the direct verifier of the implementation"""
    f = a.f
    if ctx.quick():          # one bit pattern per position is enough for the model side in the quick tier
        seen, keep = set(), []
        for c in cases:
            k = (c["m"].get("pos"), c["m"]["k"] in ("set", "flip")) if c["m"]["k"] in ("set", "flip") else None
            if k is None or k not in seen:
                keep.append(c)
                if k is not None:
                    seen.add(k)
        cases = keep
    prelude = PRELUDE + f"Definition base : bytes := {coq_bytes(f)}.\n"
    exprs, idx = [], []
    if a.kind == "data":
        E = a.binding.get("exclusions") or []
        # tie the identity digest to the real one: the signed hash is sha256 of the bytes outside the exclusions
        cov = bytearray(len(f))
        for s, l in E:
            for p in range(s, min(len(f), s + l)):
                cov[p] = 1
        selb = bytes(b for p, b in enumerate(f) if not cov[p])
        if hashlib.sha256(selb).hexdigest() != a.binding["hash"]:
            raise TieBroken(f"{a.recipe['name']}: signed data hash is not sha256 of the bytes outside the signed exclusions")
        prelude += f"Definition sigE : list (N * N) := {coq_list([f'({s}, {l})' for s, l in E])}.\nDefinition sigh : bytes := {coq_bytes(selb)}.\n"
        for c in cases:
            exprs.append(f"verify_data hid {MAXBUF} true {coq_mut(c['m'], f)} sigE sigh")
            idx.append(c)
    else:
        sig = a.binding["boxes"]
        ents = []
        if len(sig) != len(a.map):
            raise TieBroken(f"{a.recipe['name']}: signed box list and handler map differ in length")
        for e, b in zip(a.map, sig):
            bs = f[e["start"]:e["start"] + e["len"]]
            if b["names"] != ["C2PA"] and hashlib.sha256(bs).hexdigest() != b["hash"]:
                raise TieBroken(f"{a.recipe['name']}: signed box hash of {b['names']} is not sha256 of the handler range")
            h = "[0]%N" if b["names"] == ["C2PA"] else coq_bytes(bs)
            ents.append(f"GB {coq_list([str(name_id(x)) for x in b['names']])}%N {h} {'true' if b.get('excluded') else 'false'}")
        prelude += f"Definition sigB : list sigbox := {coq_list(ents)}.\n"
        for c in cases:
            mp = impl[c["id"]].get("map")
            if not isinstance(mp, list):
                continue            # handler could not parse the mutated file: nothing to feed the walk with
            src = coq_list([f"SB {name_id(e['names'][0])} {e['start']} {e['len']}" for e in mp])
            exprs.append(f"verify_boxes hid {MAXBUF} true {coq_mut(c['m'], f)} sigB {src}")
            idx.append(c)
    res = common.coq_eval("C01_" + a.recipe["name"].replace("-", "_"), prelude, exprs, shard_size=60 if ctx.quick() else 200)
    n = 0
    for c, mo in zip(idx, res):
        d = impl[c["id"]].get("direct")
        if impl[c["id"]].get("r") in ("panic", "crash") or not d:
            continue
        iv = "VOk" if d[0] == "ok" else "reject"
        mv = "VOk" if mo == "VOk" else ("VPanic" if mo == "VPanic" else "reject")
        n += 1
        if iv != mv:
            ctx.disagreements.append({"case": c, "impl": d[0][:120], "model": mo})
    return n


# ------------------------------------------------------------------ run

def corpus():
    p = os.path.join(common.VERIF, "corpus", "C01.jsonl")
    return [json.loads(l) for l in open(p) if l.strip()] if os.path.exists(p) else []


def prepare(recipes, fresh=True):
    cases = [{"id": i, "op": "prepare", "fresh": fresh, "map": True, "bytes": True,
              "asset": {k: r[k] for k in ("name", "src", "format", "binding")}} for i, r in enumerate(recipes)]
    out = common.run_harness("c01", cases, jobs=len(cases))
    assets = []
    for i, r in enumerate(recipes):
        p = out[i]
        if p.get("r") != "ok":
            raise TieBroken(f"cannot sign {r['name']}: {json.dumps(p)[:300]}")
        if p["read"].get("state") not in GOOD or (p["direct"] != ["ok"] and not (r["binding"] == "update" and p["direct"] == [])):
            raise TieBroken(f"freshly signed {r['name']} does not validate: {json.dumps(p['read'])[:300]} direct={p['direct']}")
        assets.append(Asset(r, p))
    return assets


def oracle(ctx, a, c, r, stats):
    m = c["m"]
    g = apply_mut(a.f, m)
    beyond = (m["k"] == "append" or (m["k"] in ("insert",) and m["pos"] >= a.last_box_end)
              or (m["k"] in ("set", "flip", "delete") and m["pos"] >= a.last_box_end)
              or (m["k"] == "truncate" and len(a.f) - m["n"] >= a.last_box_end))
    between = bool(a.map) and m["k"] == "insert" and m["pos"] in {e["start"] for e in a.map}
    mi = {"binding": a.kind, "asset": a.recipe["name"], "m": m, "beyond_last_box": bool(beyond), "between_boxes": between,
          "format": a.recipe["format"], "tiny": a.tiny}
    if r.get("r") in ("panic", "crash"):
        ctx.report_violation(c, f"implementation panicked: {str(r.get('msg'))[:200]}", mi)
        stats["panic"] += 1
        return
    if r.get("r") != "ok":
        stats["read_error"] += 1
        return
    st = r["state"]
    stats["state"][st] = stats["state"].get(st, 0) + 1
    if st not in GOOD:
        return
    same = a.protected_equal(g)
    if g == a.f:
        stats["noop"] += 1
    elif same:
        stats["accepted_excluded_only"] += 1
    if not same:
        ctx.report_violation(c, f"state {st} although the protected content changed (mutation outside the signed exclusions {a.excluded[:3]})", mi)
    elif r["jh"] != a.base_jh:
        ctx.report_violation(c, f"state {st} and the change is confined to the exclusions, but the reported manifest changed (json digest {r['jh']} != {a.base_jh})", mi)


def run(ctx):
    if not getattr(ctx, "no_build", False):
        common.build_harness()
    quick = ctx.quick()
    recipes = asset_recipes(quick)
    by_name = {r["name"]: r for r in recipes}
    if ctx.replay:
        rc = [ctx.replay["case"]] if "case" in ctx.replay else [d["case"] for d in ctx.replay.get("disagreements", [])]
        names = {c["asset"]["name"] for c in rc}
        recipes = [r for r in recipes if r["name"] in names]
    import time as _t
    t00 = _t.time()
    assets = prepare(recipes, fresh=not ctx.replay)        # a replay uses the cached signed asset of the failing run
    common.log(f"[C01] prepare: {len(assets)} assets in {_t.time() - t00:.1f}s (since check start {_t.time() - ctx.t0:.1f}s)")
    amap = {a.recipe["name"]: a for a in assets}
    cases = []
    if ctx.replay:
        cases = rc
    else:
        for c in corpus():
            if c["asset"]["name"] in amap:
                c = json.loads(json.dumps(c))
                po = c["m"].pop("pos_of", None)           # symbolic position: "start:<box name>" in the signed layout
                if po:
                    a = amap[c["asset"]["name"]]
                    c["m"]["pos"] = next(e["start"] for e in a.map if e["names"][0] == po.split(":")[1])
                cases.append(c)
        for a in assets:
            for m in gen_mutations(a, ctx.rng, quick):
                cases.append({"op": "mut", "asset": a.recipe, "m": m, "direct": bool(a.tiny or ctx.rng.random() < 0.25),
                              "map": bool(a.tiny and a.kind == "box")})
    for i, c in enumerate(cases):
        c["id"] = i
    import time as _t
    t0 = _t.time()
    impl = common.run_harness("c01", cases, jobs=16)
    common.log(f"[C01] harness: {len(cases)} cases in {_t.time() - t0:.1f}s")
    stats = {"panic": 0, "read_error": 0, "state": {}, "noop": 0, "accepted_excluded_only": 0, "per_asset": {}, "kinds": {}}
    t0 = _t.time()
    for c in cases:
        a = amap[c["asset"]["name"]]
        stats["per_asset"][a.recipe["name"]] = stats["per_asset"].get(a.recipe["name"], 0) + 1
        stats["kinds"][c["m"]["k"]] = stats["kinds"].get(c["m"]["k"], 0) + 1
        oracle(ctx, a, c, impl[c["id"]], stats)
    if os.environ.get("VERIF_DEBUG"):
        json.dump(ctx.violations, open(os.path.join(common.CASES, "C01_violations.json"), "w"), default=str)
    common.log(f"[C01] oracle: {_t.time() - t0:.1f}s")
    # direct verifier vs e2e: whenever the read reports a hard-binding verdict it is the direct one
    hb = {"data": "assertion.dataHash", "box": "assertion.boxesHash", "bmff": "assertion.bmffHash", "update": "assertion.dataHash"}
    cross = 0
    for c in cases:
        r = impl[c["id"]]
        a = amap[c["asset"]["name"]]
        if r.get("r") == "ok" and r.get("direct") and not a.in_excluded(c["m"].get("pos", -1)) and c["m"]["k"] in ("set", "flip"):
            match = any(x.startswith(hb[a.kind] + ".match") for x in r["success"])
            mism = any(x.startswith(hb[a.kind]) for x in r["failure"])
            if match or mism:
                cross += 1
                if match != (r["direct"][0] == "ok"):
                    ctx.disagreements.append({"case": c, "impl": {"success": r["success"], "failure": r["failure"]}, "model": "direct verifier says " + r["direct"][0][:80]})
    # model correspondence on the tiny assets
    modelled = 0
    t0 = _t.time()
    from concurrent.futures import ThreadPoolExecutor
    todo = [a for a in assets if a.tiny and a.kind in ("data", "box")]
    with ThreadPoolExecutor(max_workers=max(1, len(todo))) as ex:          # coqc shards of all assets run side by side
        futs = [ex.submit(model_eval, ctx, a, [c for c in cases if c["asset"]["name"] == a.recipe["name"]], impl) for a in todo]
        for fu in futs:
            modelled += fu.result()
    common.log(f"[C01] model: {modelled} evaluations in {_t.time() - t0:.1f}s")
    distinct = len({(c["asset"]["name"], json.dumps(c["m"], sort_keys=True)) for c in cases if c["m"]["k"] != "none"})
    ctx.coverage.update({
        "evaluations": len(cases), "distinct_nontrivial": distinct,
        "rule": "per signed asset (3 model-built tiny assets + 4 fixtures, x data/box or bmff binding, + 2 update manifests over a data hash): every structural boundary +-2 and "
                "seeded positions x {flip bit 0, flip bit 7, set 0} (tiny assets: every position in the thorough tier), insert/delete/duplicate at "
                "boundaries and inside the exclusion, well-formed container structures (APP11 continuation / foreign-instance / COM segments, PNG chunks, "
                "GIF extension blocks, BMFF free box, duplicated store segments) directly before and after the manifest region and a grown/shrunk manifest region, appends (1..64 bytes, a copy of the last box), truncations; non-trivial = changes the file; "
                "distinct by (asset, mutation)",
        "distribution": stats, "model_vs_direct_verifier": modelled, "direct_vs_e2e_verdicts": cross,
        "assets": {a.recipe["name"]: {"len": len(a.f), "excluded": a.excluded[:4], "boundaries": len(a.bounds)} for a in assets},
        "samples": [{"asset": c["asset"]["name"], "m": c["m"]} for c in cases[:2] + cases[len(cases) // 2: len(cases) // 2 + 2]],
    })


def search(ctx):
    """tie broken and nothing found yet: denser mutation lists on every asset, oracle only"""
    common.build_harness()
    assets = prepare(asset_recipes(False))
    amap = {a.recipe["name"]: a for a in assets}
    cases = []
    for a in assets:
        for m in gen_mutations(a, ctx.rng, False if a.tiny else True):
            cases.append({"op": "mut", "asset": a.recipe, "m": m, "direct": False, "map": False})
        if not a.tiny:
            for _ in range(400):
                p = ctx.rng.randrange(len(a.f))
                cases.append({"op": "mut", "asset": a.recipe, "m": {"k": "flip", "pos": p, "bit": ctx.rng.randrange(8)}, "direct": False, "map": False})
    for i, c in enumerate(cases):
        c["id"] = i
    impl = common.run_harness("c01", cases, jobs=16)
    stats = {"panic": 0, "read_error": 0, "state": {}, "noop": 0, "accepted_excluded_only": 0}
    for c in cases:
        oracle(ctx, amap[c["asset"]["name"]], c, impl[c["id"]], stats)
    ctx.coverage["search_evaluations"] = len(cases)
