"""Shared by C05 / C06: certificate specs, harness cases, Coq terms for Model/CertProfile.v and Model/TrustPolicy.v,
and the independent reading of certificate features (openssl x509 -text) into the model's feature record."""
import json, os, re, time

from .. import common, x509gen as X

EE_EXT = ["basicConstraints=critical,CA:FALSE", "keyUsage=critical,digitalSignature", "extendedKeyUsage=emailProtection",
          "subjectKeyIdentifier=hash", "authorityKeyIdentifier=keyid:always"]
CA_EXT = ["basicConstraints=critical,CA:TRUE", "keyUsage=critical,keyCertSign,cRLSign", "subjectKeyIdentifier=hash",
          "authorityKeyIdentifier=keyid:always"]

CUSTOM_EKU = "1.3.6.1.4.1.99999.7"

# boundary material (registered here so that vlib/x509gen.py, whose hash keys the material cache, stays unchanged)
for _bits in (2040, 2041, 2047, 2056):
    X.KEYKINDS[f"rsa{_bits}"] = ["-algorithm", "RSA", "-pkeyopt", f"rsa_keygen_bits:{_bits}"]
    X.SIGN_ALG[f"rsa{_bits}"] = "ps256"
for _kind, _curve in (("secp224r1", "secp224r1"), ("brainpoolP256r1", "brainpoolP256r1"), ("brainpoolP384r1", "brainpoolP384r1"),
                      ("prime192v1", "prime192v1")):
    X.KEYKINDS[_kind] = ["-algorithm", "EC", "-pkeyopt", f"ec_paramgen_curve:{_curve}"]
    X.SIGN_ALG[_kind] = "es256"


def ee_ext(**over):
    """the conforming end-entity extension set with single lines replaced / removed (value None) / added"""
    d = {"basicConstraints": "critical,CA:FALSE", "keyUsage": "critical,digitalSignature", "extendedKeyUsage": "emailProtection",
         "subjectKeyIdentifier": "hash", "authorityKeyIdentifier": "keyid:always"}
    for k, v in over.items():
        k = k.replace("_", ".") if re.fullmatch(r"[\d_]+", k) else k
        if v is None:
            d.pop(k, None)
        else:
            d[k] = v
    return [f"{k}={v}" for k, v in d.items()]


def root(tag="r0", kind="p256", **kw):
    s = {"cn": f"Root {tag}", "key": [kind, "ca-" + tag], "issuer": None, "ext": CA_EXT}
    s.update(kw)
    return s


def inter(parent, tag, kind="p256", **kw):
    s = {"cn": f"Int {tag}", "key": [kind, "ca-" + tag], "issuer": parent, "ext": CA_EXT}
    s.update(kw)
    return s


def leaf(parent, tag="e0", kind="p256", ext=None, **kw):
    s = {"cn": f"EE {tag}", "key": [kind, "ee-" + tag], "issuer": parent, "ext": EE_EXT if ext is None else ext}
    s.update(kw)
    return s


def path_of(spec):
    return X.cert(spec) if isinstance(spec, dict) else spec


def pem_of(spec):
    return X.read(path_of(spec))


def chain_specs(spec):
    out = []
    while spec is not None:
        out.append(spec)
        spec = spec.get("issuer")
    return out


# ------------------------------------------------------------------ names -> OIDs (through openssl, independent of the SDK)

_oid_cache = {}


def oid_of_name(name):
    name = name.strip()
    if re.fullmatch(r"\d+(\.\d+)+", name):
        return [int(x) for x in name.split(".")]
    if name in _oid_cache:
        return _oid_cache[name]
    out = os.path.join(X.ROOT, "oid.der")
    os.makedirs(X.ROOT, exist_ok=True)
    X._run(["asn1parse", "-genstr", "OID:" + name, "-noout", "-out", out])
    der = open(out, "rb").read()
    body = der[2:]
    arcs = [body[0] // 40, body[0] % 40] if body[0] < 80 else [2, body[0] - 80]
    v = 0
    for b in body[1:]:
        v = (v << 7) | (b & 0x7f)
        if not b & 0x80:
            arcs.append(v)
            v = 0
    _oid_cache[name] = arcs
    return arcs


# ------------------------------------------------------------------ features -> Coq

def coq_oid(arcs):
    return "[" + "; ".join(str(a) for a in arcs) + "]%N"


def b(x):
    return "true" if x else "false"


def model_features(pem_path):
    """python dict mirroring Model/CertProfile.cert, read from `openssl x509 -text` only"""
    f = X.features(pem_path)
    m = {"parse_ok": True, "version": f["version"] - 1, "not_before": f["not_before"], "not_after": f["not_after"],
         "sig_alg": oid_of_name(f["sig_alg"]), "is_ca": f["is_ca"], "self_issued": f["issuer"] == f["subject"],
         "issuer_uid": f["issuer_uid"], "subject_uid": f["subject_uid"]}
    p = f["pss"]
    if p is None:
        m["pss"] = ("absent",)
    elif not p["present"]:
        m["pss"] = ("absent",)
    elif not (p["hash_explicit"] and p["mgf_explicit"]):
        m["pss"] = ("unparsable",)        # DER omits a default: the hand-written parser does not find [0] / [1]
    else:
        m["pss"] = ("parsed", oid_of_name(p["hash"]), oid_of_name(p["mgf"]))
    if f["pk_alg"] == "id-ecPublicKey":
        # explicit parameters are a SEQUENCE; x509-parser's as_oid() does not check the tag, so the code sees some non-curve OID
        m["spki"] = ("ec", [0, 0]) if f["curve"] == "explicit" else ("ec", oid_of_name(f["curve"]))
    elif f["pk_alg"] in ("rsaEncryption", "rsassaPss"):
        m["spki"] = ("rsa", f["pk_bits"])
    else:
        m["spki"] = ("other",)
    if f["eku"] is None:
        m["eku"] = None
    else:
        e = dict(f["eku"])
        e["other"] = [oid_of_name(o) for o in e["other"]]
        m["eku"] = e
    exts = []
    for e in f["ext"]:
        n = e["name"]
        if n == "X509v3 Authority Key Identifier":
            k = ("aki",)
        elif n == "X509v3 Subject Key Identifier":
            k = ("ski",)
        elif n == "X509v3 Key Usage":
            ku = f["ku"] or []
            k = ("ku", "Digital Signature" in ku, "Non Repudiation" in ku, "Certificate Sign" in ku)
        elif n in X.HANDLED_EXT:
            k = ("handled",)
        else:
            k = ("other",)
        exts.append((k, e["critical"]))
    m["exts"] = exts
    m["ku"] = f["ku"]
    return m


def coq_cert(m):
    if m["pss"][0] == "absent":
        pss = "PssAbsent"
    elif m["pss"][0] == "unparsable":
        pss = "PssUnparsable"
    else:
        pss = f"(PssParsed {coq_oid(m['pss'][1])} {coq_oid(m['pss'][2])})"
    s = m["spki"]
    if s[0] == "ec":
        spki = "(SpkiEc EcNotOid)" if s[1] == "explicit" else f"(SpkiEc (EcNamed {coq_oid(s[1])}))"
    elif s[0] == "rsa":
        spki = f"(SpkiRsa (Some {s[1]}%N))"
    else:
        spki = "SpkiOtherKey"
    if m["eku"] is None:
        eku = "EkuAbsent"
    else:
        e = m["eku"]
        eku = ("(EkuPresent {| eku_any := %s; eku_server_auth := %s; eku_client_auth := %s; eku_code_signing := %s; "
               "eku_email_protection := %s; eku_time_stamping := %s; eku_ocsp_signing := %s; eku_other := [%s] |})" % (
                   b(e["any"]), b(e["server_auth"]), b(e["client_auth"]), b(e["code_signing"]), b(e["email_protection"]),
                   b(e["time_stamping"]), b(e["ocsp_signing"]), "; ".join(coq_oid(o) for o in e["other"])))
    xs = []
    for k, crit in m["exts"]:
        if k[0] == "ku":
            kind = f"(XKeyUsage {{| ku_digital_signature := {b(k[1])}; ku_non_repudiation := {b(k[2])}; ku_key_cert_sign := {b(k[3])} |}})"
        else:
            kind = {"aki": "XAki", "ski": "XSki", "handled": "XHandled", "other": "XOther", "unparsed": "XUnparsed"}[k[0]]
        xs.append(f"{{| x_kind := {kind}; x_critical := {b(crit)} |}}")
    return ("{| c_parse_ok := %s; c_version := %d%%N; c_not_before := (%d)%%Z; c_not_after := (%d)%%Z; c_sig_alg := %s; c_pss := %s; "
            "c_spki := %s; c_is_ca := %s; c_self_issued := %s; c_issuer_uid := %s; c_subject_uid := %s; c_eku := %s; c_exts := [%s] |}" % (
                b(m["parse_ok"]), m["version"], m["not_before"], m["not_after"], coq_oid(m["sig_alg"]), pss, spki, b(m["is_ca"]),
                b(m["self_issued"]), b(m["issuer_uid"]), b(m["subject_uid"]), eku, "; ".join(xs)))


def coq_ekus(trust_config, defaults=True):
    """DEFAULT_EKUS ++ the dotted OIDs of a trust_config text (what add_valid_ekus keeps: lines that parse as an OID);
    defaults=False for CertificateTrustPolicy::passthrough(), which starts from an empty EKU set"""
    extra = []
    for l in (trust_config or "").splitlines():
        if re.fullmatch(r"\d+(\.\d+)+", l):
            extra.append([int(x) for x in l.split(".")])
    return ("(DEFAULT_EKUS ++ [" if defaults else "([] ++ [") + "; ".join(coq_oid(o) for o in extra) + "])"


IMPORTS = ("From Coq Require Import List NArith ZArith Bool.\nFrom C2PA Require Import Generated.C06_facts Model.CertProfile Model.TrustPolicy.\n"
           "Import ListNotations.\n")

# description logged by certificate_profile.rs -> model branch
BRANCH_OF_DESC = {
    "certificate could not be parsed": "BParse", "certificate version incorrect": "BVersion", "certificate expired": "BExpired",
    "certificate algorithm not supported": "BSigAlg", "certificate algorithm error": "BPssMismatch",
    "certificate hash algorithm not supported": "BPssHash", "certificate missing algorithm parameters": "BPssMissing",
    "certificate unsupported EC curve": "BCurve", "certificate key length too short": "BKeyLen",
    "certificate issuer and subject cannot be the same (self-signed disallowed)": "BSelfSigned",
    "certificate issuer/subject unique ids are not allowed": "BUniqueId", "certificate 'any' EKU not allowed": "BEkuAny",
    "certificate missing required EKU": "BEkuMissing", "certificate invalid set of EKUs": "BEkuSet",
    "certificate missing digitalSignature EKU": "BKuCertSign", "certificate params incorrect": "BParams",
    "expected end-entity certificate": "BCa",
    "certificate could not be checked against the certificate profile": "BQuietLogged"}
SILENT = {"BPssUnparsable", "BEcParams", "BRsaKey", "BEkuDuplicate"}
ERR_OF_BRANCH = {"BVersion": "InvalidCertificateVersion", "BExpired": "CertificateNotValidAtTime", "BSigAlg": "UnsupportedAlgorithm",
                 "BSelfSigned": "SelfSignedCertificate"}
CODE = {"CInvalid": "signingCredential.invalid", "CExpired": "signingCredential.expired"}


def impl_profile(direct):
    """('POk',) | ('PFail', branch|'silent', err_variant) from the harness's direct profile call"""
    p = direct["profile"]
    if p["res"] == "Ok":
        return ("POk",) if not p["log"] else ("POk+log", p["log"])
    err = p["res"][4:]
    if not p["log"]:
        return ("PFail", "silent", err)
    if len(p["log"]) != 1:
        return ("PFail", "multi", p["log"])
    kind, code, desc = p["log"][0]
    return ("PFail", BRANCH_OF_DESC.get(desc, desc), err, code, kind)


def model_profile(term, quiet_logged=False):
    """parsed Coq outcome -> same shape"""
    if term == "POk":
        return ("POk",)
    br = term[1]
    if br in SILENT:
        if quiet_logged:
            return ("PFail", "BQuietLogged", "InvalidCertificate", "signingCredential.invalid", "Failure")
        return ("PFail", "silent", "InvalidCertificate")
    return ("PFail", br, ERR_OF_BRANCH.get(br, "InvalidCertificate"),
            "signingCredential.expired" if br == "BExpired" else "signingCredential.invalid", "Failure")


def now():
    return int(time.time())


def run_cases(prop, cases, jobs=16, timeout=3600):
    """like common.run_harness, but always spread over `jobs` processes (a case costs ~1.5 s in the debug harness)"""
    import subprocess
    os.makedirs(common.CASES, exist_ok=True)
    n = max(1, min(jobs, len(cases)))
    shards = [cases[i::n] for i in range(n)]
    procs = []
    for k, shard in enumerate(shards):
        path = os.path.join(common.CASES, f"{prop}_cert_in_{k}.jsonl")
        with open(path, "w") as f:
            for c in shard:
                f.write(json.dumps(c) + "\n")
        procs.append((shard, subprocess.Popen([common.HARNESS_BIN, prop.lower(), path], stdout=subprocess.PIPE,
                                              stderr=subprocess.PIPE, text=True)))
    out = {}
    for shard, p in procs:
        try:
            so, se = p.communicate(timeout=timeout)
        except subprocess.TimeoutExpired:
            p.kill()
            so, se = p.communicate()
            se += "\nTIMEOUT"
        for line in so.splitlines():
            if line.strip():
                try:
                    r = json.loads(line)
                    out[r["id"]] = r
                except Exception:
                    pass
        for c in shard:
            if c["id"] not in out:
                out[c["id"]] = {"id": c["id"], "r": "crash", "msg": f"harness died rc={p.returncode}: {se[-300:]}"}
    return out
