"""C10 generators: small base assets of every format family, structure-aware mutators, nesting families and the
grammar-based inputs of the correspondence run (JUMBF box trees, PNG chunk lists, BMFF trees)."""
import os, struct, io, zipfile
from .. import common

FIX = os.path.join(common.REPO, "sdk/tests/fixtures")
U32 = 0xFFFFFFFF
U64 = 0xFFFFFFFFFFFFFFFF
XL_JUMB = bytes.fromhex("000000016a756d62")

REGRESSION_FIXTURES = [("riff_bomb_1000.wav", "audio/wav"), ("nested_moov_1000.mp4", "video/mp4"),
                       ("id3v23_compression_underflow.mp3", "audio/mpeg"), ("tiff_poc.tiff", "image/tiff"),
                       ("sample3.invalid.wav", "audio/wav")]


def be32(n):
    return struct.pack(">I", n & U32)


def le32(n):
    return struct.pack("<I", n & U32)


def be64(n):
    return struct.pack(">Q", n & U64)


def fixture(name):
    return open(os.path.join(FIX, name), "rb").read()


def short_tail(b):
    """Proofs/C10JumbfProofs.short_tailb: a tail of r = 5..7 bytes whose size field is in 8 .. 16 - r"""
    n = len(b)
    for r in (5, 6, 7):
        if r <= n:
            s = int.from_bytes(b[n - r:n - r + 4], "big")
            if 8 <= s <= 16 - r:
                return True
    return False


def bmff_top_level_boxes(b, cap=1 << 22):
    """number of iterations of the top-level loop of build_bmff_tree (32-bit sizes only; enough for the class)"""
    off, n = 0, 0
    while off + 8 <= len(b) and n < cap:
        s = int.from_bytes(b[off:off + 4], "big")
        if s == 1:
            s = int.from_bytes(b[off + 8:off + 16], "big") if off + 16 <= len(b) else 0
        elif s == 0:
            s = len(b) - off
        if s == 0 or off + s > len(b):
            break
        off += s
        n += 1
    return n


def id3_frame_oversize(b, limit=64 << 20):
    """an ID3v2.3 / v2.4 tag with a frame whose declared size exceeds both the bytes that follow it and [limit]"""
    if b[:3] != b"ID3" or len(b) < 20 or b[3] not in (3, 4):
        return False
    off = 10
    while off + 10 <= len(b) and b[off] != 0:
        raw = b[off + 4:off + 8]
        size = int.from_bytes(raw, "big") if b[3] == 3 else ((raw[0] & 0x7f) << 21) | ((raw[1] & 0x7f) << 14) | ((raw[2] & 0x7f) << 7) | (raw[3] & 0x7f)
        if size > len(b) - off - 10 and size > limit:
            return True
        off += 10 + size
    return False


def hint_families():
    return ["application/c2pa", "image/jpeg", "image/png", "image/gif", "video/mp4", "image/avif", "audio/wav", "image/webp",
            "video/avi", "image/svg+xml", "image/tiff", "image/x-adobe-dng", "audio/mpeg", "application/pdf", "audio/flac",
            "image/jxl", "application/x-unknown"]


# ------------------------------------------------------------------------------------------------ base assets

def tiny_gif():
    return (b"GIF89a" + bytes([1, 0, 1, 0, 0x80, 0, 0]) + bytes([0, 0, 0, 255, 255, 255])
            + bytes([0x21, 0xF9, 4, 1, 0, 0, 0, 0]) + bytes([0x2C, 0, 0, 0, 0, 1, 0, 1, 0, 0]) + bytes([2, 2, 0x44, 1, 0]) + b"\x3b")


def tiny_wav():
    fmt = struct.pack("<HHIIHH", 1, 1, 8000, 8000, 1, 8)
    body = b"WAVE" + b"fmt " + le32(16) + fmt + b"data" + le32(8) + bytes(range(8))
    return b"RIFF" + le32(len(body)) + body


def tiny_svg():
    return (b'<?xml version="1.0" encoding="UTF-8"?>\n<svg xmlns="http://www.w3.org/2000/svg" width="10" height="10">'
            b'<rect width="10" height="10" fill="red"/></svg>\n')


def tiny_tiff():
    ents = [(256, 3, 1, 1), (257, 3, 1, 1), (258, 3, 1, 8), (259, 3, 1, 1), (262, 3, 1, 1), (273, 4, 1, 8 + 2 + 8 * 12 + 4),
            (278, 3, 1, 1), (279, 4, 1, 1)]
    ifd = struct.pack("<H", len(ents)) + b"".join(struct.pack("<HHII", t, ty, c, v) for t, ty, c, v in ents) + le32(0)
    return b"II*\x00" + le32(8) + ifd + b"\x7f"


def tiny_mp3():
    id3 = b"ID3\x03\x00\x00" + bytes([0, 0, 0, 10]) + bytes(10)
    return id3 + (b"\xff\xfb\x90\x64" + bytes(413)) * 2


def tiny_flac():
    si = bytes.fromhex("10001000" "000000" "000000" "0ac44170" "00000000") + bytes(16)
    return b"fLaC" + b"\x80" + (34).to_bytes(3, "big") + si[:34] + b"\xff\xf8\x69\x08\x00\x00" + bytes(32)


def tiny_jxl():
    sig = be32(12) + b"JXL " + bytes.fromhex("0d0a870a")
    ftyp = be32(20) + b"ftyp" + b"jxl " + be32(0) + b"jxl "
    code = bytes.fromhex("ff0a") + bytes(14)
    return sig + ftyp + be32(8 + len(code)) + b"jxlc" + code


def tiny_mp4():
    ftyp = be32(24) + b"ftyp" + b"isom" + be32(512) + b"isom" + b"mp41"
    mvhd = be32(108) + b"mvhd" + bytes(100)
    moov = be32(8 + len(mvhd)) + b"moov" + mvhd
    mdat = be32(24) + b"mdat" + bytes(range(16))
    return ftyp + moov + mdat


XMP = (b'<?xpacket begin="\xef\xbb\xbf" id="W5M0MpCehiHzreSzNTczkc9d"?><x:xmpmeta xmlns:x="adobe:ns:meta/">'
       b'<rdf:RDF xmlns:rdf="http://www.w3.org/1999/02/22-rdf-syntax-ns#"><rdf:Description rdf:about=""/></rdf:RDF>'
       b'</x:xmpmeta><?xpacket end="w"?>')


def riff_chunk(cc, data):
    return cc + le32(len(data)) + data + (b"\x00" if len(data) & 1 else b"")


def webp_xmp():
    body = b"WEBP" + riff_chunk(b"VP8 ", bytes(10)) + riff_chunk(b"XMP ", XMP)
    return b"RIFF" + le32(len(body)) + body


def wav_xmp():
    w = tiny_wav()
    body = w[8:] + riff_chunk(b"XMP ", XMP)
    return b"RIFF" + le32(len(body)) + body


def gif_xmp():
    g = tiny_gif()
    magic = bytes([1]) + bytes(range(255, -1, -1)) + b"\x00"
    ext = bytes([0x21, 0xFF, 11]) + b"XMP DataXMP" + XMP + magic
    return g[:-1] + ext + b"\x3b"


def tiff_xmp():
    ents = [(256, 3, 1, 1), (257, 3, 1, 1), (258, 3, 1, 8), (259, 3, 1, 1), (262, 3, 1, 1), (273, 4, 1, 0),
            (278, 3, 1, 1), (279, 4, 1, 1), (700, 1, len(XMP), 0)]
    base = 8 + 2 + len(ents) * 12 + 4
    ents[5] = (273, 4, 1, base)
    ents[8] = (700, 1, len(XMP), base + 2)
    ifd = struct.pack("<H", len(ents)) + b"".join(struct.pack("<HHII", t, ty, c, v) for t, ty, c, v in ents) + le32(0)
    return b"II*\x00" + le32(8) + ifd + b"\x7f\x00" + XMP


def jpeg_xmp():
    j = fixture("IMG_0003.jpg")
    pay = b"http://ns.adobe.com/xap/1.0/\x00" + XMP
    return j[:2] + b"\xff\xe1" + struct.pack(">H", 2 + len(pay)) + pay + j[2:]


def mp4_xmp():
    m = tiny_mp4()
    pay = bytes.fromhex("be7acfcb97a942e89c71999491e3afac") + XMP
    return m + be32(8 + len(pay)) + b"uuid" + pay


def svg_xmp():
    return (b'<?xml version="1.0" encoding="UTF-8"?>\n<svg xmlns="http://www.w3.org/2000/svg" width="10" height="10"><metadata>'
            + XMP + b'</metadata><rect width="10" height="10"/></svg>\n')


def mp3_xmp():
    frame = b"PRIV" + be32(4 + len(XMP)) + b"\x00\x00" + b"XMP\x00" + XMP
    n = len(frame)
    ss = bytes([(n >> 21) & 0x7f, (n >> 14) & 0x7f, (n >> 7) & 0x7f, n & 0x7f])
    return b"ID3\x03\x00\x00" + ss + frame + (b"\xff\xfb\x90\x64" + bytes(413)) * 2


def base_assets():
    out = [
        {"name": "png", "hint": "image/png", "family": "png", "bytes": fixture("libpng-test.png"), "sign": True},
        {"name": "jpeg", "hint": "image/jpeg", "family": "jpeg", "bytes": fixture("IMG_0003.jpg"), "sign": True},
        {"name": "gif", "hint": "image/gif", "family": "gif", "bytes": tiny_gif(), "sign": True},
        {"name": "webp", "hint": "image/webp", "family": "riff", "bytes": fixture("test.webp"), "sign": True},
        {"name": "wav", "hint": "audio/wav", "family": "riff", "bytes": tiny_wav(), "sign": True},
        {"name": "mp4", "hint": "video/mp4", "family": "bmff", "bytes": tiny_mp4(), "sign": True},
        {"name": "dash", "hint": "video/mp4", "family": "bmff", "bytes": fixture("dashinit.mp4"), "sign": True},
        {"name": "svg", "hint": "image/svg+xml", "family": "svg", "bytes": tiny_svg(), "sign": True},
        {"name": "tiff", "hint": "image/tiff", "family": "tiff", "bytes": tiny_tiff(), "sign": True},
        {"name": "mp3", "hint": "audio/mpeg", "family": "mp3", "bytes": tiny_mp3(), "sign": True},
        {"name": "flac", "hint": "audio/flac", "family": "flac", "bytes": tiny_flac(), "sign": True},
        {"name": "jxl", "hint": "image/jxl", "family": "bmff", "bytes": tiny_jxl(), "sign": True},
        {"name": "pdf", "hint": "application/pdf", "family": "pdf", "bytes": fixture("basic.pdf"), "sign": False},
        {"name": "pdfsigned", "hint": "application/pdf", "family": "pdf", "bytes": fixture("basic-signed.pdf"), "sign": False},
        {"name": "pngz", "hint": "image/png", "family": "png", "bytes": fixture("libpng-test.png"), "sign": True,
         "settings": '{"core": {"prefer_compress_manifests": true}}'},
        # files WITHOUT a manifest: the reader then looks for XMP (remote manifest reference) - a second parser per format
        {"name": "webp_xmp", "hint": "image/webp", "family": "riff", "bytes": webp_xmp(), "sign": False},
        {"name": "wav_xmp", "hint": "audio/wav", "family": "riff", "bytes": wav_xmp(), "sign": False},
        {"name": "avi_xmp", "hint": "video/avi", "family": "riff", "bytes": webp_xmp().replace(b"WEBP", b"AVI "), "sign": False},
        {"name": "png_xmp", "hint": "image/png", "family": "png", "bytes": fixture("libpng-test_with_url.png"), "sign": False},
        {"name": "gif_xmp", "hint": "image/gif", "family": "gif", "bytes": gif_xmp(), "sign": False},
        {"name": "tiff_xmp", "hint": "image/tiff", "family": "tiff", "bytes": tiff_xmp(), "sign": False},
        {"name": "jpeg_xmp", "hint": "image/jpeg", "family": "jpeg", "bytes": jpeg_xmp(), "sign": False},
        {"name": "mp4_xmp", "hint": "video/mp4", "family": "bmff", "bytes": mp4_xmp(), "sign": False},
        {"name": "svg_xmp", "hint": "image/svg+xml", "family": "svg", "bytes": svg_xmp(), "sign": False},
        {"name": "mp3_xmp", "hint": "audio/mpeg", "family": "mp3", "bytes": mp3_xmp(), "sign": False},
        {"name": "flac_plain", "hint": "audio/flac", "family": "flac", "bytes": tiny_flac(), "sign": False},
        {"name": "jxl_plain", "hint": "image/jxl", "family": "bmff", "bytes": tiny_jxl(), "sign": False},
    ]
    return out


def png_cabx(b):
    off = 8
    while off + 8 <= len(b):
        n = int.from_bytes(b[off:off + 4], "big")
        if b[off + 4:off + 8] == b"caBX":
            return b[off + 8:off + 8 + n]
        off += 12 + n
    return None


def find_jumbf(b):
    """the embedded manifest store when it is contiguous (png, riff, bmff, gif-less formats): from the size field
    before the first `jumb` whose description box follows, to that size or the end"""
    i = b.find(b"jumb")
    while i >= 4:
        if b[i + 8:i + 12] == b"jumd":
            n = int.from_bytes(b[i - 4:i], "big")
            return b[i - 4:i - 4 + n] if 0 < n <= len(b) - (i - 4) else b[i - 4:]
        i = b.find(b"jumb", i + 1)
    return None


# ------------------------------------------------------------------------------------------------ field walkers

def f_png(b):
    out, off = [], 8
    while off + 8 <= len(b):
        out.append((off, 4, "be", "png-length"))
        off += 12 + int.from_bytes(b[off:off + 4], "big")
    return out


def f_riff(b):
    out = [(4, 4, "le", "riff-size")]
    off = 12
    while off + 8 <= len(b) and len(out) < 300:
        out.append((off + 4, 4, "le", "riff-chunk-size"))
        n = int.from_bytes(b[off + 4:off + 8], "little")
        if b[off:off + 4] == b"LIST":
            off += 12
        else:
            off += 8 + n + (n & 1)
    return out


BMFF_CONT = {b"moov", b"trak", b"mdia", b"minf", b"stbl", b"moof", b"traf", b"edts", b"udta", b"dinf", b"mvex", b"mfra", b"schi"}


def f_bmff(b, start=0, end=None, depth=0, out=None):
    out = [] if out is None else out
    end = len(b) if end is None else end
    off = start
    while off + 8 <= end and len(out) < 400:
        n = int.from_bytes(b[off:off + 4], "big")
        t = b[off + 4:off + 8]
        out.append((off, 4, "be", "bmff-size"))
        hdr = 8
        if n == 1:
            out.append((off + 8, 8, "be", "bmff-largesize"))
            n = int.from_bytes(b[off + 8:off + 16], "big")
            hdr = 16
        elif n == 0:
            n = end - off
        if n < hdr or off + n > end:
            break
        if t in BMFF_CONT and depth < 12:
            f_bmff(b, off + hdr, off + n, depth + 1, out)
        elif t == b"meta" and depth < 12:
            f_bmff(b, off + hdr + 4, off + n, depth + 1, out)
        elif t in (b"stco", b"stsz", b"stsc", b"co64", b"stts", b"ctts", b"stss", b"iloc", b"trun", b"elst", b"stsd", b"dref", b"iinf"):
            out.append((off + hdr + 4, 4, "be", "bmff-entry-count"))
        off += n
    return out


def f_jpeg(b):
    out, off = [], 2
    while off + 4 <= len(b) and len(out) < 300:
        if b[off] != 0xFF:
            break
        m = b[off + 1]
        if m in (0xD8, 0x01) or 0xD0 <= m <= 0xD7:
            off += 2
            continue
        n = int.from_bytes(b[off + 2:off + 4], "big")
        out.append((off + 2, 2, "be", "jpeg-seglen"))
        if m == 0xEB and b[off + 4:off + 6] == b"JP":
            out.append((off + 6, 2, "be", "jpeg-app11-en"))
            out.append((off + 8, 4, "be", "jpeg-app11-seq"))
            out.append((off + 12, 4, "be", "jpeg-app11-lbox"))
        if m == 0xDA:
            break
        off += 2 + n
    return out


def f_gif(b):
    out = []
    if len(b) < 13:
        return out
    off = 13 + (3 * (2 << (b[10] & 7)) if b[10] & 0x80 else 0)
    while off < len(b) and len(out) < 300:
        c = b[off]
        if c == 0x3B:
            break
        if c == 0x21:
            off += 2
        elif c == 0x2C:
            if off + 10 > len(b):
                break
            fl = b[off + 9]
            off += 10 + (3 * (2 << (fl & 7)) if fl & 0x80 else 0) + 1
        else:
            break
        while off < len(b):
            out.append((off, 1, "be", "gif-subblock-size"))
            n = b[off]
            off += 1 + n
            if n == 0:
                break
    return out


def f_tiff(b):
    out = []
    if len(b) < 8:
        return out
    e = "le" if b[:2] == b"II" else "be"
    en = "little" if e == "le" else "big"
    out.append((4, 4, e, "tiff-ifd-offset"))
    off = int.from_bytes(b[4:8], en)
    seen = 0
    while 0 < off and off + 2 <= len(b) and seen < 4:
        seen += 1
        cnt = int.from_bytes(b[off:off + 2], en)
        out.append((off, 2, e, "tiff-entry-count"))
        for i in range(min(cnt, 40)):
            p = off + 2 + 12 * i
            if p + 12 > len(b):
                break
            out.append((p + 2, 2, e, "tiff-entry-type"))
            out.append((p + 4, 4, e, "tiff-entry-count-field"))
            out.append((p + 8, 4, e, "tiff-entry-value"))
        nx = off + 2 + 12 * cnt
        if nx + 4 > len(b):
            break
        out.append((nx, 4, e, "tiff-next-ifd"))
        off = int.from_bytes(b[nx:nx + 4], en)
    return out


def f_mp3(b):
    out = []
    if b[:3] == b"ID3" and len(b) >= 10:
        out.append((6, 4, "be", "id3-tag-size"))
        out.append((5, 1, "be", "id3-flags"))
        size = ((b[6] & 0x7F) << 21) | ((b[7] & 0x7F) << 14) | ((b[8] & 0x7F) << 7) | (b[9] & 0x7F)
        off = 10
        while off + 10 <= min(len(b), 10 + size) and b[off] != 0 and len(out) < 100:
            out.append((off + 4, 4, "be", "id3-frame-size"))
            out.append((off + 8, 2, "be", "id3-frame-flags"))
            off += 10 + int.from_bytes(b[off + 4:off + 8], "big")
    return out


def f_flac(b):
    out, off = [], 4
    while off + 4 <= len(b) and len(out) < 60:
        out.append((off + 1, 3, "be", "flac-block-length"))
        out.append((off, 1, "be", "flac-block-type"))
        last = b[off] & 0x80
        off += 4 + int.from_bytes(b[off + 1:off + 4], "big")
        if last:
            break
    return out


JUMBF_CC = [b"jumb", b"jumd", b"json", b"cbor", b"uuid", b"c2sh", b"bfdb", b"bidb", b"free", b"brob"]


def f_jumbf(b):
    out = []
    for cc in JUMBF_CC:
        i = b.find(cc)
        k = 0
        while i >= 4 and k < 80:
            out.append((i - 4, 4, "be", "jumbf-" + cc.decode() + "-size"))
            if cc == b"jumd":
                out.append((i + 4 + 16, 1, "be", "jumbf-jumd-toggles"))
            if cc == b"cbor":
                out.append((i + 4, 1, "cbor", "cbor-head"))
            i = b.find(cc, i + 1)
            k += 1
    for pat, kind in ((b"\x30\x82", "der-seq-len"), (b"\x04\x82", "der-octets-len"), (b"\x03\x82", "der-bits-len")):
        i = b.find(pat)
        k = 0
        while i >= 0 and k < 25:
            out.append((i + 2, 2, "be", kind))
            i = b.find(pat, i + 1)
            k += 1
    return out


WALKERS = {"png": f_png, "riff": f_riff, "bmff": f_bmff, "jpeg": f_jpeg, "gif": f_gif, "tiff": f_tiff, "mp3": f_mp3,
           "flac": f_flac}

CBOR_BOMBS = [bytes([0x9B]) + b"\xff" * 8, bytes([0xBB]) + b"\xff" * 8, bytes([0x5B]) + b"\xff" * 8, bytes([0x7B]) + b"\xff" * 8,
              bytes([0x9A]) + b"\xff" * 4, bytes([0xBA, 0x7f, 0xff, 0xff, 0xff]), bytes([0x9F]) * 9, bytes([0xBF]) * 9,
              bytes([0x81]) * 64, bytes([0xD8, 0x40]) * 32, bytes([0x5A, 0x7f, 0xff, 0xff, 0xff])]


def values_for(width, kind):
    if kind == "cbor":
        return CBOR_BOMBS
    full = (1 << (8 * width)) - 1
    vs = [0, 1, full]
    if width >= 4:
        # also the small negative numbers of a sign-confused cast: -4, -8, -12, -16
        vs += [1 << 31, (1 << 31) - 1, 8, 7, full - 3, full - 7, full - 11, full - 15]
    if width == 8:
        vs += [1 << 63, 15, 16, 1 << 32]
    if width == 2:
        vs += [2, 0x8000]
    if width == 3:
        vs += [0x800000]
    return vs


def put(b, off, width, endian, v):
    if endian == "cbor":
        return b[:off] + v + b[off + len(v):] if off + len(v) <= len(b) else b[:off] + v
    raw = v.to_bytes(width, "little" if endian == "le" else "big")
    return b[:off] + raw + b[off + width:]


def mutants(base, rng):
    """(origin, bytes) of the structure-aware mutants of a base asset"""
    b = base["bytes"]
    fam = base["family"]
    fields = list(WALKERS.get(fam, lambda x: [])(b)) + f_jumbf(b)
    seen = set()
    for off, width, endian, kind in fields:
        if off < 0 or off + (1 if endian == "cbor" else width) > len(b):
            continue
        for v in values_for(width, endian if endian == "cbor" else kind):
            m = put(b, off, width, endian, v)
            key = (off, v if isinstance(v, bytes) else (width, v))
            if m != b and key not in seen:
                seen.add(key)
                yield f"{kind}:{off}:{v.hex() if isinstance(v, bytes) else v}", m
        if kind in ("bmff-size", "jumbf-jumb-size", "jumbf-cbor-size", "jumbf-json-size", "jumbf-uuid-size") and off + 16 <= len(b):
            # the 64-bit form: size = 1, then the XLBox / largesize over the following bytes
            for xl in (0, 1, 15, 16, 1 << 31, 1 << 32, 1 << 63, U64, U64 - off, U64 - off - 1):
                yield f"{kind}-xl:{off}:{xl}", b[:off] + be32(1) + b[off + 4:off + 8] + be64(xl) + b[off + 16:]
    # "declared": several declared lengths large AT THE SAME TIME, so that an inner length stays consistent with the
    # enclosing one while both exceed the bytes that are really there (an allocation sized by a declared length)
    lf = [f for f in fields if f[2] != "cbor" and f[1] >= 2 and f[0] >= 0 and f[0] + f[1] <= len(b)
          and not f[3].startswith("der-")][:48]
    if len(lf) >= 2:
        def big(width, k):
            full = (1 << (8 * width)) - 1
            return [full, full - 15, 1 << (8 * width - 1), (1 << (8 * width - 1)) - 16][k]
        for k in range(4):                      # every length field
            m = b
            for off, width, endian, kind in lf:
                m = put(m, off, width, endian, big(width, k))
            yield f"declared-all:{k}", m
        outer = lf[0]
        for off, width, endian, kind in lf[1:]:
            for ko, ki in ((0, 1), (0, 2), (0, 3), (2, 3)):      # outer (first field) huge, one inner just below it
                m = put(b, outer[0], outer[1], outer[2], big(outer[1], ko))
                m = put(m, off, width, endian, big(width, ki))
                yield f"declared-pair:{off}:{ko}{ki}", m
            # the inner length reaching exactly (or almost) the end that the outer length declares
            if width == outer[1] and off > outer[0]:
                full = (1 << (8 * width)) - 1
                for delta in (0, 4, 16):
                    v = full - (off - outer[0]) - delta
                    v -= v & 1
                    m = put(b, outer[0], outer[1], outer[2], full)
                    m = put(m, off, width, endian, v)
                    yield f"declared-fit:{off}:{delta}", m
    # truncation at every structural boundary (and one byte around it)
    cuts = set()
    for off, width, endian, kind in fields:
        for d in (-1, 0, 1, width, width + 4):
            c = off + d
            if 0 < c < len(b):
                cuts.add(c)
    cuts = sorted(cuts)
    if len(cuts) > 160:
        cuts = sorted(rng.sample(cuts, 160))
    for c in cuts:
        yield f"truncate:{c}", b[:c]
    # tails appended to the manifest store / file (the hang class lives here) and zero / 0xff fills
    for tail in (bytes(4), bytes(7), b"\x00\x00\x00\x0c" + b"zz", b"\x00\x00\x00\x09zzz", b"\xff" * 6):
        yield f"tail:{tail.hex()}", b + tail
    # format-agnostic: evenly spaced truncations, 4-byte windows overwritten by extreme values
    for k in range(1, 17):
        c = len(b) * k // 17
        if 0 < c < len(b) and c not in cuts:
            yield f"truncate-even:{c}", b[:c]
    for k in range(24):
        p = rng.randrange(0, max(1, len(b) - 4))
        w = rng.choice([bytes(4), b"\xff" * 4, b"\x7f\xff\xff\xff", b"\x80\x00\x00\x00", b"\x00\x00\x00\x01", b"\xff\xff\xff\x7f"])
        yield f"window:{p}:{w.hex()}", b[:p] + w + b[p + 4:]
    # random bytes inside the manifest store
    j = b.find(b"jumb")
    if j >= 0:
        for k in range(40):
            p = rng.randrange(j, len(b))
            yield f"flip:{p}", b[:p] + bytes([rng.choice([0, 1, 0x7f, 0x80, 0xff, rng.randrange(256)])]) + b[p + 1:]
        # deep CBOR / huge CBOR heads over the start of cbor payloads are covered by the cbor-head fields


# ------------------------------------------------------------------------------------------------ JUMBF builders

def jbox(t, payload):
    return be32(8 + len(payload)) + t + payload


def jumd(label, uuid=None, toggles=3, extra=b""):
    return jbox(b"jumd", (uuid or bytes([1] * 16)) + bytes([toggles]) + label + b"\x00" + extra)


def jsuper(label, children, uuid=None):
    return jbox(b"jumb", jumd(label, uuid) + b"".join(children))


def _nested(depth, leaf, head, hdr_len_of):
    """depth boxes around leaf; head(d, size) gives the bytes that precede the content of level d (1 = outermost)"""
    pre = [hdr_len_of(d) for d in range(1, depth + 1)]
    sizes = [0] * (depth + 2)
    sizes[depth + 1] = len(leaf)
    for d in range(depth, 0, -1):
        sizes[d] = pre[d - 1] + sizes[d + 1]
    return b"".join(head(d, sizes[d]) for d in range(1, depth + 1)) + leaf


def nested_jumbf(depth, leaf=b""):
    def head(d, size):
        return be32(size) + b"jumb" + jumd(b"n%d" % d)
    return _nested(depth, leaf, head, lambda d: 8 + len(jumd(b"n%d" % d)))


def nested_bmff(depth, t=b"moov"):
    inner = _nested(depth, be32(8) + b"free", lambda d, size: be32(size) + t, lambda d: 8)
    return be32(16) + b"ftyp" + b"isom" + be32(0) + inner


def nested_riff(depth):
    inner = _nested(depth, b"data" + le32(4) + b"abcd", lambda d, size: b"LIST" + le32(size - 8) + b"wxyz", lambda d: 12)
    body = b"WAVE" + inner
    return b"RIFF" + le32(len(body)) + body


C2PA_STORE_UUID = bytes.fromhex("6332706100110010800000aa00389b71")
C2PA_MANIFEST_UUID = bytes.fromhex("63326d6100110010800000aa00389b71")
C2PA_ASSERTION_STORE_UUID = bytes.fromhex("6332617300110010800000aa00389b71")
CBOR_UUID = bytes.fromhex("63626f7200110010800000aa00389b71")
C2PA_CLAIM_UUID = bytes.fromhex("6332636c00110010800000aa00389b71")


def store_with_claim_cbor(cbor):
    """a manifest store skeleton whose claim box carries the given CBOR bytes"""
    claim = jsuper(b"c2pa.claim.v2", [jbox(b"cbor", cbor)], C2PA_CLAIM_UUID)
    asst = jsuper(b"c2pa.assertions", [jsuper(b"c2pa.actions.v2", [jbox(b"cbor", cbor)], CBOR_UUID)], C2PA_ASSERTION_STORE_UUID)
    man = jsuper(b"urn:c2pa:00000000-0000-4000-8000-000000000000", [asst, claim], C2PA_MANIFEST_UUID)
    return jsuper(b"c2pa", [man], C2PA_STORE_UUID)


def nesting_cases(facts):
    out = []
    mj, mb = facts["MAX_JUMB_DEPTH"], facts["MAX_BOX_DEPTH"]
    for d in (mj - 1, mj, mj + 1, 4 * mj, 3000, 40000):
        s = nested_jumbf(d, jbox(b"json", b"{}"))
        out.append((f"nest:jumbf-depth:{d}", "application/c2pa", s, "store"))
        out.append((f"nest:jumbf-depth-read:{d}", "application/c2pa", s, "read"))
    for d in (mb - 2, mb - 1, mb, mb + 1, 5 * mb, 60000):
        for t in (b"moov", b"meta", b"trak"):
            out.append((f"nest:bmff-{t.decode()}-depth:{d}", "video/mp4", nested_bmff(d, t), "read"))
    for d in (10, 100, 2000, 60000):
        out.append((f"nest:riff-list-depth:{d}", "audio/wav", nested_riff(d), "read"))
    for d in (100, 5000, 200000):
        for head in (b"\x81", b"\xa1\x00", b"\xd8\x40", b"\x9f"):
            s = store_with_claim_cbor(head * d + b"\x00")
            out.append((f"nest:cbor-{head.hex()}-depth:{d}", "application/c2pa", s, "store"))
            out.append((f"nest:cbor-{head.hex()}-depth-read:{d}", "application/c2pa", s, "read"))
    # many small boxes: the arena / Vec growth per input byte
    for n in ((49152,) if facts.get("_quick", True) else (65536, 262144)):
        out.append((f"amplify:bmff-4-byte-boxes:{n}", "video/mp4", be32(16) + b"ftyp" + b"isom" + be32(0) + (be32(4) * n), "read"))
    out.append(("amplify:bmff-8-byte-boxes:8192", "video/mp4", be32(16) + b"ftyp" + b"isom" + be32(0) + ((be32(8) + b"free") * 8192), "read"))
    out.append(("amplify:png-empty-chunks:80000", "image/png", bytes([137, 80, 78, 71, 13, 10, 26, 10]) + (be32(0) + b"abcd" + be32(0)) * 80000, "read"))
    out.append(("amplify:jumbf-empty-json:100000", "application/c2pa", jsuper(b"c2pa", [jbox(b"json", b"")] * 100000, C2PA_STORE_UUID), "store"))
    out.append(("amplify:riff-empty-chunks:100000", "audio/wav", b"RIFF" + le32(4 + 8 * 100000) + b"WAVE" + (b"abcd" + le32(0)) * 100000, "read"))
    out.append(("amplify:gif-empty-ext:100000", "image/gif", tiny_gif()[:-1] + bytes([0x21, 0xFE, 0]) * 100000 + b"\x3b", "read"))
    return out


def archive_cases(rng):
    out = []
    for fx in ("bad_path_archive.zip", "old_format_archive.zip"):
        b = fixture(fx)
        out.append((f"archive:fixture:{fx}", b))
        # central directory / local header fields
        for sig, offs in ((b"PK\x03\x04", (18, 22, 26, 28)), (b"PK\x01\x02", (20, 24, 28, 30, 32, 42)), (b"PK\x05\x06", (8, 10, 12, 16, 20))):
            i = b.find(sig)
            while i >= 0:
                for o in offs:
                    w = 2 if (sig, o) in ((b"PK\x03\x04", 26), (b"PK\x03\x04", 28), (b"PK\x01\x02", 28), (b"PK\x01\x02", 30), (b"PK\x01\x02", 32),
                                          (b"PK\x05\x06", 8), (b"PK\x05\x06", 10), (b"PK\x05\x06", 20)) else 4
                    for v in (0, 1, (1 << (8 * w)) - 1, 1 << (8 * w - 1)):
                        if i + o + w <= len(b):
                            out.append((f"archive:{fx}:{sig[2:].hex()}+{o}:{v}", b[:i + o] + v.to_bytes(w, "little") + b[i + o + w:]))
                i = b.find(sig, i + 1)
        for c in range(1, len(b), max(1, len(b) // 24)):
            out.append((f"archive:{fx}:truncate:{c}", b[:c]))
    # a zip bomb shaped entry: 64 MiB of zeros deflated, named like an archive member
    z = io.BytesIO()
    with zipfile.ZipFile(z, "w", zipfile.ZIP_DEFLATED) as f:
        f.writestr("manifest.json", b"{" + b" " * (64 << 20) + b"}")
        f.writestr("manifest.c2pa", bytes(64 << 20))
    out.append(("archive:deflate-bomb:64MiB-members", z.getvalue()))
    return out


# ------------------------------------------------------------------------------------------------ correspondence inputs

SIZES = [0, 1, 2, 7, 8, 9, 15, 16, 17, 24, 25, 26, 27, 1 << 31, U32, U32 - 3, U32 - 7, U32 - 11, U32 - 15]
XLS = [0, 1, 8, 15, 16, 17, 40, 1 << 31, 1 << 32, 1 << 63, U64 - 64, U64 - 1, U64, U64 - 7, U64 - 15]
JTYPES = [b"json", b"cbor", b"free", b"jp2c", b"brob", b"uuid", b"bfdb", b"bidb", b"c2sh", b"abcd", b"\x00\x00\x00\x00", b"jumd"]


def rand_tree(rng, depth, budget):
    kids = []
    for _ in range(rng.randrange(0, 4)):
        if budget[0] <= 0:
            break
        budget[0] -= 1
        r = rng.random()
        if r < 0.25 and depth < 5:
            kids.append(rand_tree(rng, depth + 1, budget))
            continue
        t = rng.choice(JTYPES[:10])
        n = rng.choice([0, 0, 1, 2, 3, 5, 8, 17])
        pay = bytes(rng.randrange(256) for _ in range(n))
        if t == b"uuid":
            pay = bytes(16) + pay
        if t == b"bfdb":
            pay = bytes([rng.choice([0, 1, 1, 2])]) + rng.choice([b"a/b\x00", b"a\x00b\x00", b"ab", b"\x00", b""])
        kids.append(jbox(t, pay))
    lab = rng.choice([b"a", b"c2pa", b"x.y", b"a", b"c2pa.assertions", b"\xc3\xa9"] * 3 + [b"\xff", b""])
    tog = rng.choice([3] * 14 + [7, 7, 11, 19, 19, 31, 1, 0x13])
    extra = b""
    if tog & 4:
        extra += be32(7)
    if tog & 8:
        extra += bytes(32)
    if tog & 16:
        extra += jbox(b"c2sh", bytes(rng.choice([0, 16, 16, 3])))
    d = jbox(b"jumd", bytes([1] * 16) + bytes([tog]) + lab + (b"\x00" if rng.random() < 0.95 else b"") + extra)
    return jbox(b"jumb", d + b"".join(kids))


def mutate_small(rng, b, ccs):
    """size fields before the given fourccs to special values / XL forms, truncation, tails"""
    r = rng.random()
    pos = [i - 4 for cc in ccs for i in _find_all(b, cc) if i >= 4]
    if r < 0.35 and pos:
        p = rng.choice(pos)
        return b[:p] + be32(rng.choice(SIZES)) + b[p + 4:]
    if r < 0.55 and pos:
        p = rng.choice(pos)
        xl = rng.choice(XLS + [U64 - p, U64 - p + 1])
        if rng.random() < 0.5:
            return b[:p] + be32(1) + b[p + 4:p + 8] + be64(xl) + b[p + 8:]       # XLBox inserted
        return b[:p] + be32(1) + b[p + 4:p + 8] + be64(xl) + b[p + 16:]          # XLBox over the content
    if r < 0.7:
        return b[:rng.randrange(0, len(b) + 1)]
    if r < 0.85:
        k = rng.choice([1, 2, 3, 4, 5, 6, 7, 8, 9])
        tail = bytes(rng.choice([0, 0, 0, 8, 9, 10, 11, 12, 0x6a, 0xff]) for _ in range(k))
        if rng.random() < 0.5 and pos:
            # inside the outermost box: grow its size field
            n = int.from_bytes(b[0:4], "big")
            return be32(n + k) + b[4:] + tail
        return b + tail
    if r < 0.93 and len(b) > 0:
        p = rng.randrange(len(b))
        return b[:p] + bytes([rng.randrange(256)]) + b[p + 1:]
    return b


def _find_all(b, cc):
    i = b.find(cc)
    while i >= 0:
        yield i
        i = b.find(cc, i + 1)


def gen_jumbf_cases(rng, n, facts):
    out = []
    md = facts["MAX_JUMB_DEPTH"]
    for d in (md - 1, md, md + 1):
        out.append({"op": "jumbf", "data": nested_jumbf(d, jbox(b"json", b"{}")).hex(), "origin": f"nest:{d}"})
    for k in (5, 6, 7):
        for sz in range(7, 13):
            core = jsuper(b"a", [])
            tail = be32(sz) + b"xyz"[:k - 4]
            out.append({"op": "jumbf", "data": (be32(len(core) + k) + core[4:] + tail).hex(), "origin": f"tail:{k}:{sz}"})
    while len(out) < n:
        b = rand_tree(rng, 0, [rng.randrange(1, 9)])
        for _ in range(rng.choice([0, 0, 1, 1, 1, 2])):
            b = mutate_small(rng, b, JTYPES[:9] + [b"jumb", b"jumd"])
        if len(b) <= 1500:
            out.append({"op": "jumbf", "data": b.hex(), "origin": "gen"})
    return out


PNG_SIG = bytes([137, 80, 78, 71, 13, 10, 26, 10])


def gen_png_cases(rng, n):
    out = [{"op": "png", "data": "", "origin": "empty"}, {"op": "png", "data": PNG_SIG.hex(), "origin": "sig-only"}]
    while len(out) < n:
        chunks = []
        for _ in range(rng.randrange(0, 6)):
            name = rng.choice([b"IHDR", b"IDAT", b"caBX", b"caBX", b"iTXt", b"tEXt", b"\xff\xfeab", b"ab\xc3\xa9", b"IEND"])
            pay = bytes(rng.randrange(256) for _ in range(rng.choice([0, 0, 1, 4, 13, 40])))
            chunks.append(be32(len(pay)) + name + pay + bytes(4))
        if rng.random() < 0.7:
            chunks.append(be32(0) + b"IEND" + bytes(4))
        b = (PNG_SIG if rng.random() < 0.93 else bytes(rng.randrange(256) for _ in range(8))) + b"".join(chunks)
        r = rng.random()
        if r < 0.3 and len(b) > 12:
            # a length field to a special value
            offs = [o for o, _, _, _ in f_png(b)]
            if offs:
                p = rng.choice(offs)
                b = b[:p] + be32(rng.choice(SIZES + [len(b), len(b) - p - 12, len(b) - p - 11])) + b[p + 4:]
        elif r < 0.5:
            b = b[:rng.randrange(0, len(b) + 1)]
        elif r < 0.6:
            b = b + bytes(rng.randrange(256) for _ in range(rng.randrange(1, 14)))
        out.append({"op": "png", "data": b.hex(), "origin": "gen"})
    return out


def gen_bmff_cases(rng, n, facts):
    out = [{"op": "bmff", "data": "", "origin": "empty"}]
    mb = facts["MAX_BOX_DEPTH"]
    for d in (mb - 2, mb - 1, mb, mb + 1):
        out.append({"op": "bmff", "data": nested_bmff(d).hex(), "origin": f"nest:{d}"})
    cont = [b"moov", b"trak", b"mdia", b"minf", b"stbl", b"moof", b"traf", b"edts", b"udta", b"dinf", b"tref", b"treg", b"mvex",
            b"mfra", b"meta", b"schi"]
    leafs = [b"free", b"mdat", b"mvhd", b"hdlr", b"uuid", b"uuid", b"stco", b"abcd", b"\xff\xfe\x00\x01", b"ftyp", b"tkhd"]
    c2pa_uuid = bytes(facts_uuid(facts))

    def tree(depth, budget):
        boxes = []
        for _ in range(rng.randrange(0, 4)):
            if budget[0] <= 0:
                break
            budget[0] -= 1
            if rng.random() < 0.4 and depth < 6:
                t = rng.choice(cont)
                pre = b""
                if t == b"meta":
                    pre = rng.choice([bytes(4), b"", bytes(4)])
                inner = pre + tree(depth + 1, budget)
                if t == b"meta" and rng.random() < 0.5:
                    inner = pre + be32(8 + 4) + b"hdlr" + bytes(4) + inner[len(pre):]
                boxes.append(be32(8 + len(inner)) + t + inner)
            else:
                t = rng.choice(leafs)
                pay = bytes(rng.randrange(256) for _ in range(rng.choice([0, 0, 1, 4, 8, 20])))
                if t == b"uuid":
                    pay = (c2pa_uuid if rng.random() < 0.5 else bytes(16)) + pay
                if t == b"ftyp":
                    pay = b"isom" + be32(0) + b"mp41" * rng.randrange(0, 3)
                boxes.append(be32(8 + len(pay)) + t + pay)
        return b"".join(boxes)

    while len(out) < n:
        b = tree(0, [rng.randrange(1, 10)])
        if rng.random() < 0.7:
            brands = b"mp41" * rng.randrange(0, 3)
            b = be32(16 + len(brands)) + b"ftyp" + b"isom" + be32(0) + brands + b
        for _ in range(rng.choice([0, 1, 1, 1, 2])):
            b = mutate_small(rng, b, cont + leafs[:8])
        if len(b) <= 1200:
            out.append({"op": "bmff", "data": b.hex(), "origin": "gen"})
    return out


def facts_uuid(facts):
    return [0xd8, 0xfe, 0xc3, 0xd6, 0x1b, 0x0e, 0x48, 0x3c, 0x92, 0x97, 0x58, 0x28, 0x87, 0x7e, 0xc4, 0x81]
