"""C10 facts: constants and tables of the parsers that the C10 machine-integer models transcribe,
re-read from the source on every run and written to coq/Generated/C10_facts.v."""
import os, re
from .. import common
from ..common import TieBroken

BOXES_RS = "sdk/src/jumbf/boxes.rs"
BMFF_RS = "sdk/src/asset_handlers/bmff_io.rs"
PNG_RS = "sdk/src/asset_handlers/png_io.rs"

# BoxType variant -> Coq name (reader of jumbf/boxes.rs)
J_NAMES = {"Jumb": "JUMB", "Jumd": "JUMD", "Padding": "FREE", "SaltHash": "C2SH", "Json": "JSON", "Uuid": "UUID",
           "Jp2c": "JP2C", "Cbor": "CBOR", "EmbedMediaDesc": "BFDB", "EmbedContent": "BIDB", "Brotli": "BROB"}
# the arms of `match box_header.name` in read_super_box_impl, in order
J_ARMS = ["Jumb", "Json", "Cbor", "Padding", "Jp2c", "Brotli", "Uuid", "EmbedMediaDesc", "EmbedContent"]


def fourcc(s):
    return int.from_bytes(s.encode("latin1"), "big")


def blist(b):
    return "[" + ";".join(str(x) for x in b) + "]"


def const_u(text, name, ty, what=None, env=None):
    e = common.fact(r"const\s+" + name + r"\s*:\s*" + ty + r"\s*=\s*([^;]+);", text, what or name).group(1)
    e = re.sub(r"//.*", "", e)
    for k, v in (env or {}).items():
        e = re.sub(r"\b" + k + r"\b", str(v), e)
    return common.rust_int(e)


def facts(ctx):
    problems = []
    # ---------------------------------------------------------------- jumbf/boxes.rs
    t = common.strip_tests(common.src(BOXES_RS))
    m = common.fact(r"boxtype!\s*\{(.*?)\n\}", t, "boxtype! table (boxes.rs)")
    table = {k: common.rust_int(v) for k, v in re.findall(r"(\w+)\s*=>\s*(0x[0-9A-Fa-f_]+)", m.group(1))}
    if table.get("Empty") != 0:
        raise TieBroken("srcfacts: BoxType::Empty is no longer 0 (boxes.rs)")
    for v in J_NAMES:
        if v not in table:
            raise TieBroken(f"srcfacts: BoxType::{v} is gone from the boxtype! table (boxes.rs)")
    extra = sorted(set(table) - set(J_NAMES) - {"Empty"})
    if extra:
        raise TieBroken(f"srcfacts: new box types in the JUMBF reader that the model does not know: {extra}")
    depth = const_u(t, "MAX_JUMB_DEPTH", "usize")
    hdr = const_u(t, "HEADER_SIZE", "u64")
    tog = const_u(t, "TOGGLE_SIZE", "u64")
    env = {"HEADER_SIZE": hdr, "TOGGLE_SIZE": tog}
    jumd_min = const_u(t, "JUMD_MIN_SIZE", "u64", env=env)
    bfdb_min = const_u(t, "BFDB_MIN_SIZE", "u64", env=env)
    body = common.fn_body(t, r"fn\s+read_super_box_impl\s*<", "read_super_box_impl")
    for frag in ("depth >= BoxReader::MAX_JUMB_DEPTH", "depth + 1",
                 "p if p == dest_pos => found = false", "p if p > dest_pos =>"):
        if frag not in body:
            problems.append(f"srcfacts: read_super_box_impl no longer contains `{frag}`")
    if "start_pos + jumb_header.size" in body:
        dest_checked = False
    elif re.search(r"start_pos\s*\.checked_add\(jumb_header\.size\)", body):
        dest_checked = True
    else:
        raise TieBroken("srcfacts: read_super_box_impl computes dest_pos in a way the model does not know")
    arms = re.findall(r"BoxType::(\w+)\s*=>\s*Box::new", body)
    if arms != J_ARMS:
        raise TieBroken(f"srcfacts: the arms of read_super_box_impl changed: {arms}")
    hd = common.fn_body(t, r"pub\s+fn\s+read_header\s*<", "BoxReader::read_header")
    short_header_is_error = "reader.read(&mut buf)" not in hd      # the as-coded reader accepts a short header read
    desc = common.fn_body(t, r"fn\s+read_desc_box\s*<", "read_desc_box")
    for frag in ("togs[0] & 0x03 == 0x03", "togs[0] & 0x04 == 0x04", "togs[0] & 0x08 == 0x08", "togs[0] & 0x10 == 0x10",
                 "bytes_left != HEADER_SIZE", "bytes_left <= HEADER_SIZE", "if size < JUMD_MIN_SIZE {"):
        if frag not in desc:
            problems.append(f"srcfacts: read_desc_box no longer contains `{frag}`")
    # ---------------------------------------------------------------- bmff_io.rs
    b = common.strip_tests(common.src(BMFF_RS))
    bdepth = const_u(b, "MAX_BOX_DEPTH", "usize")
    bhdr = const_u(b, "HEADER_SIZE", "u64")
    bhdr_l = const_u(b, "HEADER_SIZE_LARGE", "u64")
    m = common.fact(r"\nboxtype!\s*\{(.*?)\n\}", b, "boxtype! table (bmff_io.rs)")
    btable = {k: common.rust_int(v) for k, v in re.findall(r"(\w+)\s*=>\s*(0x[0-9A-Fa-f_]+)", m.group(1))}
    tree = common.fn_body(b, r"\nfn\s+build_bmff_tree\s*<", "build_bmff_tree")
    for frag in ("*recursion_level += 1;", "if *recursion_level > MAX_BOX_DEPTH {", "*recursion_level -= 1;",
                 ".checked_add(s)", "s = end - current;", "BoxType::MdatBox == header.name", "BoxType::UuidBox =>",
                 "extended_type == C2PA_UUID", "BoxType::MetaBox == header.name",
                 "Err(Error::IoError(e)) if e.kind() == std::io::ErrorKind::UnexpectedEof =>", "Err(e) => return Err(e),"):
        if frag not in tree:
            problems.append(f"srcfacts: build_bmff_tree no longer contains `{frag}`")
    m = common.fact(r"// container box types\s*(BoxType::\w+(?:\s*\|\s*BoxType::\w+)*)\s*=>", tree, "container arm of build_bmff_tree")
    containers = re.findall(r"BoxType::(\w+)", m.group(1))
    for c in containers + ["UuidBox", "MdatBox", "FtypBox", "MetaBox"]:
        if c not in btable:
            raise TieBroken(f"srcfacts: BoxType::{c} is not in the bmff boxtype! table")
    m = common.fact(r"const\s+FULL_BOX_TYPES\s*:\s*&\[&str;\s*(\d+)\]\s*=\s*&\[(.*?)\];", b, "FULL_BOX_TYPES")
    full = re.findall(r'"(.{4})"', m.group(2))
    if len(full) != int(m.group(1)):
        raise TieBroken("srcfacts: FULL_BOX_TYPES length mismatch")
    m = common.fact(r"const\s+C2PA_UUID\s*:\s*\[u8;\s*16\]\s*=\s*\[(.*?)\];", b, "C2PA_UUID")
    c2pa_uuid = [common.rust_int(x) for x in re.findall(r"0x[0-9a-fA-F]{2}", m.group(1))]
    if len(c2pa_uuid) != 16:
        raise TieBroken("srcfacts: C2PA_UUID is not 16 bytes")
    hl = common.fn_body(b, r"impl\s+BoxHeaderLite\s*\{", "impl BoxHeaderLite")
    for frag in ("if size == 1 {", "} else if size == 0 {", "end_of_stream - box_start", "reader.read_exact(&mut buf)?;"):
        if frag not in hl:
            problems.append(f"srcfacts: BoxHeaderLite::read no longer contains `{frag}`")
    ft = common.fn_body(b, r"\nfn\s+read_ftyp_box\s*<", "read_ftyp_box")
    for frag in ("size < 16 || size % 4 != 0", "(size - 16) / 4", "0x6d703431"):
        if frag not in ft:
            problems.append(f"srcfacts: read_ftyp_box no longer contains `{frag}`")
    # ---------------------------------------------------------------- png_io.rs
    p = common.strip_tests(common.src(PNG_RS))
    m = common.fact(r"const\s+PNG_ID\s*:\s*\[u8;\s*8\]\s*=\s*\[([^\]]+)\];", p, "PNG_ID")
    png_id = [common.rust_int(x) for x in m.group(1).split(",") if x.strip()]
    cai = common.fact(r'const\s+CAI_CHUNK\s*:\s*\[u8;\s*4\]\s*=\s*\*b"(.{4})";', p, "CAI_CHUNK").group(1)
    iend = common.fact(r'const\s+PNG_END\s*:\s*\[u8;\s*4\]\s*=\s*\*b"(.{4})";', p, "PNG_END").group(1)
    walk = common.fn_body(p, r"\nfn\s+get_png_chunk_positions\s*<", "get_png_chunk_positions")
    for frag in ("f.read_exact(&mut hdr)?;", "read_u32::<BigEndian>()", "SeekFrom::Current(length as i64)",
                 "name == PNG_END || f.stream_position()? > current_len", "String::from_utf8(name.to_vec())"):
        if frag not in walk:
            problems.append(f"srcfacts: get_png_chunk_positions no longer contains `{frag}`")
    gc = common.fn_body(p, r"\nfn\s+get_cai_data\s*<", "get_cai_data")
    for frag in ("count() > 1", "SeekFrom::Start(pcp.start + 8)", "f.read_to_vec(length as u64)"):
        if frag not in gc:
            problems.append(f"srcfacts: get_cai_data no longer contains `{frag}`")
    # ---------------------------------------------------------------- limits elsewhere
    s = common.strip_tests(common.src("sdk/src/settings/mod.rs"))
    max_assert = const_u(s, "MAX_ASSERTIONS", "usize")
    merge_depth = const_u(s, "MERGE_MAX_DEPTH", "usize")
    max_mb = int(common.fact(r"max_decompressed_manifest_size_in_mb:\s*(\d+),", s, "default max_decompressed_manifest_size_in_mb").group(1))
    st = common.strip_tests(common.src("sdk/src/store.rs"))
    ing_depth = const_u(st, "MAX_INGREDIENT_DEPTH", "usize")

    L = ["(* generated from sdk/src/jumbf/boxes.rs, asset_handlers/{bmff_io,png_io}.rs, settings/mod.rs, store.rs",
         "   on every run — do not edit *)",
         "From Coq Require Import NArith List Bool.", "Import ListNotations.", "Open Scope N_scope.",
         "(* ---- jumbf/boxes.rs *)",
         f"Definition MAX_JUMB_DEPTH : N := {depth}.", f"Definition J_HEADER_SIZE : N := {hdr}.",
         f"Definition J_TOGGLE_SIZE : N := {tog}.", f"Definition JUMD_MIN_SIZE : N := {jumd_min}.",
         f"Definition BFDB_MIN_SIZE : N := {bfdb_min}."]
    for v, cn in J_NAMES.items():
        L.append(f"Definition J_{cn} : N := {table[v]}.")
    L.append(f"Definition SHORT_HEADER_IS_ERROR : bool := {'true' if short_header_is_error else 'false'}.")
    L.append(f"Definition DEST_POS_IS_CHECKED : bool := {'true' if dest_checked else 'false'}.")
    L += ["(* ---- asset_handlers/bmff_io.rs *)",
          f"Definition MAX_BOX_DEPTH : N := {bdepth}.", f"Definition B_HEADER_SIZE : N := {bhdr}.",
          f"Definition B_HEADER_SIZE_LARGE : N := {bhdr_l}.",
          f"Definition B_UUID : N := {btable['UuidBox']}.", f"Definition B_MDAT : N := {btable['MdatBox']}.",
          f"Definition B_FTYP : N := {btable['FtypBox']}.", f"Definition B_META : N := {btable['MetaBox']}.",
          f"Definition B_HDLR : N := {fourcc('hdlr')}.",
          "Definition B_CONTAINERS : list N := [" + ";".join(str(btable[c]) for c in containers) + "].",
          "Definition B_FULL_BOX_TYPES : list N := [" + ";".join(str(fourcc(x)) for x in full) + "].",
          "Definition C2PA_UUID : list N := " + blist(c2pa_uuid) + ".",
          "(* ---- asset_handlers/png_io.rs *)",
          "Definition PNG_ID : list N := " + blist(png_id) + ".",
          "Definition PNG_CAI : list N := " + blist(cai.encode("latin1")) + ".",
          "Definition PNG_END : list N := " + blist(iend.encode("latin1")) + ".",
          "(* ---- settings/mod.rs, store.rs *)",
          f"Definition MAX_ASSERTIONS : N := {max_assert}.", f"Definition MERGE_MAX_DEPTH : N := {merge_depth}.",
          f"Definition MAX_INGREDIENT_DEPTH : N := {ing_depth}.",
          f"Definition DEFAULT_MAX_DECOMPRESSED_MB : N := {max_mb}."]
    common.write_if_changed(os.path.join(common.COQ, "Generated", "C10_facts.v"), "\n".join(L) + "\n")
    ctx.facts = {"MAX_JUMB_DEPTH": depth, "MAX_BOX_DEPTH": bdepth, "MAX_ASSERTIONS": max_assert,
                 "MAX_INGREDIENT_DEPTH": ing_depth, "containers": containers, "full_box_types": full,
                 "short_header_is_error": short_header_is_error, "dest_pos_is_checked": dest_checked, "default_max_decompressed_mb": max_mb,
                 "jtypes": {J_NAMES[v]: table[v] for v in J_NAMES}, "btypes": btable}
    if problems:
        raise TieBroken("; ".join(problems))
    return ctx.facts
