"""C29 — Resource files are confined to the manifest directory.

Model: coq/Model/FsPaths.v (Path::components, sanitize_archive_path, uri_to_path, normalize_lexically,
resolve_within_root, a file-system model with symbolic links, and the ResourceStore / Builder / Reader
operations over it).  Tie: correspondence on generated trees + identifiers through the real public API
(harness/src/c29.rs, per-case temporary directories), oracle = the property text on the observed effects:
  (a) nothing is created / modified / removed outside the real manifest root,
  (b) no content of an outside file is returned,
  (c) non-interference: deleting or changing the files outside the root does not change what a read-side
      operation reports (otherwise it reveals something about a file outside the root).
TOCTOU races between the containment check and the use of the path are outside the model and the run."""
import io, json, os, zipfile
from .. import common
from ..common import TieBroken

PROP_FILE = "Properties/C29.v"
TRUSTED = ["the file-system model (Dir | File | Link, fuelled path resolution, create_dir_all, open(O_CREAT|O_TRUNC)) stands for Linux path resolution; checked against the real file system by the correspondence run",
           "base path / resource root / export folder are clean absolute directories below the per-case temporary directory",
           "time-of-check/time-of-use races are not modelled and not exercised"]
ASSUMPTIONS = ["Linux (Unix Path::components, symlink semantics); harness built with file_io",
               "the per-case temporary directory is the top of the modelled tree ($T)"]

IMPORTS = ("From C2PA Require Import Model.FsPaths.\nFrom Coq Require Import List NArith.\nImport ListNotations.\nOpen Scope N_scope.")
READ_OPS = ("get", "write_stream", "exists", "path_for_id")
WRITE_OPS = ("add", "builder_add", "to_folder")
LEX_OPS = ("sanitize", "uri_to_path", "normalize")


# ------------------------------------------------------------------ Coq literals

def cstr(s):
    return "[" + ";".join(str(b) for b in s.encode()) + "]"


def cloc(parts):
    return "[" + ";".join(cstr(p) for p in parts) + "]"


def split_path(p):
    return [x for x in p.split("/") if x]


PFX = ["tmp", "T"]      # the per-case directory is two levels below "/", like /tmp/.tmpXXXX (TMPDIR=/tmp for the harness)


def cfs(tree):
    out = [f"({cloc(PFX[:1])}, Dir)", f"({cloc(PFX)}, Dir)"]
    for e in tree:
        l = cloc(PFX + split_path(e[0]))
        if e[1] == "d":
            out.append(f"({l}, Dir)")
        elif e[1] == "f":
            out.append(f"({l}, File {cstr(e[2])})")
        else:
            out.append(f"({l}, Link {cstr(e[2].replace('$T', '/tmp/T'))})")
    return "[" + "; ".join(out) + "]"


def model_expr(c):
    op = c["op"]
    if op == "sanitize":
        return f"sanitize {cstr(c['ident'])}"
    if op == "uri_to_path":
        lab = f"(Some {cstr(c['label'])})" if c.get("label") is not None else "None"
        return f"uri_to_path {cstr(c['ident'])} {lab}"
    if op == "normalize":
        return (f"(normalize_lexically (components {cstr(c['ident'])}), starts_with (normalize_lexically (components {cstr(c['ident'])})) "
                f"(normalize_lexically (components {cstr(c['label'])})))")
    if op == "archive":
        return "archive_ids [" + "; ".join(cstr(n) for n in c["names"]) + "]"
    fs = cfs(c["tree"])
    base = cloc(PFX + split_path(c["base"]))
    root = cloc(PFX + split_path(c.get("rroot") or c["base"]))
    ident = cstr(c["ident"].replace("$T", "/tmp/T"))
    if op in ("get", "write_stream", "path_for_id"):
        return f"{op} {fs} {base} {root} {ident}"
    if op == "exists":
        return f"exists_op {fs} {base} {root} {ident}"
    if op == "resolve":
        return f"resolve_within_root {fs} {base} {root} {ident}"
    if op == "add":
        return f"add {fs} {base} {root} {ident} {cstr(c['data'])}"
    if op == "builder_add":
        return f"builder_add {fs} {base} {ident} {cstr(c['data'])}"
    if op == "to_folder":
        rels = "[" + "; ".join(cloc(split_path(r)) for r in c["rels"]) + "]"
        return f"to_folder {fs} {cloc(PFX + split_path(c['dest']))} {rels}"
    raise ValueError(op)


def pstr(t):
    """byte list printed by Coq -> python str"""
    if t == [] or t is None:
        return ""
    return bytes(t).decode("utf-8", "replace")


def ploc(t):
    parts = [pstr(x) for x in t]
    return "/".join(parts[2:]) if parts[:2] == PFX else "<above $T>/" + "/".join(parts)


def pcomps(cs):
    """list comp -> the string a PathBuf built from them displays"""
    out, root = [], False
    for c in cs:
        if c == "CRoot":
            root, out = True, []
        elif c == "CCur":
            out.append(".")
        elif c == "CParent":
            out.append("..")
        else:
            out.append(pstr(c[1]))
    return ("/" if root else "") + "/".join(out)


# ------------------------------------------------------------------ generators

PIECES = ["..", ".", "outside", "d", "sub", "a.txt", "secret.txt", "root", "nowhere", "deep", "realroot", "c.txt"]
MENU = [
    [("link", "../outside")], [("abslink", "$T/outside")], [("inlink", "d")], [("inlink2", "./sub/../d")],
    [("chain1", "chain2"), ("chain2", "../outside")], [("dangling", "nowhere/x")], [("dangout", "../outside/newfile.txt")],
    [("filelink", "../outside/secret.txt")], [("infilelink", "a.txt")], [("loop", "loop")],
    [("loopa", "loopb"), ("loopb", "loopa")], [("d/up", "..")], [("up", "..")], [("sub/deeplink", "../../outside/deep")],
    [("evil.txt", "$T/outside/deep/victim.txt")], [("outdirlink", "../outside/deep/..")], [("back", "../outside/../@R/d")],
    [("new", "../outside")], [("newdir", "$T/outside/deep")], [("abstop", "$T")],
    [("privlink", "../@R-private")], [("privfile", "$T/@R-private/key.pem")], [("sub/oldlink", "../sub-old")],
]


def gen_tree(rng, symroot=False, force=None):
    R = "realroot" if symroot else "root"
    t = [[R, "d"], [R + "/a.txt", "f", "IN-A"], [R + "/d", "d"], [R + "/d/c.txt", "f", "IN-C"], [R + "/sub", "d"],
         [R + "/sub/b.txt", "f", "IN-B"], ["outside", "d"], ["outside/secret.txt", "f", "OUTSIDE-SECRET"],
         ["outside/deep", "d"], ["outside/deep/victim.txt", "f", "OUTSIDE-VICTIM"]]
    # siblings whose names have the root's name as a textual prefix (a containment test on path text would accept them)
    t += [[R + "-private", "d"], [R + "-private/key.pem", "f", "OUTSIDE-KEY"], [R + "x", "f", "OUTSIDE-ROOTX"],
          [R + "/sub-old", "d"], [R + "/sub-old/b.txt", "f", "OUTSIDE-SUBOLD"]]
    if symroot:
        t += [["rootlink", "l", "realroot"], ["rootlink-private", "l", "realroot-private"]]
    links = []
    for grp in (force if force is not None else rng.sample(MENU, rng.choice([0, 1, 1, 2, 2, 3, 4]))):
        links += grp
    if force is None:
        for _ in range(rng.choice([0, 0, 1, 2])):
            where = rng.choice(["", "d/", "sub/"])
            tgt = "/".join(rng.choice(PIECES) for _ in range(rng.randint(1, 4)))
            if rng.random() < 0.2:
                tgt = "$T/" + tgt
            # the harness only sees the per-case directory: no link may climb above it
            depth = 0 if tgt.startswith("$T/") else 1 + where.count("/")
            ok = True
            for piece in tgt.replace("$T/", "").split("/"):
                depth += -1 if piece == ".." else (0 if piece in (".", "") else 1)
                ok = ok and depth >= 0
            if not ok:
                continue
            links.append((where + rng.choice(["l1", "l2", "l3"]), tgt))
    seen = {e[0] for e in t}
    for p, tg in links:
        full = R + "/" + p
        if full in seen:
            continue
        seen.add(full)
        t.append([full, "l", tg.replace("@R", R)])
    return t, [p for p, _ in links]


TAILS = ["key.pem", "b.txt", "secret.txt", "evil.txt", "deep/victim.txt", "new/evil.txt", "a.txt", "root/a.txt", "realroot/a.txt", "d/c.txt", "",
         "deep", "newfile.txt", "c.txt", "x"]
FIXED_IDS = ["a.txt", "d/c.txt", "sub/b.txt", "new.txt", "newdir/new.txt", "d", "../outside/secret.txt", "sub/../a.txt",
             "sub/../../outside/secret.txt", "d/../../root/a.txt", "..", "../root/a.txt", "sub/..", "./a.txt", ".//d///c.txt/",
             "d/./c.txt", "/etc/passwd", "$T/outside/secret.txt", "$T/root/a.txt", "/", "..\\outside\\secret.txt", "sub\\b.txt",
             "d/..\\..\\outside", "\\", "%2e%2e/outside/secret.txt", "..%2foutside%2fsecret.txt", "%2e%2e%2foutside", "d%2fc.txt",
             "%5c", "", ".", "./", "//", "./.", "a.txt/", "a.txt/.", "a.txt/..", "a.txt/x", "../a.txt", "../sub/b.txt", "../d/c.txt",
             "../../outside/secret.txt", "../../root/a.txt", "...", ".../a.txt", "d/...", " ", "a.txt ", "d/ /x",
             # siblings whose names extend the name of the base / root directory
             "../root-private/key.pem", "../root-private", "../root-private/new.txt", "../rootx", "../../root-private/key.pem",
             "sub/../../root-private/key.pem", "../realroot-private/key.pem", "../rootlink-private/key.pem",
             "../../realroot-private/key.pem", "../../rootlink-private/key.pem", "../sub-old/b.txt", "../sub-old/new.txt", "../sub-old",
             "../root-private/../root-private/key.pem", "./../root-private/key.pem"]


def gen_ident(rng, link_names):
    r = rng.random()
    if link_names and r < 0.5:
        return rng.choice(link_names) + "/" + rng.choice(TAILS) if rng.random() < 0.85 else rng.choice(link_names)
    if r < 0.8:
        return rng.choice(FIXED_IDS)
    sep = "/" if rng.random() < 0.8 else "//"
    s = sep.join(rng.choice(PIECES + link_names + ["", "new.txt", "evil.txt", "%2e%2e", "a\\b"]) for _ in range(rng.randint(1, 5)))
    if rng.random() < 0.1:
        s = "./" + s
    if rng.random() < 0.1:
        s += "/"
    return s


def gen_fs_case(rng, i, op=None):
    symroot = rng.random() < 0.15
    tree, links = gen_tree(rng, symroot)
    top = "rootlink" if symroot else "root"
    c = {"op": op or rng.choice(["add", "add", "builder_add", "get", "get", "exists", "write_stream", "path_for_id", "path_for_id", "resolve"]),
         "tree": tree, "base": top, "rroot": None, "data": f"DATA-{i}"}
    cfg = rng.random()
    if cfg < 0.2:
        c["base"], c["rroot"] = top + "/sub", top            # nested ingredient: base below the containment root
        if c["op"] == "builder_add":
            c["op"] = "add"
    elif cfg < 0.3:
        c["base"] = top + "/sub"                              # base below the top directory, no wider root: sub-old is outside
    elif cfg < 0.37 and c["op"] in ("add", "get", "exists"):
        c["base"] = top + "/nb"                               # base directory does not exist yet
    ident = gen_ident(rng, links)
    if c["rroot"] and rng.random() < 0.6:
        ident = "../" + ident
    if rng.random() < 0.12:                                   # aim at a sibling whose name extends the base / root name
        up = "../" * (c["base"].count("/") + 1)             # from the base up to the case directory
        top1 = split_path(c["base"])[0]
        ident = rng.choice([up + top1 + "-private/key.pem", up + top1 + "-private/new.txt", up + top1 + "x",
                            "../" + split_path(c["base"])[-1] + "-old/b.txt"])
    c["ident"] = ident
    return c


def gen_to_folder_case(rng, i, rels):
    label = split_path(rels[-1])[0]
    t = [["outside", "d"], ["outside/secret.txt", "f", "OUTSIDE-SECRET"], ["outside/deep", "d"]]
    k = rng.randrange(9)
    if k >= 1:
        t.append(["dest", "d"])
    if k == 2:
        t.append(["dest/" + label, "l", "../outside"])
    elif k == 3:
        t += [["dest/" + label, "d"], ["dest/" + label + "/c2pa.assertions", "l", "$T/outside/deep"]]
    elif k == 4:
        t.append(["dest/manifest_store.json", "l", "../outside/secret.txt"])
    elif k == 5:
        t.append(["dest/manifest_data.c2pa", "l", "../outside/new.c2pa"])
    elif k == 6:
        t += [["dest/" + label, "d"], ["dest/" + label + "/c2pa.assertions", "d"], ["dest/" + rels[-1], "l", "../../../outside/secret.txt"]]
    elif k == 7:
        t += [["dest/inner", "d"], ["dest/" + label, "l", "inner"]]
    elif k == 8:
        t.append(["dest/" + label, "f", "A-FILE"])
    return {"op": "to_folder", "tree": t, "base": "dest", "dest": "dest", "rroot": None, "rels": rels, "ident": "", "data": ""}


MANIFEST_JSON = ('{"title":"t","format":"application/octet-stream","instance_id":"xmp:iid:1","ingredients":[],"assertions":[],'
                 '"no_embed":false,"timestamp_manifest_labels":[]}')


def gen_archive_case(rng, i):
    names = ["manifest.json"]
    for _ in range(rng.randint(1, 4)):
        r = rng.random()
        ident = gen_ident(rng, ["link", "d/up"]).replace("$T", "/tmp")
        if r < 0.6:
            names.append("resources/" + ident)
        elif r < 0.8:
            names.append("manifests/" + ident)
        else:
            names.append(rng.choice(["other.txt", "resources/", "manifests/", "resources", ident or "x"]))
    names = list(dict.fromkeys(n for n in names if n and "\x00" not in n))
    buf = io.BytesIO()
    with zipfile.ZipFile(buf, "w", zipfile.ZIP_STORED) as z:
        for k, n in enumerate(names):
            zi = zipfile.ZipInfo(n)
            z.writestr(zi, MANIFEST_JSON if n == "manifest.json" else f"RES-{k}")
    tree, _ = gen_tree(rng, False, force=[[("link", "../outside")]])
    return {"op": "archive", "tree": tree, "base": "root", "rroot": None, "names": names[1:], "zip": buf.getvalue().hex(), "ident": "", "data": ""}


URI_PARTS = ["self#jumbf=", "/c2pa/", "c2pa.assertions/", "c2pa.thumbnail.claim.jpeg", "contentauth:urn:uuid:1234", "..", "../", "/", "a:b",
             "\\", "%2e%2e", ".", "./", "c2pa.databoxes/", "c2pa.data", "//", "x"]
LABELS = [None, "contentauth:urn:uuid:1234", "../../etc", "a:b/../c", "/abs", "l\\m", "", ".", "a/./b", ".."]


def gen_lex_case(rng, i):
    r = rng.random()
    if r < 0.35:
        return {"op": "sanitize", "ident": gen_ident(rng, ["link", "d/up"]).replace("$T", "/tmp")}
    if r < 0.7:
        if rng.random() < 0.5:
            u = "self#jumbf=" + rng.choice(["/c2pa/", "", "/c2pa", "/c2pa//"]) + "".join(rng.choice(URI_PARTS[2:]) for _ in range(rng.randint(1, 4)))
        else:
            u = "".join(rng.choice(URI_PARTS) for _ in range(rng.randint(1, 5)))
        return {"op": "uri_to_path", "ident": u, "label": rng.choice(LABELS)}
    p = ("/" if rng.random() < 0.6 else "") + "/".join(rng.choice(["..", ".", "a", "b", "root", "", "..", "c"]) for _ in range(rng.randint(0, 6)))
    b = rng.choice(["/root", "/a", "/", "/a/b", "a", "", "..", "/a/../b", "../a", "."])
    return {"op": "normalize", "ident": p, "label": b}


def corpus():
    p = os.path.join(common.VERIF, "corpus", "C29.jsonl")
    if not os.path.exists(p):
        return []
    return [json.loads(l) for l in open(p) if l.strip()]


# ------------------------------------------------------------------ independent helpers for the oracle

INSIDE_TOPS = ("root", "realroot", "rootlink", "dest")


def is_inside(c, path):
    """is this tree entry under the (lexical) root of the case, or under the real directory a symlinked root stands for?"""
    root = c.get("rroot") or c["base"]
    roots = [root]
    if root.startswith("rootlink"):
        roots.append("realroot" + root[len("rootlink"):])
    return any(under(r, path) for r in roots)


def outside_variants(c):
    """B: every regular file outside the root removed (directories stay, so that a link that merely passes through an
    outside directory and comes back resolves as before); C: contents of outside files changed"""
    tb = [e for e in c["tree"] if e[1] != "f" or is_inside(c, e[0])]
    tc = [(e if (e[1] != "f" or is_inside(c, e[0])) else [e[0], "f", e[2] + "-CHANGED"]) for e in c["tree"]]
    return tb, tc


def under(root, p):
    return p == root or p.startswith(root + "/")


def follows_escaping_link(c, real_root):
    """independent classification for the known-finding matchers: does the lexical path <base>/<ident> follow a symbolic
    link after which the resolution is (even temporarily) outside the real root?"""
    tree = {tuple(split_path(e[0])): e for e in c["tree"]}
    rr = split_path(real_root) if real_root else split_path(c.get("rroot") or c["base"])
    todo = split_path(c["base"]) + [x for x in (c.get("rels", [None])[-1] if c["op"] == "to_folder" else c["ident"]).split("/") if x not in ("", ".")]
    if c["op"] == "to_folder":
        # any of the exported paths
        return any(follows_escaping_link(dict(c, op="add", ident=r), real_root) for r in c["rels"])
    cur, followed, fuel = [], False, 200
    while todo and fuel:
        fuel -= 1
        x = todo.pop(0)
        if x == "..":
            cur = cur[:-1]
        elif x == "/":
            cur = []
        else:
            e = tree.get(tuple(cur + [x]))
            if e is None:
                break
            if e[1] == "l":
                followed = True
                tg = e[2].replace("$T", "/")
                todo = (["/"] if tg.startswith("/") else []) + [y for y in tg.split("/") if y not in ("", ".")] + todo
            elif e[1] == "f":
                cur = cur + [x]
                break
            else:
                cur = cur + [x]
        if followed and cur[:len(rr)] != rr:
            return True
    return False


def lexically_plain(path):
    parts = path.split("/")
    return path != "" and not path.startswith("/") and "\\" not in path and all(p not in ("", ".", "..") for p in parts)


# ------------------------------------------------------------------ evaluation

def canon_impl(c, r):
    """harness result -> comparable value"""
    op = c["op"]
    if r["r"] in ("panic", "crash"):
        return ("Panic", r.get("msg", "")[:80])
    if op in ("sanitize", "uri_to_path"):
        return ("Some", r["path"]) if r["r"] == "ok" else ("None",)
    if op == "normalize":
        return (r["path"], r["starts_with"])
    if op == "archive":
        return ("Ok", sorted(set(r["ids"]))) if r["r"] == "ok" else ("Err",)
    if op == "resolve":
        return ("Some",) if r["r"] == "ok" else ("None",)
    tch = sorted([("mkdir", p) for p in r["created_dirs"]] + [("write", p) for p, _ in r["created_files"]] +
                 [("write", p) for p, _ in r["modified"]] + [("removed", p) for p in r["removed"]] + [("link", p) for p, _ in r["created_links"]])
    if op in ("get", "write_stream"):
        if r["r"] == "ok":
            o = ("OkData", r["content"])
        elif r["kind"] == "ResourceNotFound":
            o = ("ErrNotFoundId",) if r["payload"] == c["ident"] else ("ErrNotFoundPath",)
        else:
            o = ("Err" + r["kind"].replace("IoError", "Io"),)
    elif op == "exists":
        o = ("OkBool", r["exists"])
    elif op == "path_for_id":
        o = ("OkPath", r["path"] is not None)
    elif op == "resolve":
        o = ("Some",) if r["r"] == "ok" else ("None",)
    else:
        o = ("OkUnit",) if r["r"] == "ok" else ("Err" + r["kind"].replace("IoError", "Io"),)
    return (o, tch)


def canon_model(c, m):
    op = c["op"]
    if op in ("sanitize", "uri_to_path"):
        return ("None",) if m == "None" else ("Some", "/".join(pstr(x) for x in m[1]))
    if op == "normalize":
        return (pcomps(m[0]), m[1] == "true")
    if op == "archive":
        return ("Err",) if m == "None" else ("Ok", sorted(set(pstr(x) for x in m[1])))
    if op == "resolve":
        return ("None",) if m == "None" else ("Some",)
    o, ts = m
    tch = sorted(set([("mkdir", ploc(t[1])) for t in ts if t[0] == "TMkdir"] + [("write", ploc(t[1])) for t in ts if t[0] == "TWrite"]))
    if isinstance(o, list):
        k = o[0]
        if k == "OkData":
            o = ("OkData", pstr(o[1]))
        elif k == "OkBool":
            o = ("OkBool", o[1] == "true")
        elif k == "OkPath":
            o = ("OkPath", o[1] != "None")
    else:
        o = (o,)
    return (o, tch)


def observe(c, r):
    """what the caller of a read-side operation sees (for non-interference)"""
    return json.dumps({k: r.get(k) for k in ("r", "kind", "payload", "content", "exists", "path")}, sort_keys=True)


def evaluate(ctx, cases, with_model=True):
    # expand read-side cases into their outside-variants
    runs = []
    for i, c in enumerate(cases):
        c["id"] = i
        runs.append(dict(c, id=f"{i}"))
        if c["op"] in READ_OPS:
            tb, tc = outside_variants(c)
            runs.append(dict(c, id=f"{i}B", tree=tb))
            runs.append(dict(c, id=f"{i}C", tree=tc))
    hin = [{k: v for k, v in r.items() if k not in ("names", "rels")} for r in runs]
    impl = common.run_harness("c29", hin, env={"TMPDIR": "/tmp"})
    model = None
    if with_model:
        model = common.coq_eval("C29", IMPORTS, [model_expr(c) for c in cases], shard_size=150)
    stats = {"ops": {}, "results": {}, "links_in_tree": 0, "through_link": 0, "writes_observed": 0, "reads_ok": 0,
             "noninterference_pairs": 0, "lexical_accepted": 0}
    distinct = set()
    for i, c in enumerate(cases):
        r = impl[str(i)]
        op = c["op"]
        stats["ops"][op] = stats["ops"].get(op, 0) + 1
        stats["results"][r["r"] + ":" + r.get("kind", "")] = stats["results"].get(r["r"] + ":" + r.get("kind", ""), 0) + 1
        show = {k: v for k, v in c.items() if k not in ("zip", "id")}
        if r["r"] in ("panic", "crash"):
            ctx.report_violation(show, f"implementation panicked: {r.get('msg')}", dict(show, follows_escaping_link=False))
            continue
        if op not in LEX_OPS and op != "archive":
            nl = sum(1 for e in c["tree"] if e[1] == "l")
            stats["links_in_tree"] += 1 if nl else 0
            if nl:
                distinct.add(json.dumps([c["tree"], c["base"], c["rroot"], c["ident"], op]))
        # ---------------- oracle
        if op in ("sanitize", "uri_to_path"):
            if r["r"] == "ok":
                stats["lexical_accepted"] += 1
                if not lexically_plain(r["path"]):
                    ctx.report_violation(show, f"{op} returned {r['path']!r}, which is not a plain relative path (leaves the base lexically)", show)
        elif op == "normalize":
            if r["starts_with"] and c["label"].startswith("/") and ".." in r["path"].split("/") and ".." not in c["label"].split("/"):
                ctx.report_violation(show, f"normalize_lexically({c['ident']!r}) = {r['path']!r} keeps a `..` yet starts_with the base", show)
        else:
            rr = r.get("real_root")
            lexroot = c.get("rroot") or c["base"]
            rootname = rr if rr is not None else lexroot
            mi = dict(show, follows_escaping_link=follows_escaping_link(c, rr), real_root=rr)
            mi.pop("tree", None)
            mi["tree"] = c["tree"]
            changed = [p for p in r["created_dirs"]] + [p for p, _ in r["created_files"]] + [p for p, _ in r["modified"]] + \
                      [p for p in r["removed"]] + [p for p, _ in r["created_links"]]
            stats["writes_observed"] += len(changed)
            # (a) nothing outside the real root is created, modified or removed (creating the missing root itself is inside)
            bad = [p for p in changed if not under(rootname, p) and not (rr is None and under(p, lexroot))]
            if op == "archive" and changed:
                bad = changed
            if bad:
                kind = "modified" if any(p == q for q, _ in r["modified"] for p in bad) else "created"
                ctx.report_violation(show, f"{op} {kind} {bad[0]} outside the manifest root {rootname} (identifier {c['ident']!r})", mi)
            # (b) content of an outside file returned
            src_files = [e[0] for e in c["tree"] if e[1] == "f" and e[2] == r.get("content")]
            if r.get("content") is not None and src_files and not any(is_inside(c, p) for p in src_files):
                ctx.report_violation(show, f"{op} returned the content of a file outside the manifest root: {r['content']!r}", mi)
            if r.get("content") is not None:
                stats["reads_ok"] += 1
            # (c) non-interference for read-side operations
            if op in READ_OPS:
                a = observe(c, r)
                for suffix, what in (("B", "the files outside the root are deleted"), ("C", "the contents of the files outside the root change")):
                    rb = impl[f"{i}{suffix}"]
                    stats["noninterference_pairs"] += 1
                    if observe(c, rb) != a:
                        ctx.report_violation(show, f"{op}({c['ident']!r}) depends on the state outside the manifest root: {a} but {observe(c, rb)} when {what}", mi)
                        break
            if mi["follows_escaping_link"]:
                stats["through_link"] += 1
        # ---------------- correspondence
        if model is not None:
            ci, cm = canon_impl(c, r), canon_model(c, model[i])
            if ci != cm:
                ctx.disagreements.append({"case": show, "impl": ci, "model": cm})
    return stats, len(distinct)


def to_folder_rels():
    """the relative paths Reader::to_folder writes for the fixture, in its order (listed by one clean run)"""
    r = common.run_harness("c29", [{"id": "L", "op": "to_folder", "tree": [], "base": "dest", "dest": "dest"}], env={"TMPDIR": "/tmp"})["L"]
    if r.get("r") != "ok":
        raise TieBroken(f"to_folder on the fixture failed: {r}")
    files = sorted(p[len("dest/"):] for p, _ in r["created_files"])
    rest = [f for f in files if f not in ("manifest_store.json", "manifest_data.c2pa")]
    if len(files) - len(rest) != 2 or len(rest) != 1:
        raise TieBroken(f"to_folder wrote an unexpected file set: {files}")
    return ["manifest_store.json", "manifest_data.c2pa"] + rest


def facts(ctx):
    """anchors of the transcription; a missing anchor is reported as a broken tie and the run goes on"""
    try:
        _facts(ctx)
    except TieBroken as ex:
        if hasattr(ctx, "tie_errors"):
            ctx.tie_errors.append(str(ex))
        else:
            raise


def _facts(ctx):
    # anchors of the transcription
    ps = common.strip_tests(common.src("sdk/src/utils/path_utils.rs"))
    body = common.fn_body(ps, r"pub\(crate\)\s+fn\s+sanitize_archive_path\s*\(", "sanitize_archive_path")
    for rx, what in ((r"path\.is_empty\(\)", "empty test"), (r"path\.contains\('\\\\'\)", "backslash test"),
                     (r"Component::CurDir\s*=>\s*\{\s*\}", "CurDir dropped"),
                     (r"Component::RootDir\s*\|\s*Component::Prefix\(_\)\s*\|\s*Component::ParentDir\s*=>\s*\{\s*return\s+Err", "traversal rejected"),
                     (r"sanitized\.is_empty\(\)", "empty result test")):
        if not __import__("re").search(rx, body):
            raise TieBroken(f"srcfacts: sanitize_archive_path: {what} not found; re-transcribe Model/FsPaths.v")
    rs = common.strip_tests(common.src("sdk/src/resource_store.rs"))
    import re
    rb = common.fn_body(rs, r"fn\s+resolve_within_root\s*\(", "resolve_within_root")
    for rx, what in ((r"path\.is_empty\(\)", "empty"), (r"path\.contains\('\\\\'\)", "backslash"), (r"Path::new\(path\)\.is_absolute\(\)", "absolute"),
                     (r"normalize_lexically\(&joined\)\.starts_with\(normalize_lexically\(root\)\)", "lexical containment"),
                     (r"if\s+let\s+Ok\(canonical_target\)\s*=\s*joined\.canonicalize\(\)", "canonical containment"),
                     (r"canonical_target\.starts_with\(&canonical_root\)", "canonical prefix test")):
        if not re.search(rx, rb):
            raise TieBroken(f"srcfacts: resolve_within_root: {what} test not found; re-transcribe Model/FsPaths.v")
    ab = common.fn_body(rs, r"pub\s+fn\s+add\s*<", "ResourceStore::add")
    if not re.search(r"sanitize_archive_path\(&id\.into\(\)\)\?;\s*let\s+path\s*=\s*base\.join\(&sanitized_id\);(\s*//[^\n]*)*\s*create_dir_all\(base\)\?;\s*"
                     r"let\s+root\s*=\s*self\.resource_root\.as_deref\(\)\.unwrap_or\(base\);\s*ensure_real_parent_within_root\(root,\s*&path\)\?;\s*"
                     r"create_dir_all\(path\.parent\(\)\.unwrap_or\(Path::new\(\"\"\)\)\)\?;\s*write\(path,", ab):
        raise TieBroken("srcfacts: ResourceStore::add no longer is sanitize; join; create_dir_all(base); ensure_real_parent_within_root; "
                        "create_dir_all(parent); write - re-transcribe `add` in Model/FsPaths.v")
    if not re.search(r"\}\s*else\s*\{(\s*//[^\n]*)*\s*ensure_real_parent_within_root\(root,\s*&joined\)\?;\s*\}", rb):
        raise TieBroken("srcfacts: resolve_within_root: the missing-target branch no longer calls ensure_real_parent_within_root")
    eb = common.fn_body(rs, r"fn\s+ensure_real_parent_within_root\s*\(", "ensure_real_parent_within_root")
    for rx, what in ((r"path\s*\.symlink_metadata\(\)\s*\.map\(\|m\|\s*m\.file_type\(\)\.is_symlink\(\)\)\s*\.unwrap_or\(false\)", "final-component symlink test"),
                     (r"let\s+canonical_root\s*=\s*root\.canonicalize\(\)\?;", "canonical root"),
                     (r"let\s+mut\s+ancestor\s*=\s*path\.parent\(\);", "ancestor walk"),
                     (r"if\s+dir\.symlink_metadata\(\)\.is_ok\(\)", "deepest existing ancestor (lstat)"),
                     (r"Ok\(real\)\s+if\s+real\.starts_with\(&canonical_root\)\s*=>\s*Ok\(\(\)\)", "ancestor containment"),
                     (r"ancestor\s*=\s*dir\.parent\(\);", "ancestor step")):
        if not re.search(rx, eb):
            raise TieBroken(f"srcfacts: ensure_real_parent_within_root: {what} not found; re-transcribe Model/FsPaths.v")
    ub = common.fn_body(common.strip_tests(common.src("sdk/src/utils/io_utils.rs")), r"pub\s+fn\s+uri_to_path\s*\(", "uri_to_path")
    for rx, what in ((r"uri\.replace\(':',\s*\"_\"\)", "colon replacement"), (r"strip_prefix\(\"self#jumbf=\"\)", "self#jumbf= prefix"),
                     (r"strip_prefix\(\"/c2pa/\"\)", "/c2pa/ prefix"), (r"sanitize_archive_path\(&path_str\)", "final sanitisation")):
        if not re.search(rx, ub):
            raise TieBroken(f"srcfacts: uri_to_path: {what} not found; re-transcribe Model/FsPaths.v")
    nb = common.fn_body(rs, r"fn\s+normalize_lexically\s*\(", "normalize_lexically")
    for rx, what in ((r"Component::CurDir\s*=>\s*\{\s*\}", "CurDir skipped"), (r"Some\(Component::Normal\(_\)\)\s*=>\s*\{\s*out\.pop\(\);", "pop of a normal segment"),
                     (r"Some\(Component::RootDir\s*\|\s*Component::Prefix\(_\)\)\s*=>\s*\{\s*\}", "`..` at the root dropped"), (r"_\s*=>\s*out\.push\(\"\.\.\"\)", "leading `..` kept")):
        if not re.search(rx, nb):
            raise TieBroken(f"srcfacts: normalize_lexically: {what} not found; re-transcribe Model/FsPaths.v")
    tf = common.fn_body(common.strip_tests(common.src("sdk/src/reader.rs")), r"pub\s+fn\s+to_folder\s*<", "Reader::to_folder")
    if not re.search(r"let\s+file_path\s*=\s*path\.as_ref\(\)\.join\(rel_path\);", tf) or not re.search(r"uri_to_path\(&uri,\s*Some\(claim_label\)\)", tf):
        raise TieBroken("srcfacts: Reader::to_folder no longer joins uri_to_path(..) to the folder; re-transcribe Model/FsPaths.v")
    ctx.facts = {"add_checks_real_parent": True}


def build_cases(ctx, n_fs, n_tf, n_ar, n_lex):
    rels = to_folder_rels()
    cases = []
    for c in corpus():
        if c.get("op") == "to_folder":
            c = gen_to_folder_case(ctx.rng, 0, rels) if "rels" not in c else c
            lab = split_path(rels[-1])[0]
            c["tree"] = [[e[0].replace("$LABEL", lab)] + e[1:] for e in c["tree"]]
            c["rels"] = rels
        cases.append(c)
    cases += [gen_fs_case(ctx.rng, i) for i in range(n_fs)]
    cases += [gen_to_folder_case(ctx.rng, i, rels) for i in range(n_tf)]
    cases += [gen_archive_case(ctx.rng, i) for i in range(n_ar)]
    cases += [gen_lex_case(ctx.rng, i) for i in range(n_lex)]
    return cases


def run(ctx):
    if not getattr(ctx, "no_build", False):
        common.build_harness()
    if ctx.replay:
        cases = [ctx.replay["case"]] if "case" in ctx.replay else [d["case"] for d in ctx.replay.get("disagreements", [])]
    elif ctx.quick():
        cases = build_cases(ctx, 600, 45, 45, 400)
    else:
        cases = build_cases(ctx, 9000, 400, 500, 5000)
    stats, distinct = evaluate(ctx, cases)
    ctx.coverage.update({
        "evaluations": len(cases), "distinct_nontrivial": distinct,
        "rule": "corpus + seeded cases: random trees (menu of inside/outside/chained/dangling/looping/absolute links + random links) x identifiers "
                "from a traversal grammar x operations; each read-side case is run three times (as is / outside files deleted / outside files changed); "
                "non-trivial = the tree contains a symbolic link; distinct by (tree, base, root, identifier, operation)",
        "distribution": stats,
        "samples": [{k: (v if k != "tree" else [e for e in v if e[1] == "l"]) for k, v in c.items() if k not in ("zip", "id", "rels")}
                    for c in cases[:2] + cases[len(cases) // 3: len(cases) // 3 + 2]],
    })


def search(ctx):
    common.build_harness()
    cases = build_cases(ctx, 6000, 200, 200, 2000)
    evaluate(ctx, cases, with_model=False)
    ctx.coverage["search_evaluations"] = len(cases)
