"""C34 — JUMBF URIs and manifest labels parse back to their parts."""
import json, os, re
from .. import common
from ..common import TieBroken, coq_list

PROP_FILE = "Properties/C34.v"
TRUSTED = ["&str operations modelled on UTF-8 bytes (all separators are ASCII); char::is_whitespace restricted to ASCII because the "
           "same test requires is_ascii; usize is 64-bit",
           "hooks in sdk/src/verif_hooks/c34.rs only forward to jumbf::labels::* and Claim::{label_with_instance, assertion_label_from_link}"]
ASSUMPTIONS = ["64-bit usize"]

USIZE = 1 << 64


def coq_str(s):
    if isinstance(s, str) and all(32 <= ord(ch) < 127 for ch in s):
        return '(b "%s")' % s.replace('"', '""')          # string literals parse much faster than numeral lists
    bs = s.encode("utf-8") if isinstance(s, str) else s
    return "[" + ";".join(str(x) for x in bs) + "]%N"


def coq_nums(s):
    return "[" + ";".join(str(x) for x in s.encode("utf-8")) + "]%N"


# ------------------------------------------------------------------ facts

LABEL_CONSTS = ["MANIFEST_STORE", "ASSERTIONS", "CLAIM", "SIGNATURE", "CREDENTIALS", "DATABOX", "DATABOXES", "JUMBF_PREFIX"]


def literals(body):
    body = re.sub(r"//[^\n]*", "", body)
    return sorted(set(re.findall(r'"((?:[^"\\]|\\.)*)"', body)))


def facts(ctx):
    t = common.strip_tests(common.src("sdk/src/jumbf/labels.rs"))
    vals = {}
    for n in LABEL_CONSTS:
        vals[n] = common.fact(r"(?:pub\s+)?const\s+" + n + r'\s*:\s*&str\s*=\s*"([^"]*)";', t, n).group(1)
    al = common.src("sdk/src/assertions/labels.rs")
    for n in ("CLAIM_THUMBNAIL", "INGREDIENT_THUMBNAIL"):
        vals[n] = common.fact(r"pub\s+const\s+" + n + r'\s*:\s*&str\s*=\s*"([^"]*)";', al, n).group(1)
    # the string and character literals each helper works with (pinned; a change means the model must be re-read)
    pinned = {
        r"fn\s+to_manifest_uri\s*\(": ["{JUMBF_PREFIX}=/{MANIFEST_STORE}/{manifest_label}"],
        r"fn\s+to_assertion_uri\s*\(": ["{}/{}/{}"],
        r"fn\s+to_signature_uri\s*\(": ["{}/{}"],
        r"fn\s+to_databox_uri\s*\(": ["{}/{}/{}"],
        r"fn\s+to_normalized_uri\s*\(": ["/", "{}{}"],
        r"fn\s+to_absolute_uri\s*\(": ["{}/{}"],
        r"fn\s+to_relative_uri\s*\(": ["/", "{}={}"],
        r"fn\s+manifest_label_from_uri\s*\(": [],
        r"fn\s+assertion_label_from_uri\s*\(": [],
        r"fn\s+manifest_label_to_parts\s*\(": [":", "_", "c2pa", "urn", "uuid"],
        r"impl\s+Display\s+for\s+ManifestParts": ["urn:c2pa:{}", "urn:uuid:{}", "{mp}", "{mp}:{vendor}", "{mp}:{version}", "{mp}::{version}",
                                                   "{mp}_{reason}", "{}:urn:uuid:{}"],
    }
    for sig, want in pinned.items():
        got = literals(common.fn_body(t, sig, sig))
        if got != sorted(want):
            raise TieBroken(f"srcfacts: string literals of {sig} changed: {got} (pinned {sorted(want)})")
    chars = {r"fn\s+to_normalized_uri\s*\(": ["'/'", "'='"], r"fn\s+manifest_label_from_uri\s*\(": ["'/'"],
             r"fn\s+assertion_label_from_uri\s*\(": ["'/'"], r"fn\s+to_relative_uri\s*\(": ["'/'"], r"fn\s+to_absolute_uri\s*\(": ["'/'"]}
    for sig, want in chars.items():
        got = sorted(set(re.findall(r"'[^'\\]'", re.sub(r"//[^\n]*", "", common.fn_body(t, sig, sig)))))
        if got != sorted(want):
            raise TieBroken(f"srcfacts: character literals of {sig} changed: {got}")
    mp = common.fn_body(t, r"fn\s+manifest_label_to_parts\s*\(", "manifest_label_to_parts")
    m = common.fact(r"parts\[3\]\.len\(\)\s*>\s*(\d+)", mp, "vendor length limit")
    vendor_max = int(m.group(1))
    cl = common.strip_tests(common.src("sdk/src/claim.rs"))
    for sig, want in {r"pub\s+fn\s+label_with_instance\s*\(": ["{label}__{instance}", "{output_label}.{image_type}", "{}__{}"],
                      r"pub\s+fn\s+assertion_label_from_link\s*\(": ["__", "{}.{}"]}.items():
        got = literals(common.fn_body(cl, sig, sig))
        if got != sorted(want):
            raise TieBroken(f"srcfacts: string literals of claim.rs {sig} changed: {got}")
    asr = common.src("sdk/src/assertion.rs")
    for sig, want in {r"pub\s+fn\s+get_thumbnail_type\s*\(": ["none"], r"pub\s+fn\s+get_thumbnail_image_type\s*\(": ["thumbnail"],
                      r"pub\s+fn\s+get_thumbnail_instance\s*\(": ["__"]}.items():
        got = literals(common.fn_body(asr, sig, sig))
        if got != sorted(want):
            raise TieBroken(f"srcfacts: string literals of assertion.rs {sig} changed: {got}")
    out = ["(* generated from sdk/src/jumbf/labels.rs and sdk/src/assertions/labels.rs on every run — do not edit *)",
           "From Coq Require Import NArith List.", "Import ListNotations.", "Open Scope N_scope.", ""]
    for n, v in vals.items():
        out.append(f"Definition {n} : list N := {coq_nums(v)}.   (* \"{v}\" *)")
    out.append(f"Definition VENDOR_MAX : N := {vendor_max}.")
    common.write_if_changed(os.path.join(common.COQ, "Generated", "C34_facts.v"), "\n".join(out) + "\n")
    ctx.facts = dict(vals, VENDOR_MAX=vendor_max)


# ------------------------------------------------------------------ oracle helpers (property text / quantifier)

def clean(s):
    return "/" not in s and "=" not in s


def wf_vendor_v2(v):
    return (0 < len(v.encode()) <= 32 and v.isascii() and len(v.split()) == 1 and ":" not in v and "/" not in v)


def wf_parts(c):
    """the labels the SDK can generate: v1 [vendor:]urn:uuid:guid, v2 urn:c2pa:guid[:vendor][:version[_reason]]"""
    g, cgi = c["guid"], c["cgi"]
    if ":" in g or "/" in g:
        return False
    ver = None if c["version"] is None else int(c["version"])
    rea = None if c["reason"] is None else int(c["reason"])
    if c["v1"]:
        return ver is None and rea is None and (cgi is None or (":" not in cgi and "/" not in cgi and cgi != "urn"))
    if cgi is not None and not wf_vendor_v2(cgi):
        return False
    if rea is not None and ver is None:
        return False
    return all(x is None or 0 <= x < USIZE for x in (ver, rea))


ING_THUMB = "c2pa.thumbnail.ingredient"


def wf_inst_label(l):
    """assertion labels as the SDK writes them (before the instance suffix is attached)"""
    if not clean(l) or "__" in l or l.endswith("_"):
        return False
    if l.startswith(ING_THUMB):
        rest = l[len(ING_THUMB):]
        if rest == "":
            return True
        t = rest[1:]
        return rest[0] == "." and t != "" and all(ch not in t for ch in "._") and t == t.lower() and t.isascii()
    return True


# ------------------------------------------------------------------ generation

HEX = "0123456789abcdef"
VENDOR_CH = "abcdefghijklmnopqrstuvwxyz0123456789_.-"
ASSERTION_LABELS = ["c2pa.actions", "c2pa.actions.v2", "c2pa.hash.data", "c2pa.hash.bmff.v3", "c2pa.ingredient", "c2pa.ingredient.v3",
                    "c2pa.thumbnail.claim.jpeg", "c2pa.thumbnail.claim", "stds.schema-org.CreativeWork", "com.adobe.generative_ai",
                    "c2pa.soft_binding", "org.contentauth.test_1", "cawg.identity", "c2pa.metadata", "x", "a_b_c"]
THUMBS = [ING_THUMB, ING_THUMB + ".jpeg", ING_THUMB + ".png", ING_THUMB + ".svg", ING_THUMB + ".webp"]
BAD_LABELS = ["a_", "a__b", "a__3", "__", "_", "", "a/b", "a=b", ING_THUMB + "_1.jpg", ING_THUMB + ".JPEG", ING_THUMB + ".a_b", ING_THUMB + "x",
              ING_THUMB + ".", ING_THUMB + ".jpeg.v2", ING_THUMB + "__2.png", "c2pa.thumbnail.ingredien", "c2pa.thumbnail.claim__4", "é__1", "thumbnail.a.b.c"]
NUMS = [0, 1, 2, 3, 9, 10, 11, 99, 100, 255, 1000, 65535, 4294967295, 4294967296, USIZE - 1, 10 ** 19, 12345678901234567890]


def guid(rng):
    r = rng.random()
    if r < 0.7:
        h = "".join(rng.choice(HEX) for _ in range(32))
        return f"{h[:8]}-{h[8:12]}-{h[12:16]}-{h[16:20]}-{h[20:]}"
    if r < 0.85:
        return "".join(rng.choice("abcXYZ019-_. ") for _ in range(rng.randrange(0, 12)))
    return rng.choice(["", "urn", "uuid", "c2pa", "a:b", "a/b", "x/c2pa/y", "a=b", "é", "1_2", "c2pa/x"])


def vendor(rng, adversarial):
    if adversarial:
        return rng.choice(["urn", "", "a b", " a", "a ", "a\tb", "x" * 33, "x" * 32, "é", "a:b", "a/b", "a=b", "uuid", "c2pa", " ", "A", "a b", "1", "+1", "_"])
    return "".join(rng.choice(VENDOR_CH) for _ in range(rng.choice([1, 2, 4, 4, 8, 16, 31, 32])))


def num(rng):
    return rng.choice(NUMS) if rng.random() < 0.6 else rng.randrange(0, rng.choice([20, 1000, 1 << 32, USIZE]))


def gen_parts(rng, adversarial):
    v1 = rng.random() < 0.35
    cgi = None if rng.random() < 0.4 else vendor(rng, adversarial and rng.random() < 0.6)
    ver = rea = None
    if not v1 or (adversarial and rng.random() < 0.3):
        if rng.random() < 0.6:
            ver = num(rng)
            if rng.random() < 0.5:
                rea = num(rng)
        elif adversarial and rng.random() < 0.3:
            rea = num(rng)
    g = guid(rng) if adversarial else guid(type("R", (), {"random": lambda s: 0.0, "choice": rng.choice})())
    return {"k": "parts", "guid": g, "v1": v1, "cgi": cgi, "version": None if ver is None else str(ver), "reason": None if rea is None else str(rea)}


def show(c):
    """reference rendering of a label from its parts (used only to seed parse/uri cases)"""
    if c["v1"]:
        return (c["cgi"] + ":" if c["cgi"] is not None else "") + "urn:uuid:" + c["guid"]
    s = "urn:c2pa:" + c["guid"]
    if c["cgi"] is not None:
        s += ":" + c["cgi"]
    if c["version"] is not None:
        s += (":" if c["cgi"] is not None else "::") + c["version"]
        if c["reason"] is not None:
            s += "_" + c["reason"]
    return s


TOK = ["urn", "uuid", "c2pa", "", "acme", "1", "0", "007", "1_2", "+3", "-1", "1_", "_2", "1_2_3", "1__2", "18446744073709551615", "18446744073709551616",
       "+", "a b", " a", "é", "x" * 33, "x" * 32, "1e3", "0x10", " 1", "1 ", "٣", "99999999999999999999999999", "+0_+0"]


def gen_parse(rng):
    r = rng.random()
    if r < 0.5:
        s = ":".join(rng.choice(TOK) for _ in range(rng.randrange(1, 8)))
    elif r < 0.8:
        s = rng.choice(["urn:c2pa:", "urn:uuid:", "v:urn:uuid:", "urn:c2pa:g:v:", "urn:c2pa:g::"]) + ":".join(rng.choice(TOK) for _ in range(rng.randrange(0, 4)))
    else:
        s = show(gen_parts(rng, rng.random() < 0.5))
    if rng.random() < 0.25:
        s = rng.choice(["self#jumbf=/c2pa/%s", "self#jumbf=/c2pa/%s/c2pa.assertions/x", "/c2pa/%s/c2pa.signature", "c2pa/%s", "self#jumbf=%s", "x=/c2pa/%s=y", "%s/c2pa/urn:c2pa:other"]) % s
    return {"k": "parse", "s": s}


def gen_label(rng):
    r = rng.random()
    if r < 0.6:
        return show(gen_parts(rng, False))
    if r < 0.8:
        return show(gen_parts(rng, True))
    return rng.choice(["", "c2pa", "m", "a/b", "a=b", "c2pa/x", "urn:c2pa:x/c2pa/y", "é", "self#jumbf", "c2pa.assertions"])


def gen_alabel(rng):
    r = rng.random()
    base = rng.choice(ASSERTION_LABELS) if r < 0.55 else rng.choice(THUMBS) if r < 0.75 else rng.choice(BAD_LABELS)
    return base


def gen_uri(rng):
    a = gen_alabel(rng)
    if rng.random() < 0.4:
        a += "__" + str(rng.choice([1, 2, 3, 10, 0]))
    return {"k": "uri", "m": gen_label(rng), "a": a}


COMP = ["", "c2pa", "c2pa.assertions", "c2pa.databoxes", "c2pa.signature", "c2pa.credentials", "c2pa.claim", "x", "a__1", "a__b", "a__1__2",
        ING_THUMB + "__2.png", ING_THUMB, ING_THUMB + ".jpeg", "urn:c2pa:abc", "urn:uuid:abc", "c2pa.hash.data", "a=b", "=", "é__3", "c2pa.thumbnail.claim.png", "a___7", "a__+7", "a__07"]


def gen_str(rng):
    n = rng.randrange(0, 7)
    u = "/".join(rng.choice(COMP) for _ in range(n))
    r = rng.random()
    if r < 0.5:
        u = "self#jumbf=" + u
    elif r < 0.6:
        u = "self#jumbf=/" + u
    elif r < 0.65:
        u = "=" + u
    return {"k": "str", "m": gen_label(rng), "u": u}


def gen_inst(rng):
    r = rng.random()
    l = rng.choice(ASSERTION_LABELS) if r < 0.5 else rng.choice(THUMBS) if r < 0.75 else rng.choice(BAD_LABELS)
    return {"k": "inst", "m": gen_label(rng), "label": l, "n": str(num(rng) if rng.random() < 0.7 else rng.choice([0, 1, 2, 3]))}


def corpus():
    p = os.path.join(common.VERIF, "corpus", "C34.jsonl")
    if not os.path.exists(p):
        return []
    return [json.loads(l) for l in open(p) if l.strip()]


# ------------------------------------------------------------------ model expressions and result conversion

IMPORTS = ("From C2PA Require Import Base.Bytes Model.ByteStr Generated.C34_facts Model.Labels.\n"
           "From Coq Require Import NArith List String.\nImport ListNotations.\nOpen Scope N_scope.\n")


def opt(x, f=lambda v: v):
    return "None" if x is None else f"(Some {f(x)})"


def model_expr(c):
    k = c["k"]
    if k == "parts":
        return "run_parts (MP %s %s %s %s %s)" % (coq_str(c["guid"]), "true" if c["v1"] else "false", opt(c["cgi"], coq_str),
                                                 opt(c["version"]), opt(c["reason"]))
    if k == "parse":
        return f"manifest_label_to_parts {coq_str(c['s'])}"
    if k == "uri":
        return f"run_uri {coq_str(c['m'])} {coq_str(c['a'])}"
    if k == "str":
        return f"parse_all {coq_str(c['m'])} {coq_str(c['u'])}"
    return f"run_inst {coq_str(c['m'])} {coq_str(c['label'])} {c['n']}"


def s_(t):
    return bytes(t).decode("utf-8", errors="surrogateescape") if isinstance(t, list) else None


def o_(t, f=s_):
    return None if t == "None" else f(t[1])


def parts_(t):
    if t == "None":
        return None
    p = t[1]
    return [s_(p["guid"]), p["is_v1"] == "true", o_(p["cgi"]), o_(p["version"], str), o_(p["reason"], str)]


def parsed_(t):
    norm, ab, rel, man, asrt, box, link = t
    return {"norm": s_(norm), "abs": s_(ab), "rel": s_(rel), "man": o_(man), "asrt": o_(asrt), "box": o_(box), "link": [s_(link[0]), str(link[1])]}


def conv(c, t):
    k = c["k"]
    if k == "parts":
        return {"label": s_(t[0]), "parsed": parts_(t[1]), "parsed_uri": parts_(t[2])}
    if k == "parse":
        return {"parsed": parts_(t)}
    if k == "uri":
        return {"built": [s_(x) for x in t[0]], "parsed": [parsed_(x) for x in t[1]], "back": [s_(x) for x in t[2]]}
    if k == "str":
        return parsed_(t)
    return {"li": s_(t[0]), "bare": [s_(t[1][0]), str(t[1][1])], "in_uri": [s_(t[2][0]), str(t[2][1])]}


# ------------------------------------------------------------------ evaluation

def evaluate(ctx, cases, with_model=True):
    for i, c in enumerate(cases):
        c["id"] = i
    impl = common.run_harness("c34", cases)
    model = None
    if with_model:
        model = common.coq_eval("C34", IMPORTS, [model_expr(c) for c in cases], shard_size=max(50, (len(cases) + (7 if len(cases) < 5000 else 15)) // (8 if len(cases) < 5000 else 16)), timeout=3000)
    stats = {"kinds": {}, "wf_parts": 0, "parts_v1": 0, "parts_v2": 0, "with_vendor": 0, "with_version": 0, "with_reason": 0,
             "clean_uri": 0, "wf_inst": 0, "inst_nonzero": 0, "thumbnail_inst": 0, "parse_some": 0, "parse_none": 0, "unspecified": 0}
    distinct = set()
    for idx, c in enumerate(cases):
        r = dict(impl[c["id"]])
        k = c["k"]
        stats["kinds"][k] = stats["kinds"].get(k, 0) + 1
        mi = dict(c)
        if r["r"] in ("panic", "crash"):
            ctx.report_violation(c, f"implementation panicked: {r.get('msg')}", mi)
            continue
        rid = r.pop("id", None)
        r.pop("r", None)
        # ---- oracle
        if k == "parts":
            want = [c["guid"], c["v1"], c["cgi"], c["version"], c["reason"]]
            if wf_parts(c):
                stats["wf_parts"] += 1
                stats["parts_v1" if c["v1"] else "parts_v2"] += 1
                stats["with_vendor"] += c["cgi"] is not None
                stats["with_version"] += c["version"] is not None
                stats["with_reason"] += c["reason"] is not None
                distinct.add(json.dumps(want))
                if r["parsed"] != want:
                    ctx.report_violation(c, f"label {r['label']!r} built from {want} parses back to {r['parsed']}", mi)
                elif clean(r["label"]) and r["parsed_uri"] != want:
                    ctx.report_violation(c, f"manifest URI of label {r['label']!r} parses back to {r['parsed_uri']}, not {want}", mi)
            else:
                stats["unspecified"] += 1
        elif k == "uri":
            if clean(c["m"]) and clean(c["a"]):
                stats["clean_uri"] += 1
                distinct.add(json.dumps([c["m"], c["a"]]))
                names = ["manifest", "assertion", "signature", "databox", "credential"]
                for j, p in enumerate(r["parsed"]):
                    if p["man"] != c["m"]:
                        ctx.report_violation(c, f"{names[j]} URI {r['built'][j]!r} yields manifest label {p['man']!r}, built from {c['m']!r}", mi)
                for j in (1, 3):
                    if r["parsed"][j]["asrt"] != c["a"]:
                        ctx.report_violation(c, f"{names[j]} URI {r['built'][j]!r} yields label {r['parsed'][j]['asrt']!r}, built from {c['a']!r}", mi)
            else:
                stats["unspecified"] += 1
        elif k == "inst":
            n = int(c["n"])
            if wf_inst_label(c["label"]) and n < USIZE:
                stats["wf_inst"] += 1
                stats["inst_nonzero"] += n > 0
                stats["thumbnail_inst"] += c["label"].startswith(ING_THUMB)
                distinct.add(json.dumps([c["label"], n]))
                if r["bare"] != [c["label"], str(n)]:
                    ctx.report_violation(c, f"label {c['label']!r} instance {n} written as {r['li']!r} reads back as {r['bare']}", mi)
                elif clean(c["m"]) and r["in_uri"] != [c["label"], str(n)]:
                    ctx.report_violation(c, f"label {c['label']!r} instance {n} inside an assertion URI reads back as {r['in_uri']}", mi)
            else:
                stats["unspecified"] += 1
        elif k == "parse":
            stats["parse_some" if r["parsed"] is not None else "parse_none"] += 1
        # ---- correspondence
        if model is not None:
            try:
                mo = conv(c, model[idx])
            except Exception as ex:      # unparsable model output is a disagreement, not a crash
                mo = {"unparsable": repr(ex)[:200]}
            if mo != r:
                diff = {kk: (r.get(kk), mo.get(kk)) for kk in set(r) | set(mo) if r.get(kk) != mo.get(kk)}
                ctx.disagreements.append({"case": c, "impl_vs_model": json.loads(json.dumps(diff, default=str))})
    return stats, len(distinct)


def build_cases(ctx, n):
    rng = ctx.rng
    cases = corpus()
    cases += [gen_parts(rng, i % 3 == 0) for i in range(n * 3)]
    cases += [gen_parse(rng) for _ in range(n * 2)]
    cases += [gen_uri(rng) for _ in range(n * 2)]
    cases += [gen_str(rng) for _ in range(n * 2)]
    cases += [gen_inst(rng) for _ in range(n * 2)]
    # every listed assertion label with small instance numbers
    cases += [{"k": "inst", "m": "urn:c2pa:abc", "label": l, "n": str(i)} for l in ASSERTION_LABELS + THUMBS + BAD_LABELS for i in (0, 1, 12)]
    return cases


def run(ctx):
    if not getattr(ctx, "no_build", False):
        common.build_harness()
    if ctx.replay:
        cases = [ctx.replay["case"]] if "case" in ctx.replay else [d["case"] for d in ctx.replay.get("disagreements", [])]
    else:
        cases = build_cases(ctx, 100 if ctx.quick() else 1500)
    stats, distinct = evaluate(ctx, cases)
    ctx.coverage.update({
        "evaluations": len(cases), "distinct_nontrivial": distinct,
        "rule": "corpus + seeded cases of five kinds: label parts (2/3 SDK-shaped: uuid GUIDs, vendors of the valid charset/length, versions, reasons up to "
                "2^64-1; 1/3 adversarial), raw strings given to the label parser, URI builders x parsers on (manifest label, assertion label), raw "
                "strings given to every URI parser/converter, labels with instance numbers; non-trivial = inside the property's quantifier "
                "(well-formed parts / labels free of '/' and '=' / SDK-shaped assertion labels); distinct by input",
        "distribution": stats, "traces_validated_against_impl": len(cases),
        "samples": [{k: v for k, v in c.items() if k != "id"} for c in cases[:1] + cases[len(cases) // 5::max(1, len(cases) // 5)][:5]],
    })


def search(ctx):
    common.build_harness()
    cases = build_cases(ctx, 3000)
    evaluate(ctx, cases, with_model=False)
    ctx.coverage["search_evaluations"] = len(cases)
