"""Shared by C36 / C37: a small PKI (signing credentials, time-stamp authorities, OCSP responders) made with the openssl CLI
through vlib/x509gen.py (cached under /verif/.build/x509/<script hash>/, absolute validity dates), and OCSP responses made
with `openssl ocsp -index ... -rsigner ...` (cached under /verif/.build/c37/<script hash>/).  Nothing is written to /tmp."""
import calendar, hashlib, json, os, subprocess, time

from .. import common, x509gen as X

_SELF = hashlib.sha256(open(__file__, "rb").read()).hexdigest()[:12]
OCSP_ROOT = os.path.join(common.BUILD, "c37", _SELF)

CA_EXT = ["basicConstraints=critical,CA:TRUE", "keyUsage=critical,keyCertSign,cRLSign", "subjectKeyIdentifier=hash",
          "authorityKeyIdentifier=keyid:always"]
EE_EXT = ["basicConstraints=critical,CA:FALSE", "keyUsage=critical,digitalSignature", "extendedKeyUsage=emailProtection",
          "subjectKeyIdentifier=hash", "authorityKeyIdentifier=keyid:always"]
TSA_EXT = ["basicConstraints=critical,CA:FALSE", "keyUsage=critical,digitalSignature", "extendedKeyUsage=critical,timeStamping",
           "subjectKeyIdentifier=hash", "authorityKeyIdentifier=keyid:always"]
OCSP_EXT = ["basicConstraints=critical,CA:FALSE", "keyUsage=critical,digitalSignature", "extendedKeyUsage=OCSPSigning",
            "subjectKeyIdentifier=hash", "authorityKeyIdentifier=keyid:always", "noCheck=ignored"]


def ep(s):
    """'YYYYMMDDhhmmssZ' -> epoch seconds"""
    return calendar.timegm(time.strptime(s, "%Y%m%d%H%M%SZ"))


def gt(epoch):
    return time.strftime("%Y%m%d%H%M%SZ", time.gmtime(epoch))


def utc(epoch):
    return time.strftime("%y%m%d%H%M%SZ", time.gmtime(epoch))


# ------------------------------------------------------------------ certificate specs

ROOT = {"cn": "TS Root", "org": "Verif C36", "key": ["p256", "c36-root"], "issuer": None, "ext": CA_EXT}
INTER = {"cn": "TS Issuing CA", "org": "Verif C36", "key": ["p256", "c36-int"], "issuer": ROOT, "ext": CA_EXT}
ROOT2 = {"cn": "Other Root", "org": "Verif C36 other", "key": ["p256", "c36-root2"], "issuer": None, "ext": CA_EXT}
INTER2 = {"cn": "Other Issuing CA", "org": "Verif C36 other", "key": ["p256", "c36-int2"], "issuer": ROOT2, "ext": CA_EXT}

CRED_WINDOWS = {
    "valid": ("20240101000000Z", "20350101000000Z"),
    "expired": ("20240101000000Z", "20250101000000Z"),
    "notyet": ("20310101000000Z", "20350101000000Z"),
}
TSA_DEFS = {
    # kind: (key kind, issuer, validity, extensions)
    "ok": ("rsa2048", INTER, ("20200101000000Z", "20450101000000Z"), TSA_EXT),
    "ec": ("p256", INTER, ("20200101000000Z", "20450101000000Z"), TSA_EXT),
    "old": ("rsa2048", INTER, ("20230101000000Z", "20250601000000Z"), TSA_EXT),
    "future": ("rsa2048", INTER, ("20300101000000Z", "20310101000000Z"), TSA_EXT),
    "untrusted": ("rsa2048", INTER2, ("20200101000000Z", "20450101000000Z"), TSA_EXT),
    "badeku": ("rsa2048", INTER, ("20200101000000Z", "20450101000000Z"), EE_EXT),
}


AIA_URL = "http://ocsp.verif.invalid/"


def cred_spec(kind, tag="", aia=False):
    """aia: the certificate names an OCSP responder (authorityInfoAccess), so that the builder can fetch its status"""
    return {"cn": f"Signer {kind}{tag}", "org": "Verif C36", "key": ["p256", f"c36-ee-{kind}{tag}"], "issuer": INTER,
            "ext": EE_EXT + ([f"authorityInfoAccess=OCSP;URI:{AIA_URL}"] if aia else []), "validity": CRED_WINDOWS[kind]}


def tsa_spec(kind):
    k, iss, val, ext = TSA_DEFS[kind]
    return {"cn": f"TSA {kind}", "org": iss["org"], "key": [k, f"c36-tsa-{kind}"], "issuer": iss, "ext": ext, "validity": val}


def der_hex(spec):
    return X.pem_to_der(X.read(X.cert(spec))).hex()


def issuer_and_serial(spec):
    """(issuer Name DER, serialNumber INTEGER DER) of a certificate, by walking its TBSCertificate"""
    der = X.pem_to_der(X.read(X.cert(spec)))
    t, h, l = X.tlv(der)
    tbs = X.children(der[h:h + l])[0][1]
    t, h, l = X.tlv(tbs)
    f = X.children(tbs[h:h + l])
    i = 1 if f[0][0] == 0xA0 else 0        # [0] version, serial, sigalg, issuer
    return f[i + 2][1], f[i][1]


def cred(kind, tag="", aia=False):
    s = cred_spec(kind, tag, aia)
    nb, na = CRED_WINDOWS[kind]
    return {"kind": kind, "chain": [X.read(X.cert(s)), X.read(X.cert(INTER))], "key": X.read(X.key(*s["key"])), "alg": "es256",
            "nb": ep(nb), "na": ep(na), "spec": s}


def fixture_expired_cred():
    """the repository's expired, self-signed RSA-PSS credential (rsa-pss256_key-expired.pub / rsa-pss256-expired.pem)"""
    d = os.path.join(common.REPO, "sdk/tests/fixtures")
    f = X.features(os.path.join(d, "rsa-pss256_key-expired.pub"))
    return {"kind": "fixture_expired", "chain": [X.read(os.path.join(d, "rsa-pss256_key-expired.pub"))],
            "key": X.read(os.path.join(d, "rsa-pss256-expired.pem")), "alg": "ps256", "nb": f["not_before"], "na": f["not_after"]}


def tsa(kind):
    s = tsa_spec(kind)
    k, iss, val, ext = TSA_DEFS[kind]
    isr, ser = issuer_and_serial(s)
    return {"kind": kind, "cert": X.read(X.cert(s)), "chain": [X.read(X.cert(iss))], "key": X.read(X.key(*s["key"])),
            "nb": ep(val[0]), "na": ep(val[1]), "trusted": iss is INTER, "eku_ok": ext is TSA_EXT,
            "key_kind": "ec" if k.startswith("p") else "rsa", "der": der_hex(s), "chain_der": [der_hex(iss)],
            "sid_issuer": isr.hex(), "sid_serial": ser.hex(), "spec": s}


def anchors():
    return X.read(X.cert(ROOT))


# ------------------------------------------------------------------ OCSP

def _run(args, cwd=None, ok_rc=(0,)):
    p = subprocess.run([X.OPENSSL] + args, capture_output=True, cwd=cwd, env=dict(os.environ, OPENSSL_CONF="/dev/null"))
    if p.returncode not in ok_rc:
        raise RuntimeError(f"openssl {' '.join(args)} failed rc={p.returncode}: {p.stderr.decode(errors='replace')[-600:]}")
    return p


def serial_hex(spec):
    out = _run(["x509", "-in", X.cert(spec), "-noout", "-serial"]).stdout.decode().strip()
    return out.split("=")[1].upper()


def subject_line(spec):
    return f"/C=US/O={spec.get('org', 'Verif')}/CN={spec['cn']}"


def responder_spec(kind):
    """delegated responders: 'ok' issued by the signer's CA; 'other' by an unrelated CA; 'noeku' lacks OCSPSigning"""
    iss = INTER2 if kind == "other" else INTER
    ext = EE_EXT if kind == "noeku" else OCSP_EXT
    val = ("20230101000000Z", "20250601000000Z") if kind == "old" else ("20200101000000Z", "20450101000000Z")
    return {"cn": f"OCSP responder {kind}", "org": iss["org"], "key": ["rsa2048", f"c37-resp-{kind}"], "issuer": iss, "ext": ext,
            "validity": val}


def ocsp_response(about, status, responder="ok", issuer=None, revoked_at=None, reason=None, ndays=7, embed_chain=False,
                  no_certs=False, cache=True):
    """DER OCSPResponse made by `openssl ocsp` acting as a responder.

    about: certificate spec the single response is about; status: 'good'|'revoked'|'unknown';
    responder: kind of responder_spec or 'ca' (the issuing CA signs directly);
    issuer: CA spec used for the certId (default: the real issuer of `about`);
    revoked_at: epoch; reason: CRL reason name (openssl index syntax, e.g. 'keyCompromise', 'removeFromCRL');
    thisUpdate is the time of generation (openssl has no option for it); nextUpdate = thisUpdate + ndays
    (ndays = None: no nextUpdate).  Responses are cached by recipe: thisUpdate is the time of first generation."""
    iss = issuer or about["issuer"]
    recipe = {"about": about, "status": status, "responder": responder, "issuer": iss, "revoked_at": revoked_at, "reason": reason,
              "ndays": ndays, "embed_chain": embed_chain, "no_certs": no_certs}
    h = hashlib.sha256(json.dumps(recipe, sort_keys=True).encode()).hexdigest()[:16]
    d = os.path.join(OCSP_ROOT, h)
    out = os.path.join(d, "resp.der")
    if cache and os.path.exists(out):
        return open(out, "rb").read()
    os.makedirs(d, exist_ok=True)
    ser = serial_hex(about)
    exp = utc(ep(about.get("validity", X.VALID)[1]))
    if status == "good":
        line = f"V\t{exp}\t\t{ser}\tunknown\t{subject_line(about)}\n"
    elif status == "revoked":
        rv = utc(revoked_at if revoked_at is not None else ep("20250301000000Z"))
        if reason:
            rv += "," + reason
        line = f"R\t{exp}\t{rv}\t{ser}\tunknown\t{subject_line(about)}\n"
    else:
        line = ""          # not in the index: the responder answers 'unknown'
    with open(os.path.join(d, "index.txt"), "w") as f:
        f.write(line)
    if responder == "ca":
        rs, rk = X.cert(iss), X.key(*iss["key"])
    else:
        r = responder_spec(responder)
        rs, rk = X.cert(r), X.key(*r["key"])
    _run(["ocsp", "-issuer", X.cert(iss), "-cert", X.cert(about), "-no_nonce", "-reqout", "req.der"], cwd=d)
    args = ["ocsp", "-index", "index.txt", "-CA", X.cert(iss), "-rsigner", rs, "-rkey", rk, "-reqin", "req.der",
            "-respout", "resp.der.tmp", "-rmd", "sha256"]
    if ndays is not None:
        args += ["-ndays", str(ndays)]
    if embed_chain:
        args += ["-rother", X.cert(iss)]
    if no_certs:
        args += ["-resp_no_certs"]
    _run(args, cwd=d)
    os.replace(os.path.join(d, "resp.der.tmp"), out)
    return open(out, "rb").read()


# ------------------------------------------------------------------ crafted OCSP responses (full control over every field)

SHA1_ALG = bytes.fromhex("300906052b0e03021a0500")
SHA256_ALG = bytes.fromhex("300d06096086480165030402010500")
REASONS = {"unspecified": 0, "keyCompromise": 1, "cACompromise": 2, "affiliationChanged": 3, "superseded": 4,
           "cessationOfOperation": 5, "certificateHold": 6, "removeFromCRL": 8, "privilegeWithdrawn": 9, "aACompromise": 10}


_tbs_cache = {}


def _tbs_fields(spec):
    k = json.dumps(spec, sort_keys=True)
    if k not in _tbs_cache:
        _tbs_cache[k] = _tbs_fields_uncached(spec)
    return _tbs_cache[k]


def _tbs_fields_uncached(spec):
    der = X.pem_to_der(X.read(X.cert(spec)))
    t, h, l = X.tlv(der)
    tbs = X.children(der[h:h + l])[0][1]
    t, h, l = X.tlv(tbs)
    f = X.children(tbs[h:h + l])
    i = 1 if f[0][0] == 0xA0 else 0
    return {"serial": f[i][1], "issuer": f[i + 2][1], "subject": f[i + 4][1], "spki": f[i + 5][1]}


def key_bits(spki):
    """content of the subjectPublicKey BIT STRING without the unused-bits octet"""
    t, h, l = X.tlv(spki)
    bs = X.children(spki[h:h + l])[1][1]
    t, h, l = X.tlv(bs)
    return bs[h + 1:h + l]


def cert_id(about, issuer, hash_name="sha1", serial_of=None, key_issuer=None):
    """CertID of `about` computed against `issuer` (any CA spec: a wrong one gives hashes that do not match);
    key_issuer: take the issuerKeyHash from another CA"""
    hf = getattr(hashlib, hash_name)
    fi = _tbs_fields(issuer)
    fk = _tbs_fields(key_issuer or issuer)
    alg = SHA1_ALG if hash_name == "sha1" else SHA256_ALG
    ser = _tbs_fields(serial_of or about)["serial"]
    return X.enc(0x30, alg + X.enc(0x04, hf(fi["subject"]).digest()) + X.enc(0x04, hf(key_bits(fk["spki"])).digest()) + ser)


def single_response(cid, status, this_update, next_update=None, revoked_at=None, reason=None):
    if status == "good":
        st = bytes([0x80, 0x00])
    elif status == "unknown":
        st = bytes([0x82, 0x00])
    else:
        body = X.enc(0x18, gt(revoked_at).encode())
        if reason is not None:
            body += X.enc(0xA0, X.enc(0x0A, bytes([REASONS[reason]])))
        st = X.enc(0xA1, body)
    out = cid + st + X.enc(0x18, gt(this_update).encode())
    if next_update is not None:
        out += X.enc(0xA0, X.enc(0x18, gt(next_update).encode()))
    return X.enc(0x30, out)


def _dgst_sign(key_path, data, tag):
    d = os.path.join(OCSP_ROOT, "tbs")
    os.makedirs(d, exist_ok=True)
    f = os.path.join(d, f"{tag}-{os.getpid()}.bin")
    with open(f, "wb") as fh:
        fh.write(data)
    try:
        return _run(["dgst", "-sha256", "-sign", key_path, f]).stdout
    finally:
        os.unlink(f)


def craft_ocsp(singles, responder="ok", produced_at=None, embed="responder", wrong_key=False, corrupt=None, status=0):
    """DER OCSPResponse.  singles: list of SingleResponse DERs; responder: responder_spec kind, 'ca' (the issuing CA) or a spec;
    embed: 'responder' | 'responder+ca' | 'none'; wrong_key: signed with another key than the embedded certificate's;
    corrupt: 'sig' flips a signature bit, 'tbs' alters producedAt after signing; status: OCSPResponseStatus."""
    rspec = INTER if responder == "ca" else (responder if isinstance(responder, dict) else responder_spec(responder))
    produced_at = produced_at if produced_at is not None else int(time.time())
    rf = _tbs_fields(rspec)
    rid = X.enc(0xA2, X.enc(0x04, hashlib.sha1(key_bits(rf["spki"])).digest()))
    tbs = X.enc(0x30, rid + X.enc(0x18, gt(produced_at).encode()) + X.enc(0x30, b"".join(singles)))
    kspec = rspec if not wrong_key else responder_spec("other" if rspec.get("cn") != "OCSP responder other" else "ok")
    sig = _dgst_sign(X.key(*kspec["key"]), tbs, hashlib.sha256(tbs).hexdigest()[:16])
    ec = rspec["key"][0].startswith("p")
    sigalg = bytes.fromhex("300a06082a8648ce3d040302") if ec else bytes.fromhex("300d06092a864886f70d01010b0500")
    if corrupt == "sig":
        sig = sig[:-1] + bytes([sig[-1] ^ 1])
    if corrupt == "tbs":
        g = gt(produced_at).encode()
        i = tbs.index(g) + len(g) - 2
        tbs = tbs[:i] + (b"1" if tbs[i:i + 1] == b"0" else b"0") + tbs[i + 1:]
    basic = tbs + sigalg + X.enc(0x03, b"\x00" + sig)
    if embed != "none":
        certs = X.pem_to_der(X.read(X.cert(rspec)))
        if embed == "responder+ca" and rspec.get("issuer"):
            certs += X.pem_to_der(X.read(X.cert(rspec["issuer"])))
        basic += X.enc(0xA0, X.enc(0x30, certs))
    basic = X.enc(0x30, basic)
    if status != 0:
        return X.enc(0x30, X.enc(0x0A, bytes([status])))
    rb = X.enc(0x30, bytes.fromhex("06092b0601050507300101") + X.enc(0x04, basic))
    return X.enc(0x30, X.enc(0x0A, b"\x00") + X.enc(0xA0, rb))


def ocsp_text(der):
    """`openssl ocsp -resp_text` of a response (independent reading, used by the oracle's self-check)"""
    d = os.path.join(OCSP_ROOT, "tbs")
    os.makedirs(d, exist_ok=True)
    f = os.path.join(d, f"resp-{hashlib.sha256(der).hexdigest()[:16]}-{os.getpid()}.der")
    with open(f, "wb") as fh:
        fh.write(der)
    try:
        return _run(["ocsp", "-respin", f, "-resp_text", "-noverify"], ok_rc=(0, 1)).stdout.decode(errors="replace")
    finally:
        os.unlink(f)
