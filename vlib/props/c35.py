"""C35 — results do not depend on stream chunking, and I/O errors are never hidden.

Translator: inventory of every bare `.read(buf)` / `.write(buf)` (one possibly-short call) in non-test SDK code, each
classified (forwarder / memory / run / not_io) -> coq/Generated/C35_facts.v; the theorems of Properties/C35.v tie the
inventory to the modelled list.  Differential run: wrapper streams (harness/src/c35.rs) serving seeded short
reads/writes, or failing at the k-th call, over read and sign of each format with the correct hint."""
import json, os, re
from .. import common
from ..common import TieBroken
from . import c40
from .c40 import lex, close_of, rs_files, non_test_tokens, coq_str

PROP_FILE = "Properties/C35.v"
TRUSTED = ["stream model: one schedule event per stream call, Cursor-backed source and destination (the harness wrapper implements exactly this)",
           "third-party crates (img-parts, png_pong, riff, mp4, id3, lopdf, zip...) are not inventoried: they are covered by the run only",
           "classification rules of the translator (forwarder = body of an impl Read/Write; memory = all callers pass a Cursor, checked)",
           "swallowing step of an injected failure is identified from the backtrace of the failing call (function names)"]
ASSUMPTIONS = ["correct format hint", "single-threaded use of the streams", "no network (remote manifests, OCSP, time-stamps)"]


def fn_ranges(toks):
    out = []
    for i, t in enumerate(toks):
        if t[1] == "fn" and t[0] == "id" and i + 1 < len(toks) and toks[i + 1][0] == "id":
            k = i + 2
            while k < len(toks) and toks[k][1] not in ("{", ";"):
                k = close_of(toks, k) + 1 if toks[k][1] in ("(", "[") else k + 1
            if k < len(toks) and toks[k][1] == "{":
                out.append((toks[i + 1][1], k, close_of(toks, k)))
    return out


def impl_ranges(toks):
    out = []
    for i, t in enumerate(toks):
        if t[1] == "impl" and t[0] == "id":
            k = i + 1
            while k < len(toks) and toks[k][1] not in ("{", ";"):
                k = close_of(toks, k) + 1 if toks[k][1] in ("(", "[") else k + 1
            if k < len(toks) and toks[k][1] == "{":
                out.append((" ".join(x[1] for x in toks[i + 1:k]), k, close_of(toks, k)))
    return out


def is_test_path(rel):
    return rel.startswith("verif_hooks/") or "/tests/" in "/" + rel or rel.split("/")[-1].startswith("test")


# sites that are not an `impl Read/Write` body: (file, fn, kind) -> class; anything else is unclassified (broken tie)
KNOWN = {
    ("jumbf_io.rs", "container_from_stream", "read"): "run",
    ("jumbf/boxes.rs", "read_header", "read"): "memory",
    ("jumbf/boxes.rs", "read_desc_box", "read"): "memory",
    ("asset_handlers/bmff_io.rs", "write_c2pa_box", "write"): "not_io",
    ("asset_handlers/bmff_io.rs", "write_xmp_box", "write"): "not_io",
    ("asset_handlers/bmff_io.rs", "write_free_box", "write"): "not_io",
    ("asset_handlers/riff_io.rs", "write_cai_impl", "write"): "not_io",
    ("asset_handlers/riff_io.rs", "embed_reference_to_stream", "write"): "not_io",
}


def inventory():
    sites = []
    for rel, p in rs_files():
        if is_test_path(rel):
            continue
        text = open(p, encoding="utf-8", errors="replace").read()
        if not re.search(r"(\.|::)\s*(read|write)\s*\(", text):
            continue
        toks = non_test_tokens(text)
        fr, ir = fn_ranges(toks), impl_ranges(toks)
        for i in range(1, len(toks) - 2):
            if toks[i + 1][1] in ("read", "write") and toks[i][1] in (".", "::") and toks[i + 2][1] == "(" and toks[i + 1][0] == "id":
                e = close_of(toks, i + 2)
                args = [x[1] for x in toks[i + 3:e]]
                if args in ([], ["true"], ["false"]):
                    continue                      # OpenOptions::read(true), RwLock::read()
                if toks[i][1] == "::" and toks[i - 1][1] not in ("Read", "Write"):
                    continue
                kind = toks[i + 1][1]
                enc = [f for f in fr if f[1] < i < f[2]]
                fn = max(enc, key=lambda f: f[1])[0] if enc else "?"
                im = [f for f in ir if f[1] < i < f[2]]
                impl = max(im, key=lambda f: f[1])[0] if im else ""
                last = args[-1] if args else ""
                if fn == kind and re.search(r"\b%s\s+for\b" % ("Read" if kind == "read" else "Write"), impl) and last == "buf":
                    cls = "forwarder"
                else:
                    cls = KNOWN.get((rel, fn, kind), "UNCLASSIFIED")
                    if cls == "not_io" and not (args[:2] == ["&", "mut"] or args == ["w"]):
                        cls = "UNCLASSIFIED"          # a not_io `write` takes the writer, not a byte slice
                sites.append({"file": rel, "fn": fn, "kind": kind, "class": cls, "args": " ".join(args), "offset": toks[i][2]})
    return sites


def side_conditions():
    """facts that make the `memory` and `not_io` classes true"""
    # (1) BoxReader's bare reads: every entry into BoxReader from outside its impl passes a Cursor created in the same fn
    entries = []
    for rel, p in rs_files():
        if is_test_path(rel):
            continue
        text = open(p, encoding="utf-8", errors="replace").read()
        if "BoxReader" not in text:
            continue
        toks = non_test_tokens(text)
        fr, ir = fn_ranges(toks), impl_ranges(toks)
        for i in range(len(toks) - 3):
            if toks[i][1] == "BoxReader" and toks[i + 1][1] == "::" and toks[i + 3][1] == "(":
                inside = any(f[0].strip() == "BoxReader" and f[1] < i < f[2] for f in ir)
                if inside:
                    continue
                meth = toks[i + 2][1]
                e = close_of(toks, i + 3)
                args = [x[1] for x in toks[i + 4:e]]
                enc = [f for f in fr if f[1] < i < f[2]]
                if not enc:
                    raise TieBroken(f"c35: BoxReader::{meth} called outside a function in {rel}")
                f = max(enc, key=lambda f: f[1])
                body = [x[1] for x in toks[f[1]:f[2]]]
                if meth != "read_super_box" or args[:2] != ["&", "mut"] or len(args) != 3:
                    raise TieBroken(f"c35: BoxReader::{meth}({' '.join(args)}) in {rel}::{f[0]} is not the modelled entry point read_super_box(&mut cursor)")
                var = args[2]
                ok = any(body[j:j + 7] == ["let", "mut", var, "=", "Cursor", "::", "new"] for j in range(len(body) - 7))
                if not ok:
                    raise TieBroken(f"c35: BoxReader::read_super_box(&mut {var}) in {rel}::{f[0]}: {var} is not a Cursor created in that function "
                                    "(the bare reads of read_header/read_desc_box would then see a caller's stream)")
                entries.append((rel, f[0]))
    if not entries:
        raise TieBroken("c35: no entry point into BoxReader found")
    # (2) BoxHeaderLite::write uses write_all only
    bm = common.strip_tests(common.src("sdk/src/asset_handlers/bmff_io.rs"))
    m = common.fact(r"impl\s+BoxHeaderLite\s*\{", bm, "impl BoxHeaderLite")
    wbody = common.fn_body(bm[m.start():], r"fn\s+write\s*<", "BoxHeaderLite::write")
    calls = set(re.findall(r"writer\s*\.\s*(\w+)", wbody))
    if not calls or not calls <= {"write_all", "write_u8", "write_u16", "write_u32", "write_u64"}:      # byteorder's write_uN are write_all
        raise TieBroken(f"c35: BoxHeaderLite::write no longer uses write_all/byteorder only: {sorted(calls)}")
    # (3) the riff crate's ChunkContents::write uses write_all only
    lock = common.src("Cargo.lock")
    rv = common.fact(r'name = "riff"\nversion = "([^"]+)"', lock, "riff in Cargo.lock").group(1)
    rp = None
    reg = os.path.expanduser("~/.cargo/registry/src")
    for d in os.listdir(reg) if os.path.isdir(reg) else []:
        q = os.path.join(reg, d, f"riff-{rv}", "src", "lib.rs")
        if os.path.exists(q):
            rp = open(q).read()
    if rp is None:
        raise TieBroken(f"c35: source of riff {rv} not found")
    if re.search(r"writer\s*\.\s*write\s*\(", rp) or "write_all" not in rp:
        raise TieBroken(f"c35: riff {rv} ChunkContents::write uses a bare write")
    return sorted(set(entries)), rv


def facts(ctx):
    sites = inventory()
    bad = [s for s in sites if s["class"] == "UNCLASSIFIED"]
    entries, riffv = side_conditions()
    rows = [f"  ({coq_str(s['file'])}, {coq_str(s['fn'])}, {coq_str(s['kind'])}, {coq_str(s['class'])})" for s in sites]
    v = ("(* generated by vlib/props/c35.py from /repo/sdk/src on every run — do not edit *)\n"
         "From Coq Require Import List String.\nFrom C2PA Require Import Model.Streams.\nImport ListNotations.\nOpen Scope string_scope.\n\n"
         "Definition io_sites : list io_site := [\n" + ";\n".join(rows) + "\n].\n\n"
         "(* functions that enter BoxReader from outside, each with a Cursor created on the spot *)\n"
         "Definition boxreader_entries : list (string * string) := [" + "; ".join(f"({coq_str(a)}, {coq_str(b)})" for a, b in entries) + "].\n")
    common.write_if_changed(os.path.join(common.COQ, "Generated", "C35_facts.v"), v)
    ctx.facts = {"sites": sites, "entries": entries, "riff": riffv}
    if bad:
        raise TieBroken("c35: unclassified bare read/write (classify it in vlib/props/c35.py KNOWN and coq/Model/Streams.v, or replace it by "
                        "read_exact/write_all): " + "; ".join(f"{s['file']}::{s['fn']} .{s['kind']}({s['args']})" for s in bad))


# ------------------------------------------------------------------ differential run

READ_FIXTURES = [("CA.jpg", "image/jpeg"), ("C.jpg", "image/jpeg"), ("CACAE-uri-CA.jpg", "image/jpeg"), ("boxhash.jpg", "image/jpeg"),
                 ("XCA.jpg", "image/jpeg"), ("cloud_manifest.c2pa", "application/c2pa"), ("video1.mp4", "video/mp4"),
                 ("no_manifest.jpg", "image/jpeg"), ("basic-signed.pdf", "application/pdf"), ("legacy.mp4", "video/mp4")]
QUICK_READ = 6
FORWARDERS = ("CAIReadAdapter", "CAIReadWrapper", "CAIReadWriteWrapper", "ReaderUtils", "stream_len", "skip_bytes_to", "box_start")
STEPS = [("sniff", "container_from_stream"), ("xmp", "XmpInfo::from_source"), ("thumbnail", "maybe_add_thumbnail"),
         ("objloc", "object_locations_from_stream"), ("hash", "verify_hash_binding")]


def step_of(trace, kind=None):
    """the step of the SDK that swallowed the failing call (from the function names of its backtrace).
    build_bmff_tree itself propagates I/O errors since a0a6903a3; what is left in the BMFF walker is the eight-byte peek of
    meta_box_lacks_fullbox_header (`read_exact(..).is_ok()`), and only its read can be swallowed there (its seeks use `?`)."""
    core = [f for f in trace if not any(w in f for w in FORWARDERS)]
    if core and "meta_box_lacks_fullbox_header" in core[0] and kind == "read":
        return "bmff_meta"
    t = " < ".join(trace)
    for name, needle in STEPS:
        if needle in t:
            return name
    if any("BoxHeaderLite" in f and "read" in f for f in core[:2]) and any("build_bmff_tree" in f for f in core[:3]):
        return "bmff_tree"          # the repaired class F-IO-BMFFTREE: must not occur any more
    return "other: " + " < ".join(re.sub(r"c2pa::|asset_handlers::", "", f)[:50] for f in core[:4])


def state_of(out):
    m = re.search(r'"state": "(\w+)"', json.dumps(out))
    return m.group(1) if m else None


def without_thumbnail(v):
    """shape with everything that only says 'there is a thumbnail' removed"""
    v = json.loads(json.dumps(v))

    def walk(x):
        if isinstance(x, dict):
            x.pop("thumbnail", None)
            for k in list(x):
                if k == "assertions" and isinstance(x[k], list):
                    x[k] = [a for a in x[k] if not str(a).startswith("c2pa.thumbnail")]
                elif k == "success" and isinstance(x[k], list):
                    x[k] = sorted(set(x[k]))
                else:
                    walk(x[k])
        elif isinstance(x, list):
            for y in x:
                walk(y)
    walk(v)
    return v


# small assets whose *every* stream call gets a failure injected (quick and thorough): the signed fixtures below make at most
# ~50 calls per read; the unsigned sources are signed first (ordinary cursors) and the signed asset is then read through the
# wrapper, split over several cases (parts) so that the shards share the work
ALL_K_READS = [("CA.jpg", "image/jpeg"), ("cloud_manifest.c2pa", "application/c2pa"), ("boxhash.jpg", "image/jpeg"), ("XCA.jpg", "image/jpeg")]
ALL_K_SIGNED = [("TUSCANY.TIF", "image/tiff", 5), ("sample1.avif", "image/avif", 5), ("libpng-test.png", "image/png", 2),
                ("sample1.webp", "image/webp", 1), ("sample1.svg", "image/svg+xml", 1), ("earth_apollo17.jpg", "image/jpeg", 1),
                ("sample1.wav", "audio/wav", 1)]


def gen_cases(ctx):
    rng, quick = ctx.rng, ctx.quick()
    cases = []
    srcs = [s for s in c40.SOURCES if s[2] == 0 or not quick] + ([("sample1.wav", "audio/wav", 1)] if quick else [])
    nfail = 24 if quick else 400
    nseeds = 2 if quick else 6
    for fx, fmt in ALL_K_READS:
        cases.append({"op": "read", "fixture": fx, "format": fmt, "fail_auto": {"n": 1000000}})
    for fx, fmt, parts in ALL_K_SIGNED:
        for part in range(parts):
            cases.append({"op": "read_signed", "fixture": fx, "format": fmt, "alg": "ed25519", "fail_auto": {"parts": parts, "part": part},
                          "nseeds": nseeds if part == 0 else 0})
    for fx, fmt in READ_FIXTURES:
        if (fx, fmt) not in ALL_K_READS and (not quick or fx in ("video1.mp4", "CACAE-uri-CA.jpg")):
            cases.append({"op": "read", "fixture": fx, "format": fmt, "fail_auto": {"n": nfail}})
    for fx, fmt, w in srcs:
        nf = nfail if w == 0 or quick else 80          # the large fixtures make thousands of calls per run: sample them
        cases.append({"op": "sign", "fixture": fx, "format": fmt, "alg": rng.choice(["ed25519", "es256", "ps256"]), "fail_auto": {"n": nf}})
    for c in cases:
        c["seeds"] = [rng.randrange(1, 1 << 30) for _ in range(c.pop("nseeds", nseeds))]
        c["maxchunk"] = rng.choice([1, 2, 3, 7, 64, 1000])
        c["fail_auto"].update({"seed": rng.randrange(1, 1 << 30), "sticky_every": 4})
        c["trace"] = True
    # the same with failures counted over one kind of call only (so that late writes / seeks are reached)
    for kind in ("write", "seek", "read"):
        fx, fmt, _ = rng.choice(srcs[:6])
        cases.append({"op": "sign", "fixture": fx, "format": fmt, "alg": "ed25519", "seeds": [], "maxchunk": 7, "fail_kinds": kind,
                      "fail_auto": {"n": 20 if quick else 400, "seed": rng.randrange(1, 1 << 30), "sticky_every": 3}, "trace": True})
    return cases


def corpus():
    p = os.path.join(common.VERIF, "corpus", "C35.jsonl")
    if not os.path.exists(p):
        return []
    return [json.loads(l) for l in open(p) if l.strip()]


def evaluate(ctx, cases):
    res = c40.run_sharded("c35", cases, shards=2 if cases and cases[0].get("_retry") else 14)
    stats = {"chunked_runs": 0, "failure_runs": 0, "failure_outcomes": {"err": 0, "not_reached": 0}, "swallowed_by_step": {},
             "failed_call_kinds": {}, "ops_per_case": {}, "formats": {}, "base_states": {}, "sticky_runs": 0}
    distinct = set()
    evals = 0
    retry = []
    for c in cases:
        r = res[c["id"]]
        tag = f"{c['op']}:{c['fixture']}"
        if r["r"] in ("panic", "crash"):
            ctx.report_violation(c, f"harness case died: {r.get('msg')}", {"step": "crash", "same": False, "state": None, "thumb_only": False})
            continue
        if r["r"] == "setup_err":
            raise TieBroken(f"c35: cannot sign {c['fixture']} for the read_signed case: {r.get('kind')}")
        base = r["base"]
        stats["ops_per_case"][tag] = r["ops"]
        stats["formats"][c["format"]] = stats["formats"].get(c["format"], 0) + 1
        stats["base_states"][str(state_of(base) or list(base)[0])] = stats["base_states"].get(str(state_of(base) or list(base)[0]), 0) + 1
        if "panic" in base:
            ctx.report_violation(c, f"panic on the unfaulted stream: {base['panic'][:200]}", {"step": "base", "same": False, "state": None, "thumb_only": False})
            continue
        # ---- chunking: chunked result = unchunked result
        for ch in r["chunked"]:
            evals += 1
            stats["chunked_runs"] += 1
            distinct.add((tag, "chunk", ch["seed"], c["maxchunk"]))
            if ch["out"] != base:
                cc = dict(c, seeds=[ch["seed"]], fail_auto=None, fail=[])
                ctx.report_violation(cc, f"result with short reads/writes (at most {c['maxchunk']} bytes per call, seed {ch['seed']}) differs from the "
                                         f"unchunked result: {c40.first_diff(base, ch['out'])}",
                                     {"step": "chunk", "same": False, "state": state_of(ch["out"]), "thumb_only": False})
        # ---- failures: Err, never a value, never a panic
        for f in r["failed"]:
            evals += 1
            stats["failure_runs"] += 1
            stats["sticky_runs"] += 1 if f["sticky"] else 0
            out = f["out"]
            if f["kind"] is None:
                stats["failure_outcomes"]["not_reached"] += 1      # the run made fewer calls than k (a shorter path)
                continue
            distinct.add((tag, "fail", f["k"], f["sticky"], c.get("fail_kinds", "all")))
            stats["failed_call_kinds"][f["kind"]] = stats["failed_call_kinds"].get(f["kind"], 0) + 1
            cc = dict(c, seeds=[], fail_auto=None, fail=[[f["k"], f["sticky"], 0]])
            if "panic" in out:
                ctx.report_violation(cc, f"panic when the {f['kind']} call #{f['k']} fails: {out['panic'][:200]}",
                                     {"step": "panic", "same": False, "state": None, "thumb_only": False})
            elif "err" in out:
                stats["failure_outcomes"]["err"] += 1
            else:
                if not f.get("trace") and not c.get("_retry"):
                    # symbol resolution of the backtrace failed (seen under heavy machine load): repeat this one run alone
                    retry.append(dict(cc, _retry=True, trace=True))
                    continue
                step = step_of(f.get("trace") or [], f["kind"])
                same = out == base
                st = state_of(out)
                thumb_only = (not same) and without_thumbnail(out) == without_thumbnail(base)
                key = f"{step}|{'same' if same else ('thumb_only' if thumb_only else 'diff')}|{st}|{'sticky' if f['sticky'] else 'transient'}"
                stats["swallowed_by_step"][key] = stats["swallowed_by_step"].get(key, 0) + 1
                mi = {"op": c["op"], "fixture": c["fixture"], "format": c["format"], "k": f["k"], "sticky": f["sticky"], "kind": f["kind"],
                      "step": step, "same": same, "state": st, "thumb_only": thumb_only}
                if not same and not thumb_only and st in ("Valid", "Trusted"):
                    why = (f"{f['kind']} call #{f['k']} failed ({'sticky' if f['sticky'] else 'once'}) in step [{step}] and the operation still returned a "
                           f"{st} result that differs from the unfaulted one: {c40.first_diff(base, out)}")
                    mi["step"] = "VALID-DIFF " + step       # never a known finding
                else:
                    why = (f"{f['kind']} call #{f['k']} failed ({'sticky' if f['sticky'] else 'once'}) in step [{step}] but the operation returned a value "
                           f"(state {st}, {'same as' if same else 'differs from'} the unfaulted result) instead of an error")
                ctx.report_violation(cc, why, mi)
    if retry:
        for i, c in enumerate(retry):
            c["id"] = i
        stats["retried_for_backtrace"] = stats.get("retried_for_backtrace", 0) + len(retry)
        s2, d2, e2 = evaluate(ctx, retry)
        for k, v in s2["swallowed_by_step"].items():
            stats["swallowed_by_step"][k] = stats["swallowed_by_step"].get(k, 0) + v
    return stats, len(distinct), evals


def model_crosscheck(ctx):
    """correspondence: the stream model (vm_compute) against python's own reference on seeded (data, schedule, program) triples;
    the Rust side of the same statement is the chunked runs above."""
    rng = ctx.rng
    exprs, expect = [], []
    for _ in range(40 if ctx.quick() else 300):
        n = rng.randrange(0, 40)
        d = [rng.randrange(256) for _ in range(n)]
        if d and rng.random() < 0.7:
            d[0] = rng.randrange(0, min(n, 12))
        sched = [rng.choice(["Short %d" % rng.randrange(0, 5), "Short %d" % rng.randrange(0, 50)]) for _ in range(rng.randrange(0, 30))]
        fail_at = rng.randrange(0, 12) if rng.random() < 0.4 else None
        if fail_at is not None:
            sched = sched[:fail_at] + ["FailEv"] + sched[fail_at:]
        dl = "[" + ";".join(str(x) for x in d) + "]%N"
        exprs.append(f"observe (run ex_prog (mkSt {dl} {dl} [{'; '.join(sched)}] []))")
        # python reference of ex_prog: stream_len (2 calls), read_exact 1, read_exact k, read_to_end, write_all body
        expect.append(py_ex_prog(d, sched))
    out = common.coq_eval("C35", "From Coq Require Import List NArith.\nFrom C2PA Require Import Model.Streams Proofs.StreamsProofs.\nImport ListNotations.",
                          exprs, shard_size=60)
    bad = 0
    for e, o, w in zip(exprs, out, expect):
        got = norm_coq(o)
        if got != w:
            bad += 1
            ctx.disagreements.append({"case": e[:300], "impl": w, "model": got})
    return len(exprs), bad


def py_ex_prog(d, sched):
    """independent reference of Proofs/StreamsProofs.ex_prog on the wrapper-stream semantics"""
    sched = list(sched)
    pos, outb = 0, []

    def ev():
        return sched.pop(0) if sched else None

    def piece(e, want, avail):
        if e is not None and e.startswith("Short"):
            return min(want, int(e.split()[1]) + 1, avail)
        return min(want, avail)

    def read(k):
        nonlocal pos
        e = ev()
        if e == "FailEv":
            raise IOError
        m = piece(e, k, len(d) - pos)
        bs = d[pos:pos + m]
        pos += m
        return bs

    def read_exact(k):
        acc = []
        while k > 0:
            bs = read(k)
            if not bs:
                raise EOFError
            acc += bs
            k -= len(bs)
        return acc

    try:
        for _ in range(2):                 # stream_len: two seeks
            if ev() == "FailEv":
                raise IOError
        n = len(d)
        h = read_exact(1)
        body = read_exact(h[0])
        tail = []
        while True:
            bs = read(32)
            if not bs:
                break
            tail += bs
        rem = list(body)
        while rem:
            e = ev()
            if e == "FailEv":
                raise IOError
            m = piece(e, len(rem), len(rem))
            outb += rem[:m]
            rem = rem[m:]
        return ["Ok", body, tail, n, d[pos:], outb]
    except IOError:
        return ["Err", "EIo"]
    except EOFError:
        return ["Err", "EEof"]


def norm_coq(o):
    if isinstance(o, list) and o and o[0] == "Err":
        return ["Err", o[1]]
    if isinstance(o, list) and o and o[0] == "Ok":
        (body, tail, n, (rest, outb)) = o[1]       # Coq prints ((a, b, c), (d, e)) as (a, b, c, (d, e))
        return ["Ok", list(body), list(tail), n, list(rest), list(outb)]
    return o


def run(ctx):
    if not getattr(ctx, "no_build", False):
        common.build_harness()
    nmodel = nbad = 0
    if ctx.replay:
        cases = [ctx.replay["case"]] if "case" in ctx.replay and "op" in ctx.replay["case"] else []
    else:
        nmodel, nbad = model_crosscheck(ctx)
        cases = corpus() + gen_cases(ctx)
    for i, c in enumerate(cases):
        c["id"] = i
        c.setdefault("trace", True)
    stats, distinct, evals = evaluate(ctx, cases) if cases else ({}, 0, 0)
    ctx.coverage.update({
        "evaluations": evals + nmodel, "distinct_nontrivial": distinct,
        "rule": "each case = one (operation, fixture, format); evaluations = chunked runs (seeded short reads/writes) + failure runs "
                "(failure injected at the k-th stream call: EVERY call for the small signed assets of each format incl. a signed TIFF — jpeg, c2pa, tiff, avif, png, webp, svg, wav —, "
                "first 10, last 5 and seeded picks elsewhere (24 per case quick, up to 400 thorough); "
                "one in four sticky) + model/reference runs; non-trivial = the failing call was actually reached; distinct by (case, kind, k/seed)",
        "distribution": stats,
        "model_vs_reference_runs": nmodel, "model_vs_reference_disagreements": nbad,
        "inventory": [f"{s['file']}::{s['fn']} .{s['kind']} [{s['class']}]" for s in (getattr(ctx, "facts", None) or {}).get("sites", [])],
        "samples": [{k: v for k, v in c.items() if k not in ("def",)} for c in cases[:2]],
    })


def search(ctx):
    common.build_harness()
    cases = gen_cases(ctx)
    for i, c in enumerate(cases):
        c["id"] = i
        if "parts" not in c["fail_auto"]:
            c["fail_auto"]["n"] = max(80, c["fail_auto"].get("n", 0))
    stats, distinct, evals = evaluate(ctx, cases)
    ctx.coverage["search_evaluations"] = evals
