"""C23 — cancellation is always reported as cancellation."""
import json, os, re
from .. import common
from ..common import TieBroken
from . import _par

PROP_FILE = "Properties/C23.v"
TRUSTED = ["the read / sign / ingredient pipelines in Model/Progress.v are hand transcriptions of the check_progress call sites "
           "(tied by srcfacts: site count per file, the three catch sites; and by trace correspondence for every callback index)",
           "loop counts (hash chunks, ingredient tree, OCSP requests) of a pipeline term are read off the uncancelled run of the same "
           "operation; the term must then reproduce that trace exactly and predict every cancelled run",
           "Context::cancel() from another thread is sampled at seeded delays (oracle only), not proved"]
ASSUMPTIONS = ["fewer than 2^32 callbacks per operation (steps are u32)",
               "sync API; the async twins are generated from the same bodies by async_generic"]

PHASES = ["Reading", "VerifyingManifest", "VerifyingSignature", "VerifyingIngredient", "VerifyingAssetHash", "AddingIngredient",
          "Thumbnail", "Hashing", "Signing", "Embedding", "FetchingRemoteManifest", "Writing", "FetchingOCSP", "FetchingTimestamp"]
SITES = {"sdk/src/reader.rs": 1, "sdk/src/crypto/ocsp/fetch.rs": 1, "sdk/src/builder.rs": 6, "sdk/src/store.rs": 15, "sdk/src/claim.rs": 4}
CLOUD_URL = "https://cai-manifests.adobe.com/manifests/adobe-urn-uuid-5f37e182-3687-462e-a7fb-573462780391"


def facts(ctx):
    cx = common.strip_tests(common.src("sdk/src/context.rs"))
    body = common.fn_body(cx, r"pub\(crate\) fn\s+check_progress\s*\(", "Context::check_progress")
    b = re.sub(r"\s+", " ", body)
    if not re.search(r"if let Some\(cb\) = self\.progress_callback\.as_deref\(\) \{ if !cb\(phase, step, total\) \{ return Err\(Error::OperationCancelled\); \} \} "
                     r"if self\.cancel_flag\.load\(Ordering::Acquire\) \{ return Err\(Error::OperationCancelled\); \} Ok\(\(\)\)", b):
        raise TieBroken("srcfacts: Context::check_progress is no longer `callback, then cancel flag, either => OperationCancelled`")
    variants = re.findall(r"^\s{4}(\w+),", common.fn_body(cx, r"pub enum ProgressPhase\s*", "ProgressPhase"), re.M)
    if variants != PHASES:
        raise TieBroken(f"srcfacts: ProgressPhase variants changed: {variants}")
    sites = {}
    for root, _, fs in os.walk(os.path.join(common.REPO, "sdk", "src")):
        for fn in fs:
            if fn.endswith(".rs"):
                p = os.path.join(root, fn)
                rel = os.path.relpath(p, common.REPO)
                if rel == "sdk/src/context.rs":
                    continue
                t = common.strip_tests(open(p, encoding="utf-8", errors="replace").read())
                t = re.sub(r"//[^\n]*", "", t)
                n = len(re.findall(r"\.check_progress\(", t))
                if n:
                    sites[rel] = n
    if sites != SITES:
        raise TieBroken(f"srcfacts: check_progress call sites changed: {sites} (transcribed: {SITES}) — a checkpoint is not modelled")
    # the three catch sites: do they re-raise the cancellation?
    cl = common.strip_tests(common.src("sdk/src/claim.rs"))
    hb = common.fn_body(cl, r"pub\(crate\) fn\s+verify_hash_binding\s*\(", "Claim::verify_hash_binding")
    arms = len(re.findall(r"Err\(e\)\s*=>\s*\{", hb))
    if arms != 3 or len(re.findall(r"match hash_result\s*\{", hb)) != 3:
        raise TieBroken(f"srcfacts: verify_hash_binding no longer has three `match hash_result {{ .. Err(e) => .. }}` ({arms} arms)")
    hash_pass = len(re.findall(r"Err\(Error::OperationCancelled\)\s*=>\s*return Err\(Error::OperationCancelled\)", hb)) >= 3
    ft = common.strip_tests(common.src("sdk/src/crypto/ocsp/fetch.rs"))
    fb = common.fn_body(ft, r"pub\(crate\) fn\s+fetch_ocsp_response\s*\(", "fetch_ocsp_response")
    if re.search(r"\.check_progress\([^;]*?\)\s*\.ok\(\)\?", fb, re.S):
        ocsp_pass = False
    elif "OperationCancelled" in fb or re.search(r"\*cancelled\s*=\s*true", fb) or re.search(r"\.check_progress\([^;]*?\)\?", fb, re.S):
        ocsp_pass = True
    else:
        raise TieBroken("srcfacts: cannot tell what fetch_ocsp_response does with a cancelled checkpoint")
    ig = common.strip_tests(common.src("sdk/src/ingredient.rs"))
    ub = common.fn_body(ig, r"fn\s+update_validation_status\s*\(", "Ingredient::update_validation_status")
    if not re.search(r"Err\(e\)\s*=>\s*\{", ub):
        raise TieBroken("srcfacts: update_validation_status no longer has the catch-all `Err(e) =>` arm")
    ing_pass = bool(re.search(r"Err\(Error::OperationCancelled\)\s*=>\s*(return\s+)?Err\(Error::OperationCancelled\)", ub))
    bl = lambda x: "true" if x else "false"
    v = ("(* generated from sdk/src/{claim.rs,crypto/ocsp/fetch.rs,ingredient.rs,context.rs} on every run — do not edit *)\n"
         "From C2PA Require Import Model.Progress.\n"
         "(* does the catch site re-raise Error::OperationCancelled? *)\n"
         f"Definition current_flags : cflags := CF {bl(hash_pass)} {bl(ocsp_pass)} {bl(ing_pass)}.\n"
         f"Definition n_checkpoint_sites : nat := {sum(sites.values())}.\n")
    common.write_if_changed(os.path.join(common.COQ, "Generated", "C23_facts.v"), v)
    ctx.facts = {"flags": [hash_pass, ocsp_pass, ing_pass], "sites": sites}


# ------------------------------------------------------------------ operations under test

NOTHUMB = {"builder": {"thumbnail": {"enabled": False}}}

OPS_QUICK = [
    {"name": "read-jpeg", "op": "read", "asset": "CA.jpg", "format": "image/jpeg"},
    {"name": "read-jpeg-nested", "op": "read", "asset": "CACA.jpg", "format": "image/jpeg"},
    {"name": "read-png", "op": "read", "asset": "libpng-test.png", "format": "image/png", "prep": "sign"},
    {"name": "read-mp4", "op": "read", "asset": "video1.mp4", "format": "video/mp4"},
    {"name": "read-sidecar", "op": "read_sidecar", "asset": "cloud.jpg", "sidecar": "cloud_manifest.c2pa", "format": "image/jpeg"},
    {"name": "read-remote", "op": "read", "asset": "cloud.jpg", "format": "image/jpeg", "serve": {"url": CLOUD_URL, "file": "cloud_manifest.c2pa"}},
    {"name": "read-fragment", "op": "read_fragment", "asset": "dashinit.mp4", "fragment": "dash1.m4s", "format": "video/mp4"},
    {"name": "read-ocsp-fetch", "op": "read", "asset": "legacy.mp4", "format": "video/mp4", "settings": {"verify": {"ocsp_fetch": True}}, "serve": {}},
    {"name": "sign-jpeg", "op": "sign", "asset": "C.jpg", "format": "image/jpeg"},
    {"name": "sign-png", "op": "sign", "asset": "libpng-test.png", "format": "image/png", "settings": NOTHUMB},
    {"name": "sign-mp4", "op": "sign", "asset": "video1_no_manifest.mp4", "format": "video/mp4", "settings": NOTHUMB},
    {"name": "sign-sidecar", "op": "sign", "asset": "C.jpg", "format": "image/jpeg", "no_embed": True, "settings": NOTHUMB},
    {"name": "sign-noverify", "op": "sign", "asset": "C.jpg", "format": "image/jpeg",
     "settings": {"verify": {"verify_after_sign": False}, "builder": {"thumbnail": {"enabled": False}}}},
    {"name": "sign-boxhash", "op": "sign", "asset": "C.jpg", "format": "image/jpeg", "box_hash": True,
     "settings": {"core": {"prefer_compress_manifests": True}, "builder": {"thumbnail": {"enabled": False}}}},
    {"name": "ingredient-jpeg", "op": "ingredient", "asset": "CA.jpg", "format": "image/jpeg", "settings": NOTHUMB},
    {"name": "embeddable-jpeg", "op": "embeddable", "asset": "C.jpg", "format": "image/jpeg", "settings": NOTHUMB},
]
OPS_THOROUGH = [
    {"name": "read-boxhash", "op": "read", "asset": "boxhash.jpg", "format": "image/jpeg", "box_hash": True},
    {"name": "read-ocsp-stapled", "op": "read", "asset": "ocsp.jpg", "format": "image/jpeg"},
    {"name": "read-cawg", "op": "read", "asset": "C_with_CAWG_data.jpg", "format": "image/jpeg"},
    {"name": "read-adobe", "op": "read", "asset": "adobe-20220124-E-clm-CAICAI.jpg", "format": "image/jpeg"},
    {"name": "read-CIE", "op": "read", "asset": "CIE-sig-CA.jpg", "format": "image/jpeg"},
    {"name": "read-update", "op": "read", "asset": "update_manifest.jpg", "format": "image/jpeg"},
    {"name": "read-webp", "op": "read", "asset": "sample1.webp", "format": "image/webp", "prep": "sign"},
    {"name": "read-tiff", "op": "read", "asset": "TUSCANY.TIF", "format": "image/tiff", "prep": "sign"},
    {"name": "read-wav", "op": "read", "asset": "sample1.wav", "format": "audio/wav", "prep": "sign"},
    {"name": "sign-webp", "op": "sign", "asset": "sample1.webp", "format": "image/webp", "settings": NOTHUMB},
    {"name": "sign-wav", "op": "sign", "asset": "sample1.wav", "format": "audio/wav"},
    {"name": "sign-remote", "op": "sign", "asset": "C.jpg", "format": "image/jpeg", "remote_url": "http://example.com/verif/m.c2pa", "settings": NOTHUMB},
    {"name": "sign-jpeg-es256", "op": "sign", "asset": "earth_apollo17.jpg", "format": "image/jpeg", "alg": "es256"},
    {"name": "sign-png-boxhash", "op": "sign", "asset": "libpng-test.png", "format": "image/png", "box_hash": True,
     "settings": {"core": {"prefer_compress_manifests": True}, "builder": {"thumbnail": {"enabled": False}}}},
    {"name": "ingredient-nested", "op": "ingredient", "asset": "CACA.jpg", "format": "image/jpeg"},
    {"name": "ingredient-mp4", "op": "ingredient", "asset": "video1.mp4", "format": "video/mp4", "settings": NOTHUMB},
    {"name": "ingredient-remote", "op": "ingredient", "asset": "cloud.jpg", "format": "image/jpeg", "settings": NOTHUMB,
     "serve": {"url": CLOUD_URL, "file": "cloud_manifest.c2pa"}},
    {"name": "ingredient-plain", "op": "ingredient", "asset": "no_manifest.jpg", "format": "image/jpeg", "settings": NOTHUMB},
    {"name": "embeddable-png", "op": "embeddable", "asset": "libpng-test.png", "format": "image/png", "settings": NOTHUMB},
]


def base_case(o, cancel):
    c = {k: v for k, v in o.items()}
    c["cancel"] = cancel
    return c


# ------------------------------------------------------------------ trace -> pipeline term (shape parameters only)

class ParseError(Exception):
    pass


class P:
    def __init__(self, tr):
        self.tr, self.i = [(p, s, t) for p, s, t, *_ in tr], 0

    def peek(self):
        return self.tr[self.i] if self.i < len(self.tr) else None

    def take(self, ph, s=None, t=None):
        x = self.peek()
        if x is None or x[0] != ph or (s is not None and x[1] != s) or (t is not None and x[2] != t):
            raise ParseError(f"expected {ph} {s}/{t} at #{self.i + 1}, found {x}")
        self.i += 1
        return x

    def opt(self, ph, s=None, t=None):
        x = self.peek()
        if x is not None and x[0] == ph and (s is None or x[1] == s) and (t is None or x[2] == t):
            self.i += 1
            return True
        return False

    def segs(self, ph):
        """maximal run of ph callbacks -> (running, [(count,total)..]) or None"""
        segs = []                      # [count, total, first_step, last_step]
        while self.peek() is not None and self.peek()[0] == ph:
            _, s, t = self.take(ph)
            if segs and segs[-1][1] == t and segs[-1][3] + 1 == s:
                segs[-1][0] += 1
                segs[-1][3] = s
            else:
                segs.append([1, t, s, s])
        if not segs:
            return None
        if all(g[2] == 1 for g in segs):
            running = False
        else:
            acc = 0
            for g in segs:
                if g[2] != acc + 1:
                    raise ParseError(f"{ph}: steps neither restart at 1 nor continue: {[g[:3] for g in segs]}")
                acc += g[0]
            running = True
        return (running, [(g[0], g[1]) for g in segs])

    def ocsp(self):
        n, tot = 0, 0
        while self.peek() is not None and self.peek()[0] == "FetchingOCSP":
            _, s, t = self.take("FetchingOCSP")
            if s != n + 1:
                raise ParseError("FetchingOCSP steps")
            n, tot = n + 1, t
        return (n, tot)

    def level(self, total):
        kids = []
        for k in range(1, total + 1):
            self.take("VerifyingIngredient", k, total)
            x = self.peek()
            if x is not None and x[0] in ("FetchingOCSP", "VerifyingSignature"):
                oc = self.ocsp()
                self.take("VerifyingSignature", 1, 1)
                y = self.peek()
                if y is not None and y[0] == "VerifyingIngredient" and y[1] == 1:
                    sub = self.level(y[2])
                    kids.append(("node", oc, True, sub))
                else:
                    kids.append(("node", oc, False, []))
            else:
                kids.append(("leaf",))
        return kids

    def verify(self):
        self.take("VerifyingManifest", 1, 1)
        oc = self.ocsp()
        self.take("VerifyingSignature", 1, 1)
        kids = []
        x = self.peek()
        if x is not None and x[0] == "VerifyingIngredient":
            if x[1] != 1:
                raise ParseError("top-level ingredient step")
            kids = self.level(x[2])
        h = self.segs("VerifyingAssetHash")
        return {"ocsp": oc, "kids": kids, "hash": h}

    def end(self):
        if self.i != len(self.tr):
            raise ParseError(f"trailing callbacks from #{self.i + 1}: {self.tr[self.i:self.i + 3]}")


def nat(n):
    return f"{n}%nat"


def coq_h(h):
    return "(%s, [%s])" % ("true" if h[0] else "false", "; ".join(f"({nat(n)}, {t})" for n, t in h[1]))


def coq_opt(x, f):
    return "None" if x is None else f"(Some {f(x)})"


def coq_kid(k):
    if k[0] == "leaf":
        return "ILeaf"
    return "(INode (%s, %d) %s [%s])" % (nat(k[1][0]), k[1][1], "true" if k[2] else "false", "; ".join(coq_kid(x) for x in k[3]))


def coq_v(v):
    return "(VS (%s, %d) [%s] %s)" % (nat(v["ocsp"][0]), v["ocsp"][1], "; ".join(coq_kid(k) for k in v["kids"]), coq_opt(v["hash"], coq_h))


def term_of(op, trace):
    """the pipeline term of Model/Progress.v for this operation, with the loop counts of the uncancelled trace"""
    p = P(trace)
    f = "current_flags"
    if op["op"] == "read":
        p.take("Reading", 1, 1)
        remote = p.opt("FetchingRemoteManifest", 1, 1)
        v = p.verify()
        p.end()
        return f"read_stream {f} {'true' if remote else 'false'} {coq_v(v)}"
    if op["op"] in ("read_sidecar", "read_fragment"):
        v = p.verify()
        p.end()
        return f"read_sidecar {f} {coq_v(v)}"
    if op["op"] == "ingredient":
        p.take("AddingIngredient", 1, 1)
        remote = p.opt("FetchingRemoteManifest", 1, 1)
        if p.peek() is None:
            # no manifest: loading fails (JumbfNotFound) inside the catch site, nothing after the first checkpoint
            return f"Seq (Tick AddingIngredient 1 1) (Catch (ingredient_status_pass {f}) CIngredientStatus (Raise COther))"
        v = p.verify()
        p.end()
        return f"ingredient_import {f} {'true' if remote else 'false'} {coq_v(v)}"
    if op["op"] == "sign":
        th = p.opt("Thumbnail", 1, 1)
        p.take("Writing", 1, 2)
        pre = p.segs("Hashing")
        p.take("Writing", 2, 2)
        post = p.segs("Hashing")
        p.take("Signing", 1, 1)
        p.take("Embedding", 1, 1)
        v = p.verify() if p.peek() is not None else None
        p.end()
        return (f"sign_stream {f} (SS {'true' if th else 'false'} {coq_opt(pre, coq_h)} {coq_opt(post, coq_h)} {coq_opt(v, coq_v)})")
    if op["op"] == "embeddable":
        h = p.segs("Hashing")
        if h is None:
            raise ParseError("embeddable: no Hashing callbacks")
        p.take("Signing", 1, 1)
        v = p.verify() if p.peek() is not None else None
        p.end()
        return f"sign_embeddable {f} {coq_h(h)} {coq_opt(v, coq_v)}"
    raise ParseError("unknown op")


IMPORTS = ("From C2PA Require Import Model.Progress Generated.C23_facts.\nFrom Coq Require Import NArith List.\n"
           "Import ListNotations.\nOpen Scope N_scope.")


def env_expr(cancel):
    k = cancel["kind"]
    if k == "none":
        return "never"
    if k == "cb":
        return f"(cb_false_at {cancel['k']}%nat)"
    if k == "flag":
        return f"(flag_from {cancel['k']}%nat)"
    if k == "pre":
        return "(flag_from 0%nat)"
    return None


# ------------------------------------------------------------------ oracle (the property text on the implementation alone)

def wf_violation(trace):
    """step >= 1; step <= total when total > 0; steps strictly increase within a run of callbacks of one phase"""
    prev = None
    for i, (ph, s, t, *_) in enumerate(trace):
        if s < 1:
            return (i, ph, "step < 1")
        if t > 0 and s > t:
            return (i, ph, "step > total")
        if prev is not None and prev[0] == ph and not (prev[1] < s):
            return (i, ph, "restart" if s == 1 else "not increasing")
        prev = (ph, s)
    return None


def request_index(case, r):
    """1-based index of the callback at which cancellation was (first) requested, or None"""
    tr = r.get("trace", [])
    k = case["cancel"]["kind"]
    if k in ("cb", "flag"):
        return case["cancel"]["k"] if case["cancel"]["k"] <= len(tr) else None
    if k == "pre":
        return 1 if tr else 0
    if k == "thread":
        for i, x in enumerate(tr):
            if x[3]:
                return i + 1
    return None


def oracle(ctx, case, r, stats):
    mi = {k: v for k, v in case.items()}
    if r["r"] in ("panic", "crash"):
        ctx.report_violation(case, f"harness failed: {r.get('msg')}", mi)
        return
    tr = r.get("trace", [])
    w = wf_violation(tr)
    if w is not None:
        i, ph, what = w
        mi2 = dict(mi, step_violation=what, violation_phase=ph, box_hash=bool(case.get("box_hash")))
        ctx.report_violation(case, f"progress steps: {what} at callback #{i + 1} {tr[i][:3]} (previous {tr[i - 1][:3] if i else None})", mi2)
    q = request_index(case, r)
    if q is None:
        stats["not_requested"] += 1
        return
    stats["requested"] += 1
    ph = tr[q - 1][0] if q >= 1 and tr else "before-first-checkpoint"
    stats["request_phase"][ph] = stats["request_phase"].get(ph, 0) + 1
    cancelled = r["r"] == "err" and r.get("kind") == "OperationCancelled"
    mi2 = dict(mi, req_index=q, req_phase=ph, req_step=(tr[q - 1][1:3] if q >= 1 and tr else None), outcome=(r["r"], r.get("kind")),
               failure=r.get("failure", []))
    if not cancelled:
        how = (f"Ok (state {r.get('state')}, failures {r.get('failure')})" if r["r"] == "ok" else f"Err({r.get('kind')})")
        ctx.report_violation(case, f"cancellation requested at callback #{q} ({ph} {tr[q - 1][1]}/{tr[q - 1][2]}) but the operation ended with {how} "
                                   f"after {len(tr)} callbacks", mi2)


# ------------------------------------------------------------------ run

def impl_result(r):
    if r["r"] == "ok":
        return "ROk"
    k = r.get("kind")
    if k == "OperationCancelled":
        return "RCancel"
    if k == "InvalidManifest":
        return ["RErr", "CInvalidManifest"]
    return ["RErr", str(k)]


def run_ops(ctx, ops, delays, max_k):
    stats = {"ops": {}, "requested": 0, "not_requested": 0, "request_phase": {}, "kinds": {}, "callbacks_per_op": {}, "unparsed": []}
    # 1. uncancelled runs
    base = [base_case(o, {"kind": "none"}) for o in ops]
    for i, c in enumerate(base):
        c["id"] = i
    r0 = _par.run_harness("c23", base, tag="base")
    cases, terms = [], {}
    for o, c in zip(ops, base):
        r = r0[c["id"]]
        oracle(ctx, c, r, stats)
        if r["r"] != "ok":
            # the operation does not succeed on this asset even when nobody cancels: not a usable subject
            stats.setdefault("skipped_ops", {})[o["name"]] = r.get("kind") or r["r"]
            continue
        n = len(r["trace"])
        stats["callbacks_per_op"][o["name"]] = n
        try:
            terms[o["name"]] = term_of(o, r["trace"])
        except ParseError as ex:
            terms[o["name"]] = None
            ctx.disagreements.append({"case": c, "impl": [x[:3] for x in r["trace"]][:40], "model": f"trace does not fit the pipeline term: {ex}"})
        cases.append((o, c, r))
        ks = list(range(1, n + 1)) if n <= max_k else sorted(set(ctx.rng.sample(range(1, n + 1), max_k - 4) + [1, 2, n - 1, n]))
        for k in ks + [n + 1]:
            cases.append((o, base_case(o, {"kind": "cb", "k": k}), None))
            cases.append((o, base_case(o, {"kind": "flag", "k": k}), None))
        cases.append((o, base_case(o, {"kind": "pre"}), None))
        for d in delays:
            cases.append((o, base_case(o, {"kind": "thread", "delay_us": d}), None))
    todo = [c for _, c, r in cases if r is None]
    for i, c in enumerate(todo):
        c["id"] = 1000 + i
    rs = _par.run_harness("c23", todo, tag="cancel")
    # 2. model
    exprs, idx = [], []
    for j, (o, c, r) in enumerate(cases):
        t = terms.get(o["name"])
        e = env_expr(c["cancel"])
        if t is not None and e is not None:
            exprs.append(f"show (run {e} ({t}) 0)")
            idx.append(j)
    model = common.coq_eval("C23", IMPORTS, exprs, shard_size=60) if exprs else []
    mres = dict(zip(idx, model))
    # 3. oracle + correspondence
    for j, (o, c, r) in enumerate(cases):
        if r is None:
            r = rs[c["id"]]
            oracle(ctx, c, r, stats)
        stats["ops"][o["name"]] = stats["ops"].get(o["name"], 0) + 1
        stats["kinds"][c["cancel"]["kind"]] = stats["kinds"].get(c["cancel"]["kind"], 0) + 1
        if r["r"] in ("panic", "crash"):
            continue
        if j in mres:
            mtr, mlg, mr = mres[j]
            mtr = [[p, s, t] for p, s, t in mtr]
            itr = [x[:3] for x in r["trace"]]
            ir = impl_result(r)
            ok = mtr == itr and mr == ir
            if ok and o["op"].startswith("read") and ir == "ROk":
                mism = any(re.fullmatch(r"assertion\.(dataHash|bmffHash|boxesHash|boxHash)\.mismatch", x) for x in r.get("failure", []))
                ok = ("CHashMismatch" in mlg) == mism
            if not ok:
                ctx.disagreements.append({"case": c, "impl": [itr[-3:], len(itr), ir, r.get("failure")], "model": [mtr[-3:], len(mtr), mr, mlg]})
        elif c["cancel"]["kind"] == "thread":
            # sampled schedule: the callbacks made are a prefix of the uncancelled run's
            full = [x[:3] for x in next(rr for oo, cc, rr in cases if oo is o and rr is not None)["trace"]]
            itr = [x[:3] for x in r["trace"]]
            if itr != full[:len(itr)]:
                ctx.disagreements.append({"case": c, "impl": itr[-3:], "model": "not a prefix of the uncancelled trace"})
    stats["unparsed"] = [k for k, v in terms.items() if v is None]
    return stats, len(cases)


def corpus():
    p = os.path.join(common.VERIF, "corpus", "C23.jsonl")
    if not os.path.exists(p):
        return []
    return [json.loads(l) for l in open(p) if l.strip()]


def replay_cases(ctx, cases):
    stats = {"requested": 0, "not_requested": 0, "request_phase": {}}
    for i, c in enumerate(cases):
        c["id"] = i
    rs = _par.run_harness("c23", cases, tag="replay")
    for c in cases:
        oracle(ctx, c, rs[c["id"]], stats)
    return stats


def run(ctx):
    if not getattr(ctx, "no_build", False):
        common.build_harness()
    if ctx.replay:
        cases = [ctx.replay["case"]] if "case" in ctx.replay else [d["case"] for d in ctx.replay.get("disagreements", [])]
        stats = replay_cases(ctx, cases)
        ctx.coverage.update({"evaluations": len(cases), "distribution": stats})
        return
    cstats = replay_cases(ctx, corpus())
    if ctx.quick():
        ops, delays, max_k = OPS_QUICK, [ctx.rng.randrange(0, 400000) for _ in range(4)] + [0, 50], 40
    else:
        ops, max_k = OPS_QUICK + OPS_THOROUGH, 10 ** 6
        delays = [0, 50] + [ctx.rng.randrange(0, 3000000) for _ in range(24)]
    stats, n = run_ops(ctx, ops, delays, max_k)
    stats["corpus"] = cstats
    ctx.coverage.update({
        "evaluations": n + len(corpus()),
        "distinct_nontrivial": stats["requested"],
        "rule": "per operation x asset: the uncancelled run, then the callback answering false at its k-th invocation and Context::cancel() "
                "during the k-th invocation for every k up to the number of invocations (+1 beyond), cancel() before the start, and cancel() "
                "from another thread at seeded delays; non-trivial = cancellation was requested at a callback that was actually made",
        "distribution": stats,
        "traces_validated_against_impl": n,
        "samples": [dict(base_case(o, {"kind": "cb", "k": 2})) for o in ops[:3]],
    })


def search(ctx):
    common.build_harness()
    stats, n = run_ops(ctx, OPS_QUICK + OPS_THOROUGH, [ctx.rng.randrange(0, 3000000) for _ in range(12)], 10 ** 6)
    ctx.coverage["search_evaluations"] = n
