"""C08 — same-size manifest replacement only changes the reported manifest region."""
import base64, json, os
from .. import common
from . import _containers as K

PROP_FILE = "Properties/C08.v"
TRUSTED = ["segment-level models of .c2pa/PNG/JPEG/GIF/RIFF handlers and their object-location functions (coq/Model/Cont*.v); "
           "dec(enc) proved for PNG and JPEG, GIF/RIFF byte decoders tied by the correspondence run",
           "formats without a model (TIFF, SVG, MP3, FLAC, JPEG XL) are covered by the oracle run on fixtures only: partial; "
           "BMFF and .c2pa handlers report no manifest region at all (get_object_locations_from_stream returns an empty list): "
           "locality is checked against the box/file itself, region clauses are not applicable"]
ASSUMPTIONS = ["admissible stores and assets as for C07", "the region is the one reported by CAIWriter::get_object_locations_from_stream "
               "on the written asset (hook verif_object_locations_from_memory)"]

FIVE = ["c2pa", "png", "jpeg", "gif", "riff"]


def facts(ctx):
    K.facts(ctx)


def gen_cases(ctx):
    rng = ctx.rng
    quick = ctx.quick()
    cases = []
    lens = [28, 41, 100, 255, 256, 300, 511] if quick else list(range(28, 301)) + [509, 510, 511, 765, 766, 1000, 4096]
    for fam in FIVE:
        for vi, (fmt, name, mk) in enumerate(K.TINY[fam]):
            a = mk()
            for n in lens:
                if not quick and (n + vi) % 3 and n > 64:
                    continue                                      # thorough: every length on a third of the variants
                ops = [{"op": "w", "s": {"gen": [n, 1]}}, {"op": "w", "s": {"gen": [n, 2]}}]
                if (n + vi) % 2:                                   # state: a manifest of another size is already embedded
                    ops = [{"op": "w", "s": {"gen": [n + 17, 5]}}] + ops
                cases.append({"fmt": fmt, "name": name, "asset": {"hex": a.hex()}, "ops": ops, "grp": "pairs"})
    # arbitrary (non-generated) equal-length stores: random bytes after the 38-byte header
    for i in range(40 if quick else 400):
        fam = FIVE[i % 5]
        fmt, name, mk = K.TINY[fam][rng.randrange(len(K.TINY[fam]))]
        n = rng.randrange(38, 400)
        b1 = K.store(n, 1)[:38] + bytes(rng.randrange(256) for _ in range(n - 38))
        b2 = K.store(n, 1)[:38] + bytes(rng.randrange(256) for _ in range(n - 38))
        cases.append({"fmt": fmt, "name": name, "asset": {"hex": mk().hex()},
                      "ops": [{"op": "w", "s": {"hex": b1.hex()}}, {"op": "w", "s": {"hex": b2.hex()}}], "grp": "random"})
    M = ctx.facts["MAX_JPEG_MARKER_SIZE"] if getattr(ctx, "facts", None) else 64000
    for n in ([M, M + 1] if quick else [M - 1, M, M + 1, 2 * M, 2 * M + 1, 3 * M + 1]):
        for name in ("plain", "xmp"):
            a = K.build_jpeg(variant=name)
            cases.append({"fmt": "jpg", "name": name, "asset": {"hex": a.hex()},
                          "ops": [{"op": "w", "s": {"gen": [n, 1]}}, {"op": "w", "s": {"gen": [n, 2]}}], "grp": "boundary"})
    # JPEG layouts with a stand-alone marker / a foreign JUMBF box with the same instance number (one and several packets)
    for name in ("tem", "tem_first", "foreign_same_en", "foreign_same_en_multi", "fill"):
        a = K.build_jpeg(variant=name)
        cases.append({"fmt": "jpg", "name": name, "asset": {"hex": a.hex()},
                      "ops": [{"op": "w", "s": {"gen": [100, 1]}}, {"op": "w", "s": {"gen": [100, 2]}}], "grp": "special"})
    for fmt in ("video/msvideo", "video/avi"):
        a = K.build_riff(variant="avi_avix")
        cases.append({"fmt": fmt, "name": "avi_avix", "asset": {"hex": a.hex()},
                      "ops": [{"op": "w", "s": {"gen": [101, 1]}}, {"op": "w", "s": {"gen": [101, 2]}}], "grp": "special"})
    for fmt, fn in K.fixtures():
        ops = [{"op": "w", "s": {"gen": [100, 1]}}, {"op": "w", "s": {"gen": [100, 2]}}]
        if not quick:
            ops += [{"op": "w", "s": {"gen": [4097, 1]}}, {"op": "w", "s": {"gen": [4097, 2]}}]
        cases.append({"fmt": fmt, "name": fn, "asset": {"fixture": fn}, "ops": ops, "grp": "fixture"})
    return cases


def corpus():
    p = os.path.join(common.VERIF, "corpus", "C08.jsonl")
    if not os.path.exists(p):
        return []
    return [json.loads(l) for l in open(p) if l.strip()]


def region_contains_store(fam, region, b):
    """the embedded store, as the format carries it, lies inside the region"""
    if fam == "svg":
        return base64.b64encode(b) in region
    size = {"jpeg": 64000, "gif": 255}.get(fam, len(b))
    pos = 0
    for i in range(0, len(b), size):
        k = region.find(b[i:i + size], pos)
        if k < 0:
            return False
        pos = k + len(b[i:i + size])
    return True


def oracle(ctx, c, r, stats):
    fam = K.family(c["fmt"])
    if r.get("r") in ("panic", "crash"):
        ctx.report_violation(c, f"implementation panicked: {r.get('msg')}", {"cls": "panic", "fam": fam})
        return
    steps = r["steps"]
    flags = K.jpeg_flags(K.load_asset(c["asset"])) if fam == "jpeg" else {}
    for k in range(len(steps)):
        o, s = c["ops"][k], steps[k]
        if o["op"] != "w" or s["r"] != "ok":
            continue
        b = K.store_bytes(o["s"])
        if not K.admissible(fam, b):
            continue
        mi = dict(flags, fam=fam, fmt=c["fmt"], step=k, name=c.get("name"))
        out = K.step_bytes(s)
        loc = s["loc"]
        cai = None
        if loc["r"] != "ok":
            ctx.report_violation(c, f"step {k}: object locations of the written asset failed: {loc.get('kind')}", dict(mi, cls="loc-error"))
        else:
            regs = loc["list"]
            cais = [x for x in regs if x[2] == "Cai"]
            if not cais:
                stats["no_region"] += 1          # BMFF / .c2pa: the handler reports nothing; only the diff can be checked
            elif len(cais) > 1:
                ctx.report_violation(c, f"step {k}: {len(cais)} manifest regions reported", dict(mi, cls="regions"))
            else:
                cai = cais[0]
                stats["regions"] += 1
                if cai[0] + cai[1] > len(out):
                    ctx.report_violation(c, f"step {k}: manifest region [{cai[0]},+{cai[1]}) reaches past the file ({len(out)} bytes)", dict(mi, cls="bounds"))
                elif not region_contains_store(fam, out[cai[0]:cai[0] + cai[1]], b):
                    ctx.report_violation(c, f"step {k}: manifest region [{cai[0]},+{cai[1]}) does not contain the embedded store", dict(mi, cls="contains"))
                for x in regs:
                    if x is cai:
                        continue
                    if x[1] > 0 and x[0] < cai[0] + cai[1] and cai[0] < x[0] + x[1]:
                        ctx.report_violation(c, f"step {k}: region {x} overlaps the manifest region {cai}", dict(mi, cls="overlap"))
                        break
                    if x[0] + x[1] > len(out):
                        ctx.report_violation(c, f"step {k}: region {x} reaches past the file ({len(out)} bytes)", dict(mi, cls="bounds-other"))
                        break
        # same-length replacement
        if k + 1 < len(steps) and c["ops"][k + 1]["op"] == "w" and steps[k + 1]["r"] == "ok":
            b2 = K.store_bytes(c["ops"][k + 1]["s"])
            if len(b2) != len(b) or not K.admissible(fam, b2):
                continue
            out2 = K.step_bytes(steps[k + 1])
            stats["pairs"] += 1
            if len(out2) != len(out):
                ctx.report_violation(c, f"step {k + 1}: same-length replacement changed the file length {len(out)} -> {len(out2)}", dict(mi, cls="length"))
                continue
            diff = [i for i in range(len(out)) if out[i] != out2[i]] if out != out2 else []
            if cai is not None:
                bad = [i for i in diff if not (cai[0] <= i < cai[0] + cai[1])]
                if bad:
                    ctx.report_violation(c, f"step {k + 1}: same-length replacement changed byte {bad[0]} outside the manifest region [{cai[0]},+{cai[1]})",
                                         dict(mi, cls="outside"))
            elif fam in ("bmff", "c2pa") and diff:
                lo, hi = diff[0], diff[-1]
                if fam == "bmff" and hi - lo > len(b) + 64:
                    ctx.report_violation(c, f"step {k + 1}: same-length replacement changed bytes {lo}..{hi}, wider than the store", dict(mi, cls="outside"))


def run(ctx):
    if not getattr(ctx, "no_build", False):
        common.build_harness()
    if not getattr(ctx, "facts", None):
        try:
            K.facts(ctx)
        except common.TieBroken:
            ctx.facts = None
    if ctx.replay:
        cases = [ctx.replay["case"]] if "case" in ctx.replay else [d["case"] for d in ctx.replay.get("disagreements", [])]
    else:
        cases = corpus() + gen_cases(ctx)
    impl, nmodel = K.execute(ctx, "C08", cases)
    stats = {"pairs": 0, "regions": 0, "no_region": 0, "by_family": {}, "groups": {}, "store_len": {}}
    distinct = set()
    for c in cases:
        fam = K.family(c["fmt"])
        stats["by_family"][fam] = stats["by_family"].get(fam, 0) + 1
        stats["groups"][c.get("grp", "corpus")] = stats["groups"].get(c.get("grp", "corpus"), 0) + 1
        for o in c["ops"]:
            if o["op"] == "w":
                n = o["s"]["gen"][0] if "gen" in o["s"] else len(o["s"]["hex"]) // 2
                stats["store_len"][K.len_bucket(n)] = stats["store_len"].get(K.len_bucket(n), 0) + 1
        distinct.add((c["fmt"], c.get("name"), json.dumps(c["ops"], sort_keys=True)))
        oracle(ctx, c, impl[c["id"]], stats)
    ctx.coverage.update({
        "evaluations": len(cases), "distinct_nontrivial": len(distinct),
        "rule": "corpus + pairs of equal-length stores (generated and random) x every tiny asset variant (fresh / existing manifest / XMP / "
                "extra segments) x states (fresh, manifest of another size embedded first) + JPEG segment-split boundaries + fixtures of "
                "every writable format; non-trivial = at least one same-length pair; distinct by (format, asset, operations)",
        "distribution": stats,
        "model_compared": nmodel,
        "level_by_format": {"c2pa": "full (no region reported: locality is trivial, the whole file is the store)", "png": "full",
                            "jpeg": "full (segment level)", "gif": "full (segment level)", "riff": "full (segment level)",
                            "bmff": "partial: no region reported by the handler; diff width checked on fixtures",
                            "tiff": "partial: oracle on fixtures only", "svg": "partial: oracle on fixtures only",
                            "mp3": "partial: oracle on fixtures only", "flac": "partial: oracle on fixtures only",
                            "jxl": "partial: oracle on fixtures only"},
        "samples": [K.sample(c) for c in cases[:2] + cases[len(cases) // 2: len(cases) // 2 + 2]],
    })


def search(ctx):
    common.build_harness()
    saved = ctx.tier
    ctx.tier = "thorough"
    cases = gen_cases(ctx)
    ctx.tier = saved
    impl, _ = K.execute(ctx, "C08", cases, with_model=False)
    stats = {"pairs": 0, "regions": 0, "no_region": 0}
    for c in cases:
        oracle(ctx, c, impl[c["id"]], stats)
    ctx.coverage["search_evaluations"] = len(cases)
