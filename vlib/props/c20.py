"""C20 — Redaction removes exactly the requested assertions and stays verifiable."""
import itertools, json, os, re
from .. import common
from ..common import TieBroken, coq_list
from ._e2e_par import run_par

PROP_FILE = "Properties/C20.v"
TRUSTED = ["URI parsing (jumbf::labels::manifest_label_from_uri, Claim::assertion_label_from_link) is not modelled: the model keeps "
           "URIs in parsed form and renders them for the substring tests; checked by the run on every generated case",
           "hash of an assertion box / manifest box / signature box are parameters (H, MH, SH); the signature box is assumed to "
           "depend on the signed claim only (hypothesis of c20_ingredient_still_matches)",
           "signatures, CBOR, JUMBF, data boxes, ingredient-thumbnail instance syntax, the relabelling branch of "
           "load_ingredient_to_claim: run only"]
ASSUMPTIONS = ["debug-profile harness; ed25519 test certificates; fixtures no_manifest.jpg / libpng-test.png",
               "crafted stores are produced by Builder::verif_c21_* and Claim::verif_c20_* hooks"]

CODES = {"SelfRedacted": "assertion.selfRedacted", "ActionRedacted": "assertion.action.redacted",
         "HashRedacted": "assertion.dataHash.redacted", "HashedUriMismatch": "assertion.hashedURI.mismatch",
         "AssertionMissing": "assertion.missing", "AssertionUndeclared": "assertion.undeclared",
         "IngredientManifestMismatch": "ingredient.manifest.mismatch", "ClaimSignatureMismatch": "ingredient.claimSignature.mismatch",
         "IngredientManifestMissing": "ingredient.manifest.missing"}
MODELLED = set(CODES.values())
ERR = {"EInvalidRedaction": "AssertionInvalidRedaction", "ERedactionNotFound": "AssertionRedactionNotFound"}


def bl(s):
    return "[" + ";".join(str(c) for c in s.encode()) + "]"


def facts(ctx):
    ties = []          # shape fragments that no longer match: reported as a broken tie, the run goes on
    lt = common.src("sdk/src/assertions/labels.rs")

    def const(name):
        return common.fact(r"pub(?:\(crate\))?\s+const\s+" + name + r"\s*:\s*&str\s*=\s*\"([^\"]+)\";", lt, name).group(1)
    actions = const("ACTIONS")
    m = common.fact(r"pub\s+const\s+HASH_LABELS\s*:\s*\[&str;\s*(\d+)\]\s*=\s*\[([^\]]*)\];", lt, "HASH_LABELS")
    names = [x.strip() for x in m.group(2).split(",") if x.strip()]
    if len(names) != int(m.group(1)):
        raise TieBroken("srcfacts: HASH_LABELS does not parse")
    hashes = [const(n) for n in names]
    astore, dstore = const("ASSERTION_STORE"), const("DATABOX_STORE")
    t = common.strip_tests(common.src("sdk/src/claim.rs"))
    ra = common.fn_body(t, r"fn\s+redact_assertion\s*\(", "redact_assertion")
    mp = common.fact(r"label\.starts_with\(assertions::labels::ACTIONS\)\s*\|\|\s*label\.starts_with\(\"([^\"]+)\"\)", ra, "redact_assertion label test")
    hprefix = mp.group(1)
    for frag in ("return Err(Error::AssertionInvalidRedaction);", "if manifest != self.label() {", "if assertion_uri.contains(ASSERTION_STORE) {",
                 "self.assertion_store.remove(index);", "Err(Error::AssertionRedactionNotFound)"):
        if frag not in ra:
            ties.append(f"srcfacts: redact_assertion no longer contains `{frag}`")
    vi = common.fn_body(t, r"fn\s+verify_internal\s*\(", "verify_internal")
    for frag in ("if r.contains(claim.label()) {", "if r.contains(labels::ACTIONS) {", "labels::HASH_LABELS.iter().any(|label| r.contains(label))",
                 "r_label == label && r_instance == instance", "if r_manifest == claim.label() {",
                 "if !vec_compare(ca.hash(), &assertion.hash()) {", "ca_tracking_list.swap_remove(index);", "if !ca_tracking_list.is_empty() {"):
        if frag not in vi:
            ties.append(f"srcfacts: verify_internal no longer contains `{frag}`")
    ad = common.fn_body(t, r"fn\s+add_ingredient_data\s*\(", "add_ingredient_data")
    for frag in (".find(|x| redaction.contains(x.label()))", "claim.redact_assertion(redaction)?;", "applied_redactions.push(redaction.clone());",
                 "Some(existing) => existing.extend(applied_redactions),"):
        if frag not in ad:
            ties.append(f"srcfacts: add_ingredient_data no longer contains `{frag}`")
    s = common.strip_tests(common.src("sdk/src/store.rs"))
    ic = common.fn_body(s, r"fn\s+ingredient_checks\s*\(", "ingredient_checks")
    for frag in ("let has_redactions = svi.redactions.iter().any(|r| r.contains(&label));", "let manifests_match = if !has_redactions {",
                 "if !manifests_match && !has_redactions {", "if !manifests_match && has_redactions && ingredient_version > 1 {",
                 "&ingredient_hashes.signature_box_hash,"):
        if frag not in ic:
            ties.append(f"srcfacts: ingredient_checks no longer contains `{frag}`")
    md = common.fn_body(s, r"fn\s+manifest_differs_by_redaction\s*\(", "manifest_differs_by_redaction")
    for frag in ("if d1 != d2 {", "if c1.signature_val() != c2.signature_val() {", "c1_set.symmetric_difference(&c2_set)",
                 "if redact_matches == differences.len() {"):
        if frag not in md:
            ties.append(f"srcfacts: manifest_differs_by_redaction no longer contains `{frag}`")
    li = common.fn_body(s, r"pub\s+fn\s+load_ingredient_to_claim\s*\(", "load_ingredient_to_claim")
    for frag in ("if !claim_redactions.is_empty() && svi.redactions.is_empty() {", "} else if claim_redactions.is_empty() && !svi.redactions.is_empty() {",
                 "to_both.append(&mut differences);"):
        if frag not in li:
            ties.append(f"srcfacts: load_ingredient_to_claim no longer contains `{frag}`")
    bt = common.strip_tests(common.src("sdk/src/builder.rs"))
    if not re.search(r"if\s+!applied\.contains\(redaction\)\s*\{\s*return\s+Err\(Error::AssertionRedactionNotFound\);", bt):
        ties.append("srcfacts: Builder::to_claim no longer checks that every requested redaction was applied")
    v = ("(* generated from sdk/src/assertions/labels.rs and sdk/src/claim.rs on every run — do not edit *)\n"
         "From Coq Require Import NArith List.\nImport ListNotations.\nLocal Open Scope N_scope.\n"
         f"(* \"{actions}\" *)\nDefinition L_ACTIONS : list N := {bl(actions)}.\n"
         f"(* \"{hprefix}\" : the prefix tested by Claim::redact_assertion *)\nDefinition L_HASH_PREFIX : list N := {bl(hprefix)}.\n"
         "(* " + ", ".join(hashes) + " *)\nDefinition HASH_LABELS : list (list N) := [" + "; ".join(bl(x) for x in hashes) + "].\n"
         f"(* \"{astore}\" *)\nDefinition L_ASSERTION_STORE : list N := {bl(astore)}.\n"
         f"(* \"{dstore}\" *)\nDefinition L_DATABOX_STORE : list N := {bl(dstore)}.\n")
    common.write_if_changed(os.path.join(common.COQ, "Generated", "C20_facts.v"), v)
    ctx.facts = {"actions": actions, "hashes": hashes}
    if ties:
        if getattr(ctx, "tie_errors", None) is not None:
            ctx.tie_errors.extend(ties)
        else:
            raise TieBroken("; ".join(ties))


# ------------------------------------------------------------------ cases

def tgt(m, a):
    return {"m": m, "a": a}


SHARED = 9        # every level also carries an assertion labelled com.verif.shared (index 9)


# with "sib": level 0 also carries same-label siblings (stored as dup, dup__1, dup__2) and two labels one of which is a
# prefix of the other (harness SIBLINGS)
SIBLINGS = {20: "com.verif.dup", 21: "com.verif.dup__1", 22: "com.verif.dup__2", 30: "org.va", 31: "org.vab"}


def custom(level, i):
    if i in SIBLINGS:
        return SIBLINGS[i]
    return "com.verif.shared" if i == SHARED else f"com.verif.a{level}_{i}"


def split_inst(label):
    m = re.fullmatch(r"(.*)__(\d+)", label)
    return (m.group(1), int(m.group(2))) if m else (label, 0)


def all_customs(levels):
    return [(l, i) for l, n in enumerate(levels) for i in list(range(n)) + [SHARED]]


def builder_case(fmt, levels, subset, intent="edit"):
    return {"fmt": fmt, "levels": levels, "kind": "subset",
            "top": {"intent": intent, "redact": [tgt(l, custom(l, i)) for l, i in subset]}, "post": []}


def gen_cases(ctx):
    rng = ctx.rng
    q = ctx.quick()
    cases = []
    layouts = [[3], [1, 1], [1, 0, 0]]          # 4 redactable assertions each (customs + one shared per level)
    # 1. every subset of the redactable custom assertions (exhaustive in the thorough tier)
    for li, levels in enumerate(layouts):
        cs = all_customs(levels)
        subsets = [list(s) for k in range(len(cs) + 1) for s in itertools.combinations(cs, k)]
        if q:
            pick = [subsets[0], subsets[-1]] + rng.sample(subsets[1:-1], 1)
        else:
            pick = subsets
        for j, s in enumerate(pick):
            rng.shuffle(s)
            fmt = ("png" if li == 1 else "jpeg") if q else ("png" if j % 2 else "jpeg")
            cases.append(builder_case(fmt, levels, s, "update" if (li + j) % 2 else "edit"))
    # 2. disallowed / odd targets through the Builder
    odd = [("actions", lambda d: [tgt(rng.randrange(d), "c2pa.actions.v2")]),
           ("hash", lambda d: [tgt(rng.randrange(d), "c2pa.hash.data")]),
           ("self", lambda d: [tgt("self", "com.verif.top")]),
           ("foreign", lambda d: [tgt("none", custom(0, 0))]),
           ("missing", lambda d: [tgt(0, "com.verif.nosuch")]),
           ("twice", lambda d: [tgt(0, custom(0, 0)), tgt(0, custom(0, 0))]),
           ("mixed", lambda d: [tgt(0, custom(0, 0)), tgt(d - 1, "c2pa.actions.v2")])]
    for name, f in odd:
        for levels in ([[1]] if q else [[1], [1, 1], [1, 1, 1]]):
            cases.append({"fmt": "jpeg", "levels": levels, "kind": "builder-" + name, "top": {"intent": rng.choice(["edit", "update"]), "redact": f(len(levels))}, "post": []})
    # 3. crafted stores
    def craft(levels, redact, unlisted=(), lst=None, kind="", post=()):
        return {"fmt": "jpeg", "levels": levels, "kind": kind, "post": [list(p) for p in post],
                "top": {"intent": "edit", "redact": redact, "craft": {"unlisted": list(unlisted), "list": lst}}}
    depth_sets = [[2]] if q else [[2], [1, 1], [1, 1, 1]]
    if q:
        # depth 2 in the quick tier: the two crafted cases that need a chain
        cases.append(craft([1, 1], [tgt(1, "com.verif.shared")], unlisted=[tgt(0, "com.verif.shared")], kind="entry-for-other-manifest"))
        cases.append(craft([1, 1], [], unlisted=[tgt(rng.randrange(2), custom(0, 0) if False else "com.verif.shared")], kind="unlisted-removal"))
    for levels in depth_sets:
        d = len(levels)
        lv = rng.randrange(d)
        cases.append(craft(levels, [], unlisted=[tgt(lv, custom(lv, 0))], kind="unlisted-removal"))
        cases.append(craft(levels, [], lst=[tgt(lv, "c2pa.actions.v2")], kind="listed-actions"))
        cases.append(craft(levels, [], lst=[tgt(lv, "c2pa.hash.data")], kind="listed-hash"))
        cases.append(craft(levels, [], lst=[tgt("self", "com.verif.top")], kind="listed-self"))
        if levels[0] >= 2:
            cases.append(craft(levels, [tgt(0, custom(0, 0))], unlisted=[tgt(0, custom(0, 1))], kind="unlisted-removal"))
            cases.append(craft(levels, [tgt(0, custom(0, 0))], lst=[], kind="entry-dropped"))
        cases.append(craft(levels, [], lst=[tgt(lv, custom(lv, 0))], kind="over-listed"))
        if d >= 2:
            # the entry names the same label in another manifest of the chain
            a, b2 = rng.sample(range(d), 2)
            cases.append(craft(levels, [tgt(a, "com.verif.shared")], unlisted=[tgt(b2, "com.verif.shared")], kind="entry-for-other-manifest"))
        cases.append(craft(levels, [], lst=[tgt("none", custom(0, 0))], kind="foreign-listed"))
    # 4. post-hoc overwrite of a payload in the output asset
    for levels in depth_sets:
        d = len(levels)
        lv = rng.randrange(d)
        c = builder_case("jpeg", levels, [], "edit")
        c["post"] = [[lv, 0]]
        c["kind"] = "post-overwrite"
        cases.append(c)
        if levels[0] >= 2:
            c = builder_case("jpeg", levels, [(0, 0)], "update")
            c["post"] = [[0, 1]]
            c["kind"] = "post-overwrite"
            cases.append(c)
    # 5. siblings: several assertions sharing a label / labels that are prefixes of one another; one is redacted, then the
    #    payload of a surviving sibling is overwritten in the finished asset
    sib = [(21, 20), (31, 30), (22, 21), (22, 20)] if q else [(21, 20), (31, 30), (22, 21), (22, 20), (21, 22), (20, 21), (30, 31), (20, 22)]
    for red, tam in sib:
        c = builder_case("jpeg", [1], [(0, red)], rng.choice(["edit", "update"]))
        c["sib"] = True
        c["post"] = [[0, tam]]
        c["kind"] = "sibling-tamper"
        cases.append(c)
    c = builder_case("jpeg", [1], [(0, 21), (0, 31)], "edit")
    c["sib"] = True
    c["kind"] = "sibling-subset"
    cases.append(c)
    return cases


def corpus():
    p = os.path.join(common.VERIF, "corpus", "C20.jsonl")
    if not os.path.exists(p):
        return []
    return [json.loads(l) for l in open(p) if l.strip()]


# ------------------------------------------------------------------ model

HEADER = r'''From C2PA Require Import Base.Bytes Model.ByteStr Model.Redact.
From Coq Require Import NArith List Bool String.
Import ListNotations.
Open Scope N_scope.
Definition Hh (d : bytes) : bytes := d.
Definition enc_a (a : assertion) : bytes := a_label a ++ [0] ++ a_data a ++ [0].
Definition MHh (m : manifest) : bytes := m_label m ++ [0] ++ List.concat (map enc_a (m_store m)).
Definition SHh (m : manifest) : bytes :=
  m_label m ++ [1] ++ List.concat (map (fun h => h_label h ++ [0]) (m_assertions m)) ++ List.concat (map render (m_redactions m)).
Definition mk (label : bytes) (asrts : list assertion) (ings : list iref) : manifest :=
  Man label (map (fun a => HRef (a_label a) (a_inst a) (Hh (a_data a))) asrts) [] ings asrts.
Definition iref_of (x : manifest) : iref := IRef (m_label x) (MHh x) (SHh x).
Fixpoint unlist (ings : list manifest) (us : list ruri) : option (list manifest) :=
  match us with
  | [] => Some ings
  | u :: t => match redact_in ings u with ROk (Some i') => unlist i' t | _ => None end
  end.
Definition poison (ings : list manifest) (l : bytes) (k : bytes * N) : list manifest :=
  map (fun x => if beq (m_label x) l
                then set_store x (map (fun a => if same_key (fst k) (snd k) a then Asrt (a_label a) (a_inst a) (255 :: a_data a) else a) (m_store x))
                else x) ings.
Definition customs (x : manifest) : list bytes :=
  map a_label (filter (fun a => starts_with (b "com.verif."%string) (a_label a) || starts_with (b "org.v"%string) (a_label a)) (m_store x)).
Definition pair_of (r : ruri) : bytes * bytes := (match r_manifest r with Some m => m | None => [] end, label_with_instance (r_label r) (r_inst r)).
Inductive outcome := Refused (e : rerr) | CraftFailed | Done (reds : list (bytes * bytes)) (present : list (list bytes)) (codes : list vcode).
Definition run_case (top : manifest) (ings : list manifest) (rs us : list ruri) (ov : option (list ruri)) (ps : list (bytes * (bytes * N))) : outcome :=
  match builder_redact top ings rs with
  | RErr e => Refused e
  | ROk (top1, ings1) =>
      match unlist ings1 us with
      | None => CraftFailed
      | Some ings2 =>
          let top2 := match ov with Some l => set_redactions top1 l | None => top1 end in
          let ings3 := fold_left (fun acc p => poison acc (fst p) (snd p)) ps ings2 in
          Done (map pair_of (m_redactions top2)) (map customs ings3) (verify_store Hh MHh SHh (ings3 ++ [top2]) top2)
      end
  end.'''


def mlabel(m):
    if m == "self":
        return "urn:c2pa:TOP"
    if m == "none":
        return "urn:c2pa:NONE"
    return f"urn:c2pa:L{m}"


def coq_uri(t):
    lbl, inst = split_inst(t["a"])
    return f'RUri (Some {bl(mlabel(t["m"]))}%N) UAssertion {bl(lbl)}%N {inst}'


def model_expr(c):
    levels = c["levels"]
    lets = []
    for l, n in enumerate(levels):
        asrts = [f'Asrt {bl("c2pa.thumbnail.claim")}%N 0 [{l};9;1]%N', f'Asrt {bl("c2pa.actions.v2")}%N 0 [{l};9;2]%N']
        asrts += [f'Asrt {bl(custom(l, i))}%N 0 [{l};{i};7]%N' for i in list(range(n)) + [SHARED]]
        if l == 0 and c.get("sib"):
            for i in sorted(SIBLINGS):
                lbl, inst = split_inst(SIBLINGS[i])
                asrts.append(f'Asrt {bl(lbl)}%N {inst} [{l};{i};7]%N')
        if l > 0:
            asrts.append(f'Asrt {bl("c2pa.ingredient.v3")}%N 0 [{l};9;3]%N')
        asrts.append(f'Asrt {bl("c2pa.hash.data")}%N 0 [{l};9;4]%N')
        ings = f"[iref_of m{l - 1}]" if l > 0 else "[]"
        lets.append(f"let m{l} := mk {bl(mlabel(l))}%N {coq_list(asrts)} {ings} in")
    d = len(levels)
    top = c["top"]
    tas = [f'Asrt {bl("com.verif.top")}%N 0 [99;0;7]%N', f'Asrt {bl("c2pa.actions.v2")}%N 0 [99;9;2]%N', f'Asrt {bl("c2pa.ingredient.v3")}%N 0 [99;9;3]%N']
    if top.get("intent", "edit") != "update":
        tas.append(f'Asrt {bl("c2pa.hash.data")}%N 0 [99;9;4]%N')
    lets.append(f"let top := mk {bl(mlabel('self'))}%N {coq_list(tas)} [iref_of m{d - 1}] in")
    rs = coq_list([coq_uri(t) for t in (top.get("redact") or [])])
    craft = top.get("craft") or {}
    us = coq_list([coq_uri(t) for t in craft.get("unlisted", [])])
    ov = "None" if craft.get("list") is None else "(Some " + coq_list([coq_uri(t) for t in craft["list"]]) + ")"
    ps = coq_list([f"({bl(mlabel(l))}%N, ({bl(split_inst(custom(l, i))[0])}%N, {split_inst(custom(l, i))[1]}))" for l, i in c.get("post", [])])
    ings = coq_list([f"m{l}" for l in range(d)])
    return " ".join(lets) + f" run_case top {ings} {rs} {us} {ov} {ps}"


def dec(x):
    return bytes(x).decode() if isinstance(x, list) else ""


def is_valid(rep):
    return rep.get("r") == "ok" and rep.get("state") in ("Valid", "Trusted")


def disallowed_kind(c):
    """does the case ask for something the property says is never Valid?  returns a short reason or None"""
    top = c["top"]
    craft = top.get("craft") or {}
    listed = craft["list"] if craft.get("list") is not None else (top.get("redact") or [])
    why = []
    for t in listed:
        if t["a"].startswith("c2pa.actions"):
            why.append("action assertion redacted")
        if t["a"].startswith("c2pa.hash."):
            why.append("hard-binding assertion redacted")
        if t["m"] == "self":
            why.append("own assertion redacted")
    listed_keys = {(t["m"], t["a"]) for t in listed}
    for t in craft.get("unlisted", []):
        if (t["m"], t["a"]) not in listed_keys:
            why.append("assertion removed without redaction entry")
    if craft.get("list") is not None:
        for t in (top.get("redact") or []):
            if (t["m"], t["a"]) not in listed_keys:
                why.append("assertion removed without redaction entry")
    red_keys = {(t["m"], t["a"]) for t in (top.get("redact") or [])} | {(t["m"], t["a"]) for t in craft.get("unlisted", [])}
    for l, i in c.get("post", []):
        if (l, custom(l, i)) not in red_keys:
            why.append("assertion data removed after signing without redaction entry")
    return why or None


def evaluate(ctx, cases, with_model=True):
    impl = run_par("c20", cases, group_key=lambda c: (c.get("fmt"), tuple(c.get("levels", [])), bool(c.get("sib"))))
    stats = {"kinds": {}, "depth": {}, "subset_sizes": {}, "outcomes": {}, "markers_checked": 0, "markers_gone": 0, "disallowed_cases": 0,
             "unspecified": 0}
    todo = []
    for c in cases:
        r = impl[c["id"]]
        k = c.get("kind", "")
        stats["kinds"][k] = stats["kinds"].get(k, 0) + 1
        stats["depth"][str(len(c["levels"]))] = stats["depth"].get(str(len(c["levels"])), 0) + 1
        if r["r"] in ("panic", "crash"):
            ctx.report_violation(c, f"implementation panicked/crashed: {r.get('msg')}", c)
            continue
        if r["r"] == "chain-sign-failed":
            ctx.tie_errors.append(f"harness could not prepare case {c['id']}: {json.dumps(r)[:200]}")
            continue
        if not all(f[2] for f in r["before"]["found"]) or r["before"].get("state") not in ("Valid", "Trusted"):
            ctx.tie_errors.append(f"case {c['id']}: markers not all present / chain not valid before redaction: {json.dumps(r['before'])[:200]}")
            continue
        top = c["top"]
        craft = top.get("craft")
        why = disallowed_kind(c)
        oc = "refused:" + r.get("kind", "") if r["r"] == "sign-refused" else (r["after"].get("state") if r["after"].get("r") == "ok" else "read-err")
        stats["outcomes"][oc] = stats["outcomes"].get(oc, 0) + 1
        # ---- oracle
        if why:
            stats["disallowed_cases"] += 1
            if r["r"] == "ok" and is_valid(r["after"]):
                ctx.report_violation(c, f"{'; '.join(sorted(set(why)))}: reported {r['after']['state']}", c)
        elif not craft and r["r"] == "ok" and all(isinstance(t["m"], int) and (t["a"].startswith("com.verif.a") or t["a"] == "com.verif.shared" or t["a"] in SIBLINGS.values()) for t in (top.get("redact") or [])) \
                and len({(t["m"], t["a"]) for t in top.get("redact") or []}) == len(top.get("redact") or []):
            a = r["after"]
            req = sorted([t["m"], t["a"]] for t in top.get("redact") or [])
            stats["subset_sizes"][str(len(req))] = stats["subset_sizes"].get(str(len(req)), 0) + 1
            if not is_valid(a):
                ctx.report_violation(c, f"redaction of {req} through the Builder no longer validates: {a.get('state')} {a.get('failure')} {a.get('ing_failure')} {a.get('kind')}", c)
            else:
                redset = {(m, lbl) for m, lbl in req}
                for l, i, found in a["found"]:
                    stats["markers_checked"] += 1
                    is_red = (l, custom(l, i)) in redset
                    man = a["manifests"][l] or {}
                    # the report gives base labels only: for same-label siblings presence is judged by the reported payload
                    present = (custom(l, i) in man.get("present", [])) if i not in (20, 21, 22) else any(f"-L{l}-I{i}-" in s for s in man.get("secrets", []))
                    leaked = any(f"-L{l}-I{i}-" in s for s in man.get("secrets", []))
                    if is_red:
                        stats["markers_gone"] += 1
                        if found or present or leaked:
                            ctx.report_violation(c, f"redacted assertion {custom(l, i)} of level {l} still there: bytes in asset={found}, in report={present}, payload reported={leaked}", c)
                    elif not (found and present and leaked):
                        ctx.report_violation(c, f"assertion {custom(l, i)} of level {l} was not requested but is gone: bytes={found} report={present}", c)
                got = sorted(a["manifests"][-1].get("redactions", [])) if a["manifests"][-1] else None
                if got != req:
                    ctx.report_violation(c, f"redacting manifest lists {got}, requested {req}", c)
        else:
            stats["unspecified"] += 1
        todo.append((c, r))
    # ---- correspondence
    if with_model and todo:
        out = common.coq_eval("C20", HEADER, [model_expr(c) for c, _ in todo], shard_size=4)
        for (c, r), mo in zip(todo, out):
            d = len(c["levels"])
            if mo == "CraftFailed":
                mr = ("craft-failed",)
            elif mo[0] == "Refused":
                mr = ("refused", ERR[mo[1]])
            else:
                reds = sorted([dec(m), dec(a)] for m, a in mo[1])
                present = [sorted(dec(x) for x in p) for p in mo[2]]
                codes = sorted({CODES[x] for x in mo[3]})
                mr = ("done", reds, present, codes)
            if r["r"] == "sign-refused":
                k = r.get("kind")
                ir = ("craft-failed",) if (c["top"].get("craft") and k == "NotFound") else ("refused", k)
            else:
                a = r["after"]
                if a.get("r") != "ok":
                    ir = ("read-err", a.get("kind"))
                else:
                    names = {i: mlabel(i) for i in range(d)}
                    names[d] = mlabel("self")
                    names[-1] = mlabel("none")
                    reds = sorted([names.get(m, "?"), lbl] for m, lbl in (a["manifests"][-1] or {}).get("redactions", []))
                    present = [sorted((a["manifests"][l] or {}).get("present", [])) for l in range(d)]
                    allc = set(a["failure"])
                    for f in a["ing_failure"]:
                        allc |= set(f)
                    ir = ("done", reds, present, sorted(allc & MODELLED))
            if ir != mr:
                ctx.disagreements.append({"case": c, "impl": ir, "model": mr})
    return stats


def run(ctx):
    if not getattr(ctx, "no_build", False):
        common.build_harness()
    if ctx.replay:
        cases = [ctx.replay["case"]] if "case" in ctx.replay else [d["case"] for d in ctx.replay.get("disagreements", [])]
    else:
        cases = corpus() + gen_cases(ctx)
    for i, c in enumerate(cases):
        c["id"] = i
    fr = run_par("c20", [{"id": "facts", "op": "facts"}])["facts"]
    if getattr(ctx, "facts", None) and (fr.get("actions") != ctx.facts["actions"] or fr.get("hashes") != ctx.facts["hashes"]):
        ctx.tie_errors.append(f"non-redactable label tables in the binary {fr} != source facts {ctx.facts}")
    stats = evaluate(ctx, cases)
    distinct = len({json.dumps({k: v for k, v in c.items() if k != "id"}, sort_keys=True) for c in cases})
    ctx.coverage.update({
        "evaluations": len(cases), "distinct_nontrivial": distinct,
        "rule": "corpus + ingredient chains of depth 1-3 with 4 redactable assertions x subsets (all 16 per layout in the thorough tier, "
                "empty/full/2 random in quick) through Builder + Reader, x disallowed targets through the Builder (actions, hash, own "
                "manifest, foreign manifest, missing label, duplicate) x crafted stores (unlisted removal, listed actions/hash/self, dropped "
                "entry, over-listing) x post-hoc overwrite of payload bytes; one evaluation = one chain built, redacted, read back",
        "distribution": stats,
        "samples": [c for c in cases[:2] + cases[len(cases) // 2: len(cases) // 2 + 1]],
    })


def search(ctx):
    common.build_harness()
    cases = []
    for levels in ([3], [1, 1], [1, 0, 0]):
        cs = all_customs(levels)
        for k in range(len(cs) + 1):
            for s in itertools.combinations(cs, k):
                cases.append(builder_case("jpeg", levels, list(s), "edit"))
    cases = ctx.rng.sample(cases, 24)
    for i, c in enumerate(cases):
        c["id"] = i
    evaluate(ctx, cases, with_model=False)
    ctx.coverage["search_evaluations"] = len(cases)
