"""Table of claimed checks -> MANIFEST.json (python3 -m vlib.registry writes it)."""
import json, os

VERIF = os.path.dirname(os.path.dirname(os.path.abspath(__file__)))

# id -> (level text, level note, technique, design ref)
CLAIMED = {
    "C13": ("Coq theorems over a line-by-line Gallina transcription of the range hasher (exclusion/inclusion spec for all data and range lists, "
            "chunk-size independence, past-end rejection, progress well-formedness, schedule independence of the two-actor pipeline model), "
            "tied to the code on every run by regenerated constants and by differential runs of model (vm_compute in coqc) and implementation "
            "on the same seeded/exhaustive-small cases, plus an independent python oracle of the property text.",
            "Trusted: Coq kernel+vm_compute; SHA-2 via hashlib; range-set crate modelled as set difference; OS threads represented by the actor model. "
            "Known finding F-MARKER1 (one-byte run at a marker) is excluded from the theorem by an explicit ~Known hypothesis and reported as KNOWN-FINDING.",
            "Coq proof (induction over data/range lists) + srcfacts + model/implementation correspondence", "6/C13"),
}

REASON_PENDING = "check not built yet (planned in DESIGN.md section 6; nothing is claimed for it until its Coq model, theorems and correspondence run exist)"


def load_claims():
    d = os.path.join(VERIF, "vlib", "claims")
    if os.path.isdir(d):
        for fn in sorted(os.listdir(d)):
            if fn.endswith(".json"):
                c = json.load(open(os.path.join(d, fn)))
                CLAIMED[fn[:-5].upper()] = (c["text"], c["note"], c["technique"], c.get("ref", "6/" + fn[:-5].upper()))


def main():
    load_claims()
    acc = os.path.join(VERIF, "vlib", "accepted.txt")
    if os.path.exists(acc):      # only checks the integrator has run and reviewed are claimed
        ok = set(open(acc).read().split())
        for k in list(CLAIMED):
            if k not in ok:
                del CLAIMED[k]
    props = [json.loads(l) for l in open(os.path.join(VERIF, "properties.jsonl"))]
    checks, na = [], []
    for p in props:
        i = p["id"]
        if i in CLAIMED:
            text, note, tech, ref = CLAIMED[i]
            checks.append({
                "property_id": i,
                "quick_cmd": f"./check {i} --tier quick",
                "thorough_cmd": f"./check {i} --tier thorough",
                "evidence_file": f"/verif/evidence/{i}.json",
                "replay_cmd_template": f"./check {i} --replay {{path}}",
                "engine": "coq-proof+correspondence",
                "level_claimed": {"category": "proof", "text": text, "design_ref": ref},
                "level_note": note,
                "technique": tech,
            })
        else:
            na.append({"property_id": i, "reason": REASON_PENDING})
    m = {
        "version": 1,
        "setup_cmd": "./setup.sh",
        "hooks": {
            "guard": "contentauth_c2pa_rs_verif",
            "enable": "RUSTFLAGS='--cfg contentauth_c2pa_rs_verif' (set in /verif/harness/.cargo/config.toml); harness crate path-depends on /repo/sdk and /repo/c2pa_c_ffi",
            "baseline_off_cmd": "cd /repo && cargo nextest run --workspace --no-fail-fast --tool-config-file pb:/w/lib/nextest.toml --profile pb --test-threads 8 --offline",
            "source_commits": json.load(open(os.path.join(VERIF, "hooks_commits.json"))) if os.path.exists(os.path.join(VERIF, "hooks_commits.json")) else [],
            "add_only": True,
        },
        "engines": [{"name": "coq-proof+correspondence", "path": "/verif/check",
                     "serves_properties": sorted(CLAIMED),
                     "kind_free_text": "Coq 8.16.1 theorems over executable Gallina models (coq/), srcfacts translator + differential run of model (vm_compute) and Rust harness (harness/) on the same cases"}],
        "checks": checks,
        "not_applicable": na,
        "notes": "See DESIGN.md. Known findings: known_findings.json. Hooks are add-only and guarded by --cfg contentauth_c2pa_rs_verif.",
    }
    json.dump(m, open(os.path.join(VERIF, "MANIFEST.json"), "w"), indent=1)


if __name__ == "__main__":
    main()
