"""Regenerate every coq/Generated/*_facts.v from /repo (used by setup.sh; each check also does its own)."""
import importlib, os, pkgutil, sys
from . import common, props


class _C:
    pass


def main():
    bad = 0
    for m in sorted(pkgutil.iter_modules(props.__path__), key=lambda m: m.name):
        if m.name.startswith("_"):
            continue
        try:
            mod = importlib.import_module(f"vlib.props.{m.name}")
        except Exception as ex:  # a module under construction must not break setup for the others
            print(f"[setup_facts] {m.name}: import failed: {ex!r}", file=sys.stderr)
            continue
        if hasattr(mod, "facts"):
            try:
                mod.facts(_C())
            except Exception as ex:
                # leave a stub so the rest of the project still builds; the property's check reports the broken tie
                print(f"[setup_facts] {m.name}: {ex}", file=sys.stderr)
                bad += 1
    return 0


if __name__ == "__main__":
    sys.exit(main())
