"""X.509 test material for C05 / C06, generated with the openssl CLI (offline), cached on disk.

Every key / certificate is described by a *spec* (a plain dict); its file name is a hash of the spec and of this
script, so material is created lazily, exactly once, and reused by later runs (/verif/.build/x509/<script-hash>/).
Specs use absolute validity dates, so the material is deterministic up to the random key bits.

Features of a certificate are extracted independently of the SDK by parsing `openssl x509 -text -noout`.
"""
import base64, hashlib, json, os, re, subprocess, threading

from . import common

OPENSSL = os.environ.get("VERIF_OPENSSL", "/root/miniconda/bin/openssl")
_SELF = hashlib.sha256(open(__file__, "rb").read()).hexdigest()[:12]
ROOT = os.path.join(common.BUILD, "x509", _SELF)
_lock = threading.RLock()

VALID = ("20200101000000Z", "20450101000000Z")
EXPIRED = ("20200101000000Z", "20210101000000Z")
FUTURE = ("20500101000000Z", "20600101000000Z")


def _run(args, inp=None, ok_rc=(0,)):
    p = subprocess.run([OPENSSL] + args, input=inp, capture_output=True)
    if p.returncode not in ok_rc:
        raise RuntimeError(f"openssl {' '.join(args)} failed rc={p.returncode}: {p.stderr.decode(errors='replace')[-600:]}")
    return p


def _h(spec):
    return hashlib.sha256(json.dumps(spec, sort_keys=True).encode()).hexdigest()[:16]


def _path(kind, spec, ext):
    os.makedirs(ROOT, exist_ok=True)
    return os.path.join(ROOT, f"{kind}-{_h(spec)}.{ext}")


# ------------------------------------------------------------------ keys

KEYKINDS = {
    "rsa2048": ["-algorithm", "RSA", "-pkeyopt", "rsa_keygen_bits:2048"],
    "rsa3072": ["-algorithm", "RSA", "-pkeyopt", "rsa_keygen_bits:3072"],
    "rsa1024": ["-algorithm", "RSA", "-pkeyopt", "rsa_keygen_bits:1024"],
    "rsapss2048": ["-algorithm", "RSA-PSS", "-pkeyopt", "rsa_keygen_bits:2048"],
    "p256": ["-algorithm", "EC", "-pkeyopt", "ec_paramgen_curve:P-256"],
    "p384": ["-algorithm", "EC", "-pkeyopt", "ec_paramgen_curve:P-384"],
    "p521": ["-algorithm", "EC", "-pkeyopt", "ec_paramgen_curve:P-521"],
    "secp256k1": ["-algorithm", "EC", "-pkeyopt", "ec_paramgen_curve:secp256k1"],
    "p256explicit": ["-algorithm", "EC", "-pkeyopt", "ec_paramgen_curve:P-256", "-pkeyopt", "ec_param_enc:explicit"],
    "ed25519": ["-algorithm", "ED25519"],
    "ed448": ["-algorithm", "ED448"],
}
# the COSE algorithm a key of this kind signs with
SIGN_ALG = {"rsa2048": "ps256", "rsa3072": "ps384", "rsa1024": "ps256", "rsapss2048": "ps256", "p256": "es256",
            "p384": "es384", "p521": "es512", "ed25519": "ed25519", "secp256k1": "es256", "p256explicit": "es256"}


def key(kind, tag=""):
    """returns the path of a PKCS#8 PEM private key of the given kind (one per (kind, tag))"""
    spec = {"kind": kind, "tag": tag}
    p = _path("key", spec, "pem")
    if not os.path.exists(p):
        with _lock:
            if not os.path.exists(p):
                _run(["genpkey"] + KEYKINDS[kind] + ["-out", p + ".tmp"])
                os.replace(p + ".tmp", p)
    return p


def read(p):
    with open(p) as f:
        return f.read()


# ------------------------------------------------------------------ certificates

def cert(spec):
    """spec: {cn, org (default 'Verif'), key: [kind, tag], issuer: spec|None (self-signed with own key),
              issuer_name_of: spec (optional: take the issuer *name* from this spec but sign with `issuer`'s key),
              ext: [config lines] (v3 extension section; [] or None => no extensions => X.509 v1),
              validity: (not_before, not_after), digest: 'sha256', sigopts: [..], serial: int}
       returns the path of the PEM certificate"""
    p = _path("crt", spec, "pem")
    if os.path.exists(p):
        return p
    with _lock:
        if os.path.exists(p):
            return p
        k = key(*spec["key"])
        subj = f"/C=US/O={spec.get('org', 'Verif')}/CN={spec['cn']}"
        csr = p + ".csr"
        _run(["req", "-new", "-key", k, "-subj", subj, "-out", csr])
        nb, na = spec.get("validity", VALID)
        args = ["x509", "-req", "-in", csr, "-set_serial", str(spec.get("serial", int(_h(spec)[:12], 16))),
                "-not_before", nb, "-not_after", na, "-" + spec.get("digest", "sha256")]
        if spec["key"][0] in ("ed25519", "ed448") and spec.get("issuer") is None or \
                (spec.get("issuer") and spec["issuer"]["key"][0] in ("ed25519", "ed448")):
            args.remove("-" + spec.get("digest", "sha256"))      # EdDSA takes no digest
        iss = spec.get("issuer")
        if iss is None:
            args += ["-key", k]
        else:
            args += ["-CA", cert(iss), "-CAkey", key(*iss["key"])]
        for so in spec.get("sigopts", []):
            args += ["-sigopt", so]
        ext = spec.get("ext")
        if ext:
            cnf = p + ".cnf"
            with open(cnf, "w") as f:
                f.write("[v3]\n" + "\n".join(ext) + "\n")
            args += ["-extfile", cnf, "-extensions", "v3"]
        _run(args + ["-out", p + ".tmp"])
        os.replace(p + ".tmp", p)
    return p


def ensure(spec):
    return cert(spec)


# ------------------------------------------------------------------ DER surgery (what the CLI cannot produce)

def pem_to_der(pem):
    b = "".join(l for l in pem.strip().splitlines() if not l.startswith("-----"))
    return base64.b64decode(b)


def der_to_pem(der, label="CERTIFICATE"):
    b = base64.b64encode(der).decode()
    return f"-----BEGIN {label}-----\n" + "\n".join(b[i:i + 64] for i in range(0, len(b), 64)) + f"\n-----END {label}-----\n"


def tlv(buf, off=0):
    """returns (tag, header_len, content_len) of the DER TLV at off (single-byte tags only)"""
    tag = buf[off]
    l = buf[off + 1]
    if l < 0x80:
        return tag, 2, l
    n = l & 0x7f
    return tag, 2 + n, int.from_bytes(buf[off + 2:off + 2 + n], "big")


def enc(tag, content):
    n = len(content)
    if n < 0x80:
        return bytes([tag, n]) + content
    b = n.to_bytes((n.bit_length() + 7) // 8, "big")
    return bytes([tag, 0x80 | len(b)]) + b + content


def children(buf):
    out, off = [], 0
    while off < len(buf):
        t, h, l = tlv(buf, off)
        out.append((t, buf[off:off + h + l]))
        off += h + l
    return out


def resign(spec_issuer_key, tbs, sigalg_der, digest="sha256"):
    """sign a TBSCertificate with the issuer key (ECDSA / RSA PKCS#1 v1.5 through `openssl dgst -sign`)"""
    tmp = os.path.join(ROOT, f"tbs-{hashlib.sha256(tbs).hexdigest()[:16]}.der")
    with open(tmp, "wb") as f:
        f.write(tbs)
    sig = _run(["dgst", "-" + digest, "-sign", key(*spec_issuer_key), tmp]).stdout
    return enc(0x30, tbs + sigalg_der + enc(0x03, b"\x00" + sig))


def with_unique_ids(base_spec, issuer_uid=True, subject_uid=False, version=None, v1=False):
    """a copy of cert(base_spec) whose TBSCertificate carries issuerUniqueID / subjectUniqueID (and optionally another
    version number), re-signed by the issuer key.  Only for ECDSA / RSA-PKCS1 issuers."""
    spec = {"derived": "uid", "base": base_spec, "i": issuer_uid, "s": subject_uid, "v": version, "v1": v1}
    p = _path("crt", spec, "pem")
    if os.path.exists(p):
        return p
    der = pem_to_der(read(ensure(base_spec)))
    t, h, l = tlv(der)
    top = children(der[h:h + l])
    tbs_t, tbs = top[0]
    sigalg = top[1][1]
    tt, th, tl = tlv(tbs)
    fields = children(tbs[th:th + tl])
    out = []
    for ft, f in fields:
        if v1 and ft in (0xA0, 0xA3):      # a genuine v1 certificate: no version field (DEFAULT v1), no extensions
            continue
        if ft == 0xA3:      # extensions: unique IDs go just before
            if issuer_uid:
                out.append(enc(0x81, b"\x00" + b"\x01\x02\x03\x04"))
            if subject_uid:
                out.append(enc(0x82, b"\x00" + b"\x05\x06\x07\x08"))
        if ft == 0xA0 and version is not None:
            f = enc(0xA0, enc(0x02, bytes([version])))
        out.append(f)
    new_tbs = enc(0x30, b"".join(out))
    iss = base_spec.get("issuer") or base_spec
    new = resign(iss["key"], new_tbs, sigalg, base_spec.get("digest", "sha256"))
    with open(p + ".tmp", "w") as f:
        f.write(der_to_pem(new))
    os.replace(p + ".tmp", p)
    return p


def tst_info_der(epoch):
    """a minimal DER TSTInfo with the given genTime (for the harness hooks that take a signing time)"""
    import time
    gt = time.strftime("%Y%m%d%H%M%SZ", time.gmtime(epoch)).encode()
    oid_policy = bytes([0x06, 0x03, 0x2A, 0x03, 0x04])
    sha256 = bytes([0x06, 0x09, 0x60, 0x86, 0x48, 0x01, 0x65, 0x03, 0x04, 0x02, 0x01])
    mi = enc(0x30, enc(0x30, sha256 + b"\x05\x00") + enc(0x04, bytes(32)))
    return enc(0x30, enc(0x02, b"\x01") + oid_policy + mi + enc(0x02, b"\x01") + enc(0x18, gt))


# ------------------------------------------------------------------ independent feature extraction

_feat_cache = {}


def text(pem_path):
    return _run(["x509", "-in", pem_path, "-noout", "-text", "-certopt", "ext_parse"]).stdout.decode(errors="replace")


def _epoch(s):
    import calendar, time
    return calendar.timegm(time.strptime(s.strip(), "%b %d %H:%M:%S %Y GMT"))


HANDLED_EXT = {"X509v3 Certificate Policies", "X509v3 Policy Mappings", "X509v3 Subject Alternative Name",
               "X509v3 Basic Constraints", "X509v3 Name Constraints", "X509v3 Policy Constraints",
               "X509v3 Extended Key Usage", "X509v3 CRL Distribution Points", "X509v3 Inhibit Any Policy",
               "Authority Information Access", "Netscape Cert Type", "X509v3 CRL Number", "X509v3 CRL Reason Code",
               "Invalidity Date"}
EKU_NAMES = {"TLS Web Server Authentication": "server_auth", "TLS Web Client Authentication": "client_auth",
             "Code Signing": "code_signing", "E-mail Protection": "email_protection", "Time Stamping": "time_stamping",
             "OCSP Signing": "ocsp_signing", "Any Extended Key Usage": "any"}
EKU_OIDS = {"1.3.6.1.5.5.7.3.1": "server_auth", "1.3.6.1.5.5.7.3.2": "client_auth", "1.3.6.1.5.5.7.3.3": "code_signing",
            "1.3.6.1.5.5.7.3.4": "email_protection", "1.3.6.1.5.5.7.3.8": "time_stamping", "1.3.6.1.5.5.7.3.9": "ocsp_signing",
            "2.5.29.37.0": "any"}


def features(pem_path):
    """Features of a certificate as the C2PA profile sees them, from `openssl x509 -text` (independent of the SDK)."""
    if pem_path in _feat_cache:
        return _feat_cache[pem_path]
    side = pem_path + ".features.json"
    if not os.path.abspath(pem_path).startswith(os.path.abspath(common.BUILD) + os.sep):
        side = os.path.join(ROOT, "features-" + hashlib.sha256(os.path.abspath(pem_path).encode()).hexdigest()[:20] + ".json")
        os.makedirs(ROOT, exist_ok=True)
    if os.path.exists(side) and os.path.getmtime(side) >= os.path.getmtime(pem_path):
        try:
            _feat_cache[pem_path] = json.load(open(side))
            return _feat_cache[pem_path]
        except Exception:
            pass
    t = text(pem_path)
    f = {}
    f["version"] = int(re.search(r"Version:\s*(\d+)", t).group(1))
    m = re.search(r"Not Before\s*:\s*(.*)\n\s*Not After\s*:\s*(.*)\n", t)
    f["not_before"], f["not_after"] = _epoch(m.group(1)), _epoch(m.group(2))
    f["sig_alg"] = re.search(r"Signature Algorithm:\s*(\S+)", t).group(1)
    pss = None
    if f["sig_alg"] == "rsassaPss":
        head = t[:t.index("Issuer:")]
        hm = re.search(r"Hash Algorithm:\s*(\S+)( \(default\))?", head)
        mm = re.search(r"Mask Algorithm:\s*mgf1 with (\S+)( \(default\))?", head)
        pss = {"present": bool(hm or mm), "hash": hm.group(1) if hm else None, "hash_explicit": bool(hm) and not hm.group(2),
               "mgf": mm.group(1) if mm else None, "mgf_explicit": bool(mm) and not mm.group(2)}
    f["pss"] = pss
    f["issuer"] = re.search(r"Issuer:\s*(.*)", t).group(1).strip()
    f["subject"] = re.search(r"Subject:\s*(.*)", t).group(1).strip()
    pk = re.search(r"Public Key Algorithm:\s*(\S+)", t).group(1)
    f["pk_alg"] = pk
    bits = re.search(r"Public-Key:\s*\((\d+) bit", t)
    f["pk_bits"] = int(bits.group(1)) if bits else 0
    cm = re.search(r"ASN1 OID:\s*(\S+)", t)
    f["curve"] = cm.group(1) if cm else ("explicit" if pk == "id-ecPublicKey" else None)
    f["issuer_uid"] = bool(re.search(r"Issuer Unique ID", t))
    f["subject_uid"] = bool(re.search(r"Subject Unique ID", t))
    # extensions, in order
    exts = []
    em = re.search(r"X509v3 extensions:\n(.*?)\n    Signature Algorithm:", t, re.S)
    body = em.group(1) if em else ""
    cur = None
    for line in body.splitlines():
        m = re.match(r"^ {12}(\S.*?):\s*(critical)?\s*$", line)
        if m and not line.startswith(" " * 16):
            cur = {"name": m.group(1), "critical": bool(m.group(2)), "value": ""}
            exts.append(cur)
        elif cur is not None:
            cur["value"] += line.strip() + "\n"
    f["ext"] = exts
    bc = next((e for e in exts if e["name"] == "X509v3 Basic Constraints"), None)
    f["is_ca"] = bool(bc and "CA:TRUE" in bc["value"])
    eku = next((e for e in exts if e["name"] == "X509v3 Extended Key Usage"), None)
    if eku is None:
        f["eku"] = None
    else:
        d = {v: False for v in EKU_NAMES.values()}
        d["other"] = []
        for item in eku["value"].replace("\n", "").split(","):
            item = item.strip()
            if not item:
                continue
            if item in EKU_NAMES:
                d[EKU_NAMES[item]] = True
            elif item in EKU_OIDS:
                d[EKU_OIDS[item]] = True
            else:
                d["other"].append(item)
        f["eku"] = d
    ku = next((e for e in exts if e["name"] == "X509v3 Key Usage"), None)
    f["ku"] = None if ku is None else [x.strip() for x in ku["value"].replace("\n", "").split(",") if x.strip()]
    _feat_cache[pem_path] = f
    try:
        with open(side + ".tmp", "w") as fh:
            json.dump(f, fh)
        os.replace(side + ".tmp", side)
    except OSError:
        pass
    return f


# ------------------------------------------------------------------ independent chain verification (C05 oracle)

def b64sha256_of_pem(pem_text):
    return base64.b64encode(hashlib.sha256(pem_to_der(pem_text)).digest()).decode()


_verify_cache = {}


def openssl_verify(anchor_pems, ee_pem, chain_pems, attime=None):
    """`openssl verify -x509_strict -partial_chain`: does ee chain, through chain_pems, to one of anchor_pems?"""
    if not anchor_pems:
        return False
    k = hashlib.sha256(json.dumps([anchor_pems, ee_pem, chain_pems, attime]).encode()).hexdigest()
    if k in _verify_cache:
        return _verify_cache[k]
    d = os.path.join(ROOT, "verify")
    os.makedirs(d, exist_ok=True)
    memo = os.path.join(d, k[:32] + ".verdict")       # verdicts are a function of the inputs only: remembered across runs
    if os.path.exists(memo):
        _verify_cache[k] = open(memo).read().strip() == "1"
        return _verify_cache[k]
    a, c, e = (os.path.join(d, f"{k[:20]}-{n}.pem") for n in "ace")
    open(a, "w").write("\n".join(anchor_pems))
    open(c, "w").write("\n".join(chain_pems))
    open(e, "w").write(ee_pem)
    args = ["verify", "-x509_strict", "-partial_chain", "-trusted", a]
    if chain_pems:
        args += ["-untrusted", c]
    args += ["-no_check_time"] if attime is None else ["-attime", str(attime)]
    p = _run(args + [e], ok_rc=(0, 1, 2))
    ok = p.returncode == 0 and b": OK" in p.stdout
    for x in (a, c, e):
        os.unlink(x)
    _verify_cache[k] = ok
    with open(memo, "w") as fh:
        fh.write("1" if ok else "0")
    return ok
