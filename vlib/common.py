"""Shared orchestration for /verif/check: building, running, model evaluation, evidence."""
import hashlib, json, os, re, subprocess, sys, time, random, shutil

VERIF = os.path.dirname(os.path.dirname(os.path.abspath(__file__)))
REPO = os.environ.get("VERIF_REPO", "/repo")
COQ = os.path.join(VERIF, "coq")
BUILD = os.path.join(VERIF, ".build")
# an alternative repository copy + harness copy can be selected for seeded-change trials (tools/try_seed_isolated.sh)
HARNESS_DIR = os.environ.get("VERIF_HARNESS_DIR", os.path.join(VERIF, "harness"))
_TARGET = os.environ.get("VERIF_TARGET_DIR", os.path.join(BUILD, "target"))
HARNESS_BIN = os.path.join(_TARGET, "debug", "verif-harness")
HARNESS_BIN_REL = os.path.join(_TARGET, "release", "verif-harness")
CASES = os.path.join(BUILD, "cases")
GUARD = "contentauth_c2pa_rs_verif"

AXIOM_ALLOW = {
    # standard-library axioms that may appear (named in DESIGN.md section 8)
    "functional_extensionality_dep", "FunctionalExtensionality.functional_extensionality_dep",
    "Eqdep.Eq_rect_eq.eq_rect_eq", "eq_rect_eq", "JMeq_eq", "JMeq.JMeq_eq",
    "proof_irrelevance", "ProofIrrelevance.proof_irrelevance", "classic", "Classical_Prop.classic",
}

FORBIDDEN = re.compile(
    r"\b(Admitted|admit|Axiom|Axioms|Parameter|Parameters|Conjecture|Admit Obligations|bypass_check)\b"
    r"|Unset\s+Guard|Unset\s+Positivity|Unset\s+Universe\s+Checking|type-in-type|impredicative-set")


class TieBroken(Exception):
    """A fact could not be extracted from the source, or the model/proof no longer builds."""


def log(*a):
    print(*a, file=sys.stderr, flush=True)


def sh(cmd, cwd=None, timeout=1800, env=None, check=False, input=None):
    e = dict(os.environ)
    e.setdefault("CARGO_NET_OFFLINE", "true")
    if env:
        e.update(env)
    t0 = time.time()
    try:
        p = subprocess.run(cmd, cwd=cwd, shell=isinstance(cmd, str), capture_output=True, text=True,
                           timeout=timeout, env=e, input=input)
        rc, out, err = p.returncode, p.stdout, p.stderr
    except subprocess.TimeoutExpired as ex:
        rc, out, err = 124, (ex.stdout or b"").decode(errors="replace") if isinstance(ex.stdout, bytes) else (ex.stdout or ""), "timeout"
    if check and rc != 0:
        raise RuntimeError(f"command failed rc={rc}: {cmd}\n{out[-3000:]}\n{err[-3000:]}")
    return rc, out, err, time.time() - t0


# ----------------------------------------------------------------------------
# source reading helpers (srcfacts)

def src(path):
    with open(os.path.join(REPO, path), encoding="utf-8", errors="replace") as f:
        return f.read()


def strip_tests(text):
    """drop a trailing `#[cfg(test)] mod tests {..}` (and similar) so facts come from non-test code"""
    m = re.search(r"#\[cfg\(test\)\]\s*(pub\s+)?mod\s+\w+\s*\{", text)
    return text[:m.start()] if m else text


def fact(pattern, text, what, flags=re.S):
    m = re.search(pattern, text, flags)
    if not m:
        raise TieBroken(f"srcfacts: cannot extract {what} (pattern {pattern!r})")
    return m


def rust_int(expr):
    """evaluate a simple Rust integer constant expression (literals, * + - << , underscores, casts)"""
    e = re.sub(r"_(?=\d)", "", expr)
    e = re.sub(r"(?<=\d)(usize|u64|u32|u16|u8|i64|i32|isize)\b", "", e)
    e = re.sub(r"\bas\s+\w+", "", e)
    if not re.fullmatch(r"[\d\s*+\-()<>x0-9a-fA-F]+", e):
        raise TieBroken(f"srcfacts: not a constant integer expression: {expr!r}")
    return int(eval(e, {"__builtins__": {}}))


def fn_body(text, signature_re, what=None):
    """return the text of the brace-delimited body following the first match of signature_re"""
    m = re.search(signature_re, text)
    if not m:
        raise TieBroken(f"srcfacts: cannot find {what or signature_re}")
    i = text.find("{", m.end() - 1 if text[m.end() - 1] == "{" else m.end())
    depth, j = 0, i
    in_str = None
    while j < len(text):
        c = text[j]
        if in_str:
            if c == "\\":
                j += 1
            elif c == in_str:
                in_str = None
        elif c == '"':
            in_str = '"'
        elif c == "/" and text[j:j + 2] == "//":
            j = text.find("\n", j)
            if j < 0:
                break
        elif c == "{":
            depth += 1
        elif c == "}":
            depth -= 1
            if depth == 0:
                return text[i:j + 1]
        j += 1
    raise TieBroken(f"srcfacts: unbalanced braces after {what or signature_re}")


def write_if_changed(path, content):
    os.makedirs(os.path.dirname(path), exist_ok=True)
    try:
        with open(path) as f:
            if f.read() == content:
                return False
    except FileNotFoundError:
        pass
    with open(path, "w") as f:
        f.write(content)
    return True


# ----------------------------------------------------------------------------
# Coq

def gen_coqproject():
    files = []
    for d in ("Base", "Generated", "Model", "Proofs", "Properties"):
        for root, _, fs in os.walk(os.path.join(COQ, d)):
            for fn in sorted(fs):
                if fn.endswith(".v"):
                    files.append(os.path.relpath(os.path.join(root, fn), COQ))
    txt = ("-Q . C2PA\n-arg -w -arg -notation-overridden,-deprecated-hint-without-locality,-deprecated-instance-without-locality\n"
           + "\n".join(sorted(files)) + "\n")
    write_if_changed(os.path.join(COQ, "_CoqProject"), txt)


def coq_makefile():
    gen_coqproject()
    if not os.path.exists(os.path.join(COQ, "Makefile")) or \
            os.path.getmtime(os.path.join(COQ, "Makefile")) < os.path.getmtime(os.path.join(COQ, "_CoqProject")):
        sh("coq_makefile -f _CoqProject -o Makefile", cwd=COQ, check=True)


def coq_make(target=None, timeout=1500, jobs=16):
    """full .vo build of one target (or all); returns (ok, log)"""
    coq_makefile()
    cmd = f"make -j{jobs} {target or ''}"
    rc, out, err, dt = sh(cmd, cwd=COQ, timeout=timeout)
    return rc == 0, out + err


def dep_closure(prop_file):
    """the .v files of this project that prop_file (transitively) requires, found by reading Require lines"""
    seen, todo = set(), [prop_file]
    while todo:
        f = todo.pop()
        if f in seen or not os.path.exists(os.path.join(COQ, f)):
            continue
        seen.add(f)
        txt = re.sub(r"\(\*.*?\*\)", "", open(os.path.join(COQ, f)).read(), flags=re.S)
        for m in re.finditer(r"(?:From\s+C2PA\s+)?Require\s+(?:Import\s+|Export\s+)?(.*?)\.(?:\s|$)", txt, re.S):
            for name in m.group(1).split():
                name = name.strip()
                if name.startswith("C2PA."):
                    name = name[5:]
                cand = name.replace(".", "/") + ".v"
                if os.path.exists(os.path.join(COQ, cand)):
                    todo.append(cand)
    return sorted(seen)


def forbidden_scan(only=None):
    bad = []
    for root, _, files in os.walk(COQ):
        for fn in files:
            if fn.endswith(".v"):
                p = os.path.join(root, fn)
                if only is not None and os.path.relpath(p, COQ) not in only:
                    continue
                txt = open(p).read()
                txt = re.sub(r"\(\*.*?\*\)", "", txt, flags=re.S)
                for m in FORBIDDEN.finditer(txt):
                    bad.append(f"{os.path.relpath(p, COQ)}: {m.group(0)}")
                if re.search(r"^\s*(Variable|Variables|Hypothesis|Hypotheses|Context)\b", txt, re.M):
                    # allowed only inside a Section: every occurrence must be preceded by an open Section
                    depth = 0
                    for line in txt.splitlines():
                        if re.match(r"\s*Section\b", line):
                            depth += 1
                        elif re.match(r"\s*End\b", line) and depth > 0:
                            depth -= 1
                        elif re.match(r"\s*(Variable|Variables|Hypothesis|Hypotheses)\b", line) and depth == 0:
                            bad.append(f"{os.path.relpath(p, COQ)}: top-level {line.strip()[:40]}")
    return bad


def theorems_of(prop_file):
    txt = open(os.path.join(COQ, prop_file)).read()
    txt = re.sub(r"\(\*.*?\*\)", "", txt, flags=re.S)
    return re.findall(r"^\s*Theorem\s+(\w+)", txt, re.M)


def coqchk(prop_file, timeout=900):
    """independent re-check of the compiled property file and everything it depends on; returns (ok, axioms, text)"""
    mod = "C2PA." + prop_file[:-2].replace("/", ".")
    rc, out, err, _ = sh(f"coqchk -o -silent -Q . C2PA {mod}", cwd=COQ, timeout=timeout)
    txt = out + err
    m = re.search(r"\* Axioms:(.*?)\n\s*\n\* Constants/Inductives relying on type-in-type:(.*?)\n\s*\n\* Constants/Inductives relying on unsafe \(co\)fixpoints:(.*?)\n\s*\n\* Inductives whose positivity is assumed:(.*?)\n", txt, re.S)
    if rc != 0 or not m:
        return False, [], txt[-600:]
    ax = [a.strip() for a in m.group(1).strip().splitlines() if a.strip() and a.strip() != "<none>"]
    unsafe = [g.strip() for g in (m.group(2), m.group(3), m.group(4)) if g.strip() != "<none>"]
    ok = not unsafe and all(a in AXIOM_ALLOW or a.split(".")[-1] in AXIOM_ALLOW for a in ax)
    return ok, ax, txt[-600:]


def coq_audit(prop, prop_file):
    """Build Properties/<prop>.vo through make, then print assumptions of each theorem with a
    separate coqc run.  Returns dict(obligations, discharged, failed:list, axioms:dict, log)"""
    thms = theorems_of(prop_file)
    target = prop_file[:-2] + ".vo"
    ok, mlog = coq_make(target)
    res = {"obligations": len(thms), "discharged": 0, "failed": [], "axioms": {}, "log": mlog[-4000:], "theorems": thms}
    closure = dep_closure(prop_file)
    res["files"] = closure
    bad = forbidden_scan(only=set(closure))
    if bad:
        res["failed"] = [f"forbidden construct: {b}" for b in bad]
        return res
    res["tree_hygiene"] = forbidden_scan()      # whole development (reported, decided by tools/hygiene.sh and setup)
    if not ok:
        m = re.search(r'File "([^"]+)", line (\d+).*?\n(Error:.*?)(?:\n\n|\Z)', mlog, re.S)
        res["failed"] = [f"build of {target} failed: " + (f"{m.group(1)}:{m.group(2)} {m.group(3)[:300]}" if m else mlog[-500:])]
        return res
    os.makedirs(CASES, exist_ok=True)
    mod = prop_file[:-2].replace("/", ".")
    audit = os.path.join(CASES, f"{prop}_audit.v")
    with open(audit, "w") as f:
        f.write(f"From C2PA Require Import {mod}.\n")
        for t in thms:
            f.write(f'Goal True. idtac "@@THM {t}". exact I. Qed.\nPrint Assumptions {t}.\n')
    rc, out, err, _ = sh(f"coqc -noglob -Q {COQ} C2PA {audit}", cwd=CASES, timeout=600)
    if rc != 0:
        res["failed"] = [f"audit failed: {(out + err)[-500:]}"]
        return res
    parts = re.split(r"@@THM (\w+)\n", out)
    for i in range(1, len(parts), 2):
        name, body = parts[i], parts[i + 1]
        if "Closed under the global context" in body:
            res["axioms"][name] = []
            res["discharged"] += 1
        else:
            ax = re.findall(r"^([\w.']+)\s*:", body, re.M)
            res["axioms"][name] = ax
            if ax and all(a in AXIOM_ALLOW or a.split(".")[-1] in AXIOM_ALLOW for a in ax):
                res["discharged"] += 1
            else:
                res["failed"].append(f"{name}: assumptions {ax or body.strip()[:200]}")
    return res


# --- parsing terms printed by Coq -------------------------------------------------

_tok = re.compile(r"\s*(\[|\]|\(|\)|;|,|%[A-Za-z_]+|\"(?:[^\"]|\"\")*\"|[A-Za-z_][\w.']*|-?\d+|\{\||\|\}|:=)")


def parse_coq_term(s):
    toks = []
    pos = 0
    s = s.strip()
    while pos < len(s):
        m = _tok.match(s, pos)
        if not m:
            raise ValueError(f"cannot tokenise Coq output at {s[pos:pos + 40]!r}")
        t = m.group(1)
        pos = m.end()
        if t.startswith("%"):
            continue
        toks.append(t)
    i = 0

    def atom():
        nonlocal i
        t = toks[i]
        if t == "[":
            i += 1
            items = []
            if toks[i] == "]":
                i += 1
                return items
            while True:
                items.append(app())
                if toks[i] == ";":
                    i += 1
                    continue
                if toks[i] == "]":
                    i += 1
                    return items
                raise ValueError("list syntax")
        if t == "(":
            i += 1
            items = [app()]
            while toks[i] == ",":
                i += 1
                items.append(app())
            if toks[i] != ")":
                raise ValueError("paren syntax")
            i += 1
            return items[0] if len(items) == 1 else tuple(items)
        if t == "{|":
            i += 1
            d = {}
            while toks[i] != "|}":
                k = toks[i]
                i += 1
                assert toks[i] == ":="
                i += 1
                d[k] = app()
                if toks[i] == ";":
                    i += 1
            i += 1
            return d
        i += 1
        if re.fullmatch(r"-?\d+", t):
            return int(t)
        if t.startswith('"'):
            return t[1:-1].replace('""', '"')
        return t

    def app():
        nonlocal i
        head = atom()
        args = []
        while i < len(toks) and toks[i] not in ("]", ")", ";", ",", "|}"):
            args.append(atom())
        if args:
            return [head] + args if isinstance(head, str) else [head] + args
        return head

    v = app()
    if i != len(toks):
        raise ValueError("trailing tokens in Coq output")
    return v


def coq_eval(prop, imports, exprs, shard_size=250, timeout=900, jobs=16):
    """Evaluate Gallina expressions with vm_compute inside coqc (sharded, in parallel).
    exprs: list of strings.  Returns list of parsed terms (same order)."""
    os.makedirs(CASES, exist_ok=True)
    shards = [exprs[i:i + shard_size] for i in range(0, len(exprs), shard_size)]
    procs = []
    results = [None] * len(exprs)
    env = dict(os.environ)

    def launch(k, shard):
        path = os.path.join(CASES, f"{prop}_cases_{k}.v")
        with open(path, "w") as f:
            f.write(imports + "\nSet Printing Width 1000000.\nSet Printing Depth 1000000.\n")
            for j, e in enumerate(shard):
                f.write(f'Goal True. idtac "@@CASE {j}". exact I. Qed.\nEval vm_compute in ({e}).\n')
        # stdout goes to a file: a 64 KB pipe that nobody drains would block the coqc child
        fo = open(path + ".out", "w")
        fe = open(path + ".err", "w")
        return subprocess.Popen(f"timeout {timeout} coqc -noglob -Q {COQ} C2PA {path}", shell=True, cwd=CASES,
                                stdout=fo, stderr=fe, env=env), path, fo, fe

    pending = list(enumerate(shards))
    running = []
    while pending or running:
        while pending and len(running) < jobs:
            idx, shard = pending.pop(0)
            running.append((idx, shard, launch(idx, shard)))
        idx, shard, (p, path, fo, fe) = running.pop(0)
        p.wait()
        fo.close()
        fe.close()
        out = open(path + ".out").read()
        err = open(path + ".err").read()
        if p.returncode != 0:
            raise TieBroken(f"model evaluation failed for {prop} shard {idx}: {(out[-400:] + err[-400:])}")
        parts = re.split(r"@@CASE (\d+)\n", out)
        for i in range(1, len(parts), 2):
            j = int(parts[i])
            body = parts[i + 1].strip()
            m = re.match(r"=\s*(.*)\n\s*:\s[^\n]*\Z", body, re.S)
            if not m:
                m = re.match(r"=\s*(.*?)\s*:\s[^:]*\Z", body, re.S)
            term = m.group(1) if m else body
            results[idx * shard_size + j] = parse_coq_term(term)
        for ext in ("", ".out", ".err"):
            try:
                os.remove(path + ext)
            except OSError:
                pass
    return results


def coq_list(xs):
    return "[" + "; ".join(xs) + "]"


def coq_bytes(b):
    return "[" + ";".join(str(x) for x in b) + "]%N"


# ----------------------------------------------------------------------------
# harness

def build_harness(release=False, timeout=2400):
    lock = os.path.join(HARNESS_DIR, "Cargo.lock")
    if not os.path.exists(lock):
        shutil.copy(os.path.join(REPO, "Cargo.lock"), lock)
    cmd = "cargo build --offline" + (" --release" if release else "")
    rc, out, err, dt = sh(cmd, cwd=HARNESS_DIR, timeout=timeout)
    if rc != 0:
        raise TieBroken("harness build failed (the hooks or the public API changed):\n" + err[-2500:])
    return HARNESS_BIN_REL if release else HARNESS_BIN


def run_harness(prop, cases, release=False, timeout=1800, jobs=16, env=None):
    """run cases (list of dicts with 'id') through the harness, in parallel shards; returns {id: result}"""
    os.makedirs(CASES, exist_ok=True)
    binp = HARNESS_BIN_REL if release else HARNESS_BIN
    n = max(1, min(jobs, (len(cases) + 49) // 50))
    shards = [cases[i::n] for i in range(n)]
    procs = []
    for k, shard in enumerate(shards):
        path = os.path.join(CASES, f"{prop}_in_{k}{'_rel' if release else ''}.jsonl")
        with open(path, "w") as f:
            for c in shard:
                f.write(json.dumps(c) + "\n")
        e = dict(os.environ)
        if env:
            e.update(env)
        procs.append((shard, subprocess.Popen([binp, prop.lower(), path], stdout=subprocess.PIPE, stderr=subprocess.PIPE,
                                              text=True, env=e)))
    out = {}
    for shard, p in procs:
        try:
            so, se = p.communicate(timeout=timeout)
        except subprocess.TimeoutExpired:
            p.kill()
            so, se = p.communicate()
            se += "\nTIMEOUT"
        for line in so.splitlines():
            if line.strip():
                try:
                    r = json.loads(line)
                    out[r["id"]] = r
                except Exception:
                    pass
        for c in shard:
            if c["id"] not in out:
                out[c["id"]] = {"id": c["id"], "r": "crash", "msg": f"harness died rc={p.returncode}: {se[-300:]}"}
                break  # the first missing one is the crasher; the rest were not run
    return out


# ----------------------------------------------------------------------------
# known findings

def load_known():
    p = os.path.join(VERIF, "known_findings.json")
    out = []
    if os.path.exists(p):
        out += json.load(open(p)).get("findings", [])
    d = os.path.join(VERIF, "known_findings.d")
    if os.path.isdir(d):
        for fn in sorted(os.listdir(d)):
            if fn.endswith(".json"):
                out += json.load(open(os.path.join(d, fn))).get("findings", [])
    return out


class Ctx:
    def __init__(self, prop, tier, seed):
        self.prop, self.tier, self.seed = prop, tier, seed
        self.rng = random.Random(f"{prop}-{seed}")
        self.t0 = time.time()
        self.violations = []        # dicts: {case, why, ...}
        self.known_hits = {}        # finding id -> count / example
        self.disagreements = []     # model vs impl
        self.tie_errors = []        # strings
        self.coverage = {}
        self.assumptions = []
        self.known = [k for k in load_known() if k.get("property") == prop and k.get("status", "open") == "open"]

    def quick(self):
        return self.tier == "quick"

    def report_violation(self, case, why, matcher_input=None):
        """record an oracle violation unless it is a listed known finding"""
        mi = matcher_input if matcher_input is not None else case
        for k in self.known:
            try:
                if eval(k["match"], {"__builtins__": {}, "len": len, "any": any, "all": all, "int": int, "str": str,
                                     "min": min, "max": max, "sum": sum, "sorted": sorted, "set": set},
                        {"c": mi, "why": why}):
                    self.known_hits.setdefault(k["id"], {"count": 0, "example": case, "desc": k["description"]})
                    self.known_hits[k["id"]]["count"] += 1
                    return False
            except Exception as ex:
                log(f"known-finding matcher {k.get('id')} raised {ex!r}")
        self.violations.append({"case": case, "why": why})
        return True
