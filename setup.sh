#!/bin/bash
# Build the framework from files on disk only (offline): generated facts, full Coq .vo build, harness.
set -e
cd "$(dirname "$0")"
export CARGO_NET_OFFLINE=true
mkdir -p .build evidence replays coq/Generated
python3 -m vlib.setup_facts
python3 -c 'from vlib import common; common.gen_coqproject()'
( cd coq && coq_makefile -f _CoqProject -o Makefile >/dev/null && timeout 3000 make -k -j16 || true ) 2>&1 | tail -5
cp -f /repo/Cargo.lock harness/Cargo.lock
( cd harness && timeout 3000 cargo build --offline ) 2>&1 | tail -3
echo "setup done"
