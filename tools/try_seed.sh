#!/bin/bash
# usage: tools/try_seed.sh <Cxx> <patch.diff> [tier]
# applies a seeded change to /repo, runs the property's check, and always undoes the change.
set -u
P=$1; PATCH=$(readlink -f "$2"); TIER=${3:-quick}
cd /repo || exit 2
git apply --check "$PATCH" || { echo "patch does not apply"; exit 2; }
git apply "$PATCH"
cd /verif && ./check "$P" --tier "$TIER"; RC=$?
cd /repo && git apply -R "$PATCH"
echo "try_seed: check exit code $RC (1 = caught)"
exit $RC
