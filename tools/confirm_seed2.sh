#!/bin/bash
# usage: tools/confirm_seed2.sh <worktree> <seed id> <mode> <package> <filter...>
#   mode: itest (demo.rs -> sdk/tests/), append:<file> (demo.rs appended to file), diff (demo.diff applied)
# Confirms in a scratch worktree: crate compiles with the patch; the demonstration passes without the patch and fails with it;
# the filtered existing lib tests give the same failures with and without the patch.  Leaves the worktree clean.
WT=$1; S=$2; MODE=$3; PKG=$4; shift 4; FILTER="$@"
SD=/verif/seeded/$S; export CARGO_NET_OFFLINE=true
cd $WT || exit 2
git checkout -q -- . ; git clean -fdq -e target -e SEEDS -e SEEDS.done sdk/tests 2>/dev/null
place_demo() {
  case $MODE in
    itest) cp $SD/demo.rs sdk/tests/seed_confirm_demo.rs; DEMOARGS="--test seed_confirm_demo";;
    itest_cli) cp $SD/demo.rs cli/tests/seed_confirm_demo.rs; DEMOARGS="--test seed_confirm_demo";;
    append:*) cat $SD/demo.rs >> ${MODE#append:}; DEMOARGS="--lib -- seed";;
    diff) git apply $SD/demo.diff 2>/dev/null || patch -p1 -s -F3 < $SD/demo.diff; DEMOARGS="--lib -- seed";;
  esac
}
run_demo() { cargo test -p $PKG --offline ${EXTRA:-} $DEMOARGS 2>&1 | grep -E "^test result|^error(\[|:)" | head -3 | tr '\n' ' '; }
place_demo
A=$(run_demo)
git apply $SD/patch.diff || { echo "CONFIRM $S: patch does not apply after demo"; git checkout -q -- .; exit 2; }
B=$(run_demo)
L=$(cargo test -p $PKG --offline ${EXTRA:-} --lib --no-fail-fast -- $FILTER 2>&1 | grep -E "^test result" | head -1)
git checkout -q -- . ; rm -f sdk/tests/seed_confirm_demo.rs cli/tests/seed_confirm_demo.rs
echo "CONFIRM $S: without=[$A] with=[$B] existing-tests-with-patch=[$L]"
