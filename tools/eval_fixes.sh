#!/bin/bash
# evaluate proposed fixes in a scratch worktree: which lib tests fail with each patch vs the baseline
WT=/tmp/seed-c28
HEADC=$(git -C /repo rev-parse HEAD)
cd $WT && git checkout -q --detach $HEADC && git checkout -q -- .
export CARGO_NET_OFFLINE=true
LOG=/verif/.build/fixeval
mkdir -p $LOG
run() { # name, package args
  cargo test $2 --offline --no-fail-fast 2>&1 | grep -E "^test .* (FAILED|failed)|^test result" > $LOG/$1.txt
}
run baseline_c2pa "-p c2pa --lib"
run baseline_cli "-p c2patool"
for P in "$@"; do
  N=$(basename $P .diff)
  git checkout -q -- .
  if git apply --check $P 2>/dev/null; then git apply $P; elif git apply --check -p1 $P 2>/dev/null; then git apply -p1 $P; elif patch -p1 --dry-run < $P >/dev/null 2>&1; then patch -p1 -s < $P; else echo "DOES NOT APPLY" > $LOG/$N.txt; continue; fi
  case $N in C32*) run $N "-p c2patool";; *) run $N "-p c2pa --lib";; esac
  echo "== $N: $(diff <(grep FAILED $LOG/baseline_c2pa.txt $LOG/baseline_cli.txt | sed 's/.*txt://' | sort) <(grep FAILED $LOG/$N.txt | sort) | grep '^>' | wc -l) new failures; $(grep 'test result' $LOG/$N.txt | head -1)" >> $LOG/summary.txt
done
git checkout -q -- .
echo DONE >> $LOG/summary.txt
