#!/usr/bin/env python3
"""Regenerate the generated tables of DESIGN.md section 13 (status, findings, seeds) from evidence/, known findings and seeded/."""
import json,glob,os,re
os.chdir(os.path.dirname(os.path.dirname(os.path.abspath(__file__))))
rows=[]
for f in ['known_findings.json']+sorted(glob.glob('known_findings.d/*.json')):
    for e in json.load(open(f))['findings']:
        rows.append((e['property'],e['id'],e.get('status','open'),e.get('commit',''),e['description'][:160].replace('\n',' ').replace('|','/')))
rows.sort()
nf=sum(1 for r in rows if r[2]=='fixed'); no=sum(1 for r in rows if r[2]=='open')
ftab=["| property | finding | status | fix commit | what fails (abridged) |","|---|---|---|---|---|"]+["| %s | %s | %s | %s | %s |"%r for r in rows]
srows=[]; tot=0
for p in [f"C{n:02d}" for n in range(1,41)]:
    ev=json.load(open(f'evidence/{p}.json')); cl=json.load(open(f'vlib/claims/{p}.json')) if os.path.exists(f'vlib/claims/{p}.json') else {"technique":"Coq proof + srcfacts + correspondence"}
    c=ev['coverage']; tot+=c['obligations']; kn=list(c.get('known_findings_hit',{}))
    srows.append(f"| {p} | {c['obligations']} | {c.get('evaluations',0)} | {ev['wall_s']:.0f} s ({ev['tier']}) | {cl['technique'][:110]} | {', '.join(kn) if kn else '—'} |")
stab=["| property | theorems (all closed, no axioms) | evaluations | wall (4 checks in parallel) | technique | open known findings hit by the run |","|---|---|---|---|---|---|"]+srows
s=open('DESIGN.md').read()
i=s.index('| property | theorems (all closed'); j=s.index('### 13.4 Findings')
s=s[:i]+"\n".join(stab)+"\n\n"+s[j:]
i=s.index('Every finding below was reproduced'); j=s.index('### 13.5 Seeded changes')
body=s[i:j]
body=re.sub(r'\*\*\d+ were repaired\*\*',f'**{nf} were repaired**',body); body=re.sub(r'\*\*\d+ stay open\*\*',f'**{no} stay open**',body)
k=body.index('| property | finding |'); body=body[:k]+"\n".join(ftab)+"\n\n"
s=s[:i]+body+s[j:]
# seeds table
seeds=sorted(os.listdir('seeded'))
qrows=["| seed | property | change (abridged) | outcome of `./check` |","|---|---|---|---|"]
first_input=after=tie=0
for sd in seeds:
    m=json.load(open(f'seeded/{sd}/meta.json')); r=m['result']
    if r.startswith('caught'): first_input+=1
    elif 'caught with a failing input' in r or 'caught after' in r: after+=1
    else: tie+=1
    qrows.append(f"| {sd} | {m['property']} | {m['change'][:150].replace('|','/')} | {r[:260].replace('|','/')} |")
i=s.index('| seed | property | change (abridged)'); j=s.index('### 13.6 Trusted base')
s=s[:i]+"\n".join(qrows)+"\n\n"+s[j:]
s=re.sub(r'Of the \d+ seeds, \d+ were reported with a concrete failing input by the checks as first written; \d+ were',f'Of the {len(seeds)} seeds, {first_input} were reported with a concrete failing input by the checks as first written; {after} were',s)
s=re.sub(r'worktree: all \d+ demonstrations',f'worktree: all {len(seeds)} demonstrations',s)
print('seeds',len(seeds),first_input,after,tie)
s=re.sub(r'; \d+ property theorems in',f'; {tot} property theorems in',s); s=re.sub(r'for\s+all \d+ property theorems',f'for all {tot} property theorems',s)
open('DESIGN.md','w').write(s)
print('fixed',nf,'open',no,'theorems',tot)
