#!/bin/bash
# usage: tools/try_seed_isolated.sh <Cxx> <patch.diff> [tier]
# Runs the property's check against a scratch worktree of /repo (HEAD + the seeded change) with a separate harness copy
# and target dir, so /repo itself is never touched.  The scratch worktree lives in /tmp/repo2 (created on demand).
set -u
# one trial at a time: the scratch worktree and the harness copy are shared
exec 9>/verif/.build/try_seed.lock; flock 9
P=$1; PATCH=$(readlink -f "$2"); TIER=${3:-quick}
R2=/tmp/repo2; H2=/verif/.build/harness2
if [ ! -d $R2 ]; then git -C /repo worktree add -q $R2 HEAD; fi
git -C $R2 checkout -q --detach $(git -C /repo rev-parse HEAD) && git -C $R2 checkout -q -- .
rm -rf $H2 && mkdir -p $H2 && cp -r /verif/harness/src /verif/harness/Cargo.toml $H2/ && mkdir -p $H2/.cargo
sed -i "s#/repo/#$R2/#g" $H2/Cargo.toml
cat > $H2/.cargo/config.toml <<EOC
[net]
offline = true
[build]
target-dir = "/verif/.build/target2"
rustflags = ["--cfg", "contentauth_c2pa_rs_verif"]
EOC
cp $R2/Cargo.lock $H2/Cargo.lock
cd $R2 && git apply "$PATCH" || { echo "patch does not apply"; exit 2; }
cd /verif && VERIF_EVIDENCE_DIR=/verif/.build/seed_evidence VERIF_REPO=$R2 VERIF_HARNESS_DIR=$H2 VERIF_TARGET_DIR=/verif/.build/target2 ./check "$P" --tier "$TIER"; RC=$?
git -C $R2 checkout -q -- .
# restore generated facts for the real tree
python3 -c "
import importlib,sys
sys.path.insert(0,'/verif')
m=importlib.import_module('vlib.props.$(echo $P | tr A-Z a-z)')
class C: pass
hasattr(m,'facts') and m.facts(C())" 2>/dev/null
echo "try_seed_isolated: check exit code $RC (1 = caught)"
exit $RC
