#!/usr/bin/env python3
"""tools/stage_addonly.py <file>... : stage (git apply --cached) only the pure-addition hunks of the working-tree
changes of the given /repo files — i.e. guarded hooks — leaving temporary mutations (hunks with removed lines) unstaged."""
import re, subprocess, sys
for f in sys.argv[1:]:
    d = subprocess.run(["git", "-C", "/repo", "diff", "-U3", "--", f], capture_output=True, text=True).stdout
    if not d:
        continue
    head, *hunks = re.split(r"(?m)^(?=@@ )", d)
    keep = [h for h in hunks if not any(l.startswith("-") for l in h.splitlines()[1:])]
    if not keep:
        print(f"{f}: no add-only hunks"); continue
    patch = head + "".join(keep)
    r = subprocess.run(["git", "-C", "/repo", "apply", "--cached", "--recount", "-"], input=patch, text=True, capture_output=True)
    print(f"{f}: staged {len(keep)}/{len(hunks)} hunks", r.stderr.strip())
