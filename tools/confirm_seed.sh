#!/bin/bash
# usage: tools/confirm_seed.sh <worktree> <seeddir> <lib test filter...>
# In a scratch worktree: (a) demo passes without the patch, (b) with the patch: crate compiles, the
# filtered lib tests pass, demo fails.  Leaves the worktree clean.  Prints a summary line.
WT=$1; SD=$(readlink -f "$2"); shift 2; FILTER="$@"
export CARGO_NET_OFFLINE=true
cd "$WT" || exit 2
N=$(basename "$SD")
DEMO=sdk/tests/seed_demo_confirm_$N.rs
git checkout -q -- . ; cp "$SD/demo.rs" "$DEMO"
cargo test -p c2pa --offline --test seed_demo_confirm_$N > "$SD/confirm_without.log" 2>&1; A=$?
git apply "$SD/patch.diff" || { echo "CONFIRM $SD: patch does not apply"; rm -f "$DEMO"; exit 2; }
cargo test -p c2pa --offline --test seed_demo_confirm_$N > "$SD/confirm_with.log" 2>&1; B=$?
cargo test -p c2pa --offline --lib -- $FILTER > "$SD/confirm_lib.log" 2>&1; C=$?
git apply -R "$SD/patch.diff"; rm -f "$DEMO"; git checkout -q -- .
echo "CONFIRM $SD: demo_without_rc=$A demo_with_rc=$B lib_with_rc=$C  ($(grep -h 'test result' "$SD/confirm_lib.log" | head -1))"
