#!/usr/bin/env python3
"""tools/mark_fixed.py <file> <finding id> <commit> : flip a finding to status fixed (suppresses nothing)"""
import json, sys
f, fid, commit = sys.argv[1:4]
d = json.load(open(f))
for e in d["findings"]:
    if e["id"] == fid:
        e["status"] = "fixed"
        e["commit"] = commit
        e["fixed"] = f"fixed: property={e['property']} {commit} {e['description'][:300]}"
json.dump(d, open(f, "w"), indent=1)
