#!/bin/bash
# usage: tools/run_checks.sh <parallelism> <tier> Cxx...   -> .build/int_Cxx.log, summary on stdout
J=$1; T=$2; shift 2
cd /verif
printf "%s\n" "$@" | xargs -P $J -I{} sh -c "./check {} --tier $T > .build/int_{}.log 2>&1; echo rc=\$? >> .build/int_{}.log"
for p in "$@"; do echo "$p: $(grep -c '^KNOWN' .build/int_$p.log) known; $(grep -v '^KNOWN' .build/int_$p.log | grep -E '^\[C|VIOLATION' | tail -2 | cut -c1-160 | tr '\n' ' ')"; done
