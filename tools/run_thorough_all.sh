#!/bin/bash
# thorough tier for every property, 3 at a time, evidence kept apart from the committed quick evidence
cd /verif; mkdir -p .build/thorough
printf "C%02d\n" $(seq 1 40) | VERIF_EVIDENCE_DIR=/verif/.build/thorough_evidence xargs -P 3 -I{} sh -c "./check {} --tier thorough > .build/thorough/{}.log 2>&1; echo \"{} rc=\$? \$(grep -E '^\[C[0-9]+\] tier' .build/thorough/{}.log | tail -1 | cut -c1-150)\" >> .build/thorough/summary.txt"
echo ALLDONE >> .build/thorough/summary.txt
