#!/bin/bash
# usage: tools/run_seeds.sh C14-1 C14-2 ...  -> .build/seed_<id>.log and a summary line each in .build/seeds_summary7.txt
for s in "$@"; do
  P=${s%-*}
  /verif/tools/try_seed_isolated.sh $P /verif/seeded/$s/patch.diff > /verif/.build/seed_$s.log 2>&1
  echo "$s: $(grep -E '^\[C|^VIOLATION|try_seed' /verif/.build/seed_$s.log | cut -c1-170 | tr '\n' ' ')" >> /verif/.build/seeds_summary7.txt
  cp /verif/replays/$P-quick-1.json /verif/.build/seed_$s.replay.json 2>/dev/null
done
echo ALLDONE >> /verif/.build/seeds_summary7.txt
